// C13 — compiled BDD circuits compute their u32 word functions for all 2^64 input pairs.
// Mounted (cfg(kani)) at the end of poulpy-bin-fhe/src/bdd_arithmetic/mod.rs, so `super::circuits` (private)
// is reachable.  The tables are read through the real accessor `GetBitCircuitInfo::get_circuit`.
include!(concat!(env!("POULPY_VERIF_KX"), "/common.rs"));

use super::circuits::u32 as c;
use super::{GetBitCircuitInfo, Node};

const W: usize = 64;

/// Contract of a circuit table: the evaluator's level semantics on booleans (eval.rs::eval_level):
/// state [0,1,0,...]; Cmux(i,hi,lo) -> next[j] = bits[i] ? prev[hi] : prev[lo]; Copy -> prev[j];
/// None -> slot *undefined* (the real evaluator leaves a stale value there; reading it is an error).
fn bool_eval(nodes: &[Node], state_size: usize, bit: &dyn Fn(usize) -> bool, max_state: usize, in_bits: usize) -> bool {
    // structural obligations
    assert!(state_size > 0, "C13:state_size>0");
    assert!(nodes.len() % state_size == 0, "C13:len multiple of state_size");
    assert!(state_size <= max_state, "C13:max_state_size covers level");
    assert!(state_size <= W);
    assert!(state_size >= 2, "C13:initial one-slot exists");
    let mut prev = [false; W];
    let mut pdef = [false; W];
    prev[1] = true;
    let mut i = 0;
    while i < state_size {
        pdef[i] = true;
        i += 1;
    }
    let levels = nodes.len() / state_size;
    assert!(levels >= 1);
    let mut l = 0;
    while l + 1 < levels {
        let mut next = [false; W];
        let mut ndef = [false; W];
        let mut j = 0;
        while j < state_size {
            match &nodes[l * state_size + j] {
                Node::Cmux(i, hi, lo) => {
                    assert!(*hi < state_size && *lo < state_size, "C13:node index in range");
                    assert!(*i < in_bits, "C13:input index in range");
                    assert!(pdef[*hi] && pdef[*lo], "C13:reads defined slot");
                    next[j] = if bit(*i) { prev[*hi] } else { prev[*lo] };
                    ndef[j] = true;
                }
                Node::Copy => {
                    assert!(pdef[j], "C13:copy of defined slot");
                    next[j] = prev[j];
                    ndef[j] = true;
                }
                Node::None => {}
            }
            j += 1;
        }
        prev = next;
        pdef = ndef;
        l += 1;
    }
    // last chunk is [Cmux, None, ...]
    let mut j = 1;
    while j < state_size {
        assert!(matches!(&nodes[(levels - 1) * state_size + j], Node::None), "C13:last chunk tail is None");
        j += 1;
    }
    match &nodes[(levels - 1) * state_size] {
        Node::Cmux(i, hi, lo) => {
            assert!(*hi < state_size && *lo < state_size, "C13:node index in range");
            assert!(*i < in_bits, "C13:input index in range");
            assert!(pdef[*hi] && pdef[*lo], "C13:reads defined slot");
            if bit(*i) { prev[*hi] } else { prev[*lo] }
        }
        _ => panic!("C13:last node is Cmux"),
    }
}

fn check<C: GetBitCircuitInfo>(circ: &C, op: fn(u32, u32) -> u32, in_bits: usize, out_bits: usize, lo: usize, hi: usize) {
    let a: u32 = kani::any();
    let b: u32 = kani::any();
    assert!(circ.input_size() == in_bits, "C13:input_size");
    assert!(circ.output_size() == out_bits, "C13:output_size");
    let bit = |i: usize| if i < 32 { (a >> i) & 1 == 1 } else { (b >> (i - 32)) & 1 == 1 };
    let want = op(a, b);
    let max_state = circ.max_state_size();
    let mut o = lo;
    while o < hi && o < circ.output_size() {
        let (nodes, ss) = circ.get_circuit(o);
        let got = if ss == 0 { false } else { bool_eval(nodes, ss, &bit, max_state, in_bits) };
        assert!(got == ((want >> o) & 1 == 1), "C13:output bit equals word operation");
        o += 1;
    }
    kani::cover!(a == 0xdead_beef && b == 7, "C13:reachable");
}

macro_rules! bdd_harness {
    ($name:ident, $table:path, $op:expr, $inb:expr, $outb:expr) => {
        #[kani::proof]
        #[kani::unwind(70)]
        fn $name() {
            check(&$table, $op, $inb, $outb, 0, 32);
        }
    };
}

bdd_harness!(c13_bdd_add, c::add_codegen::OUTPUT_CIRCUITS, |a, b| a.wrapping_add(b), 64, 32);
bdd_harness!(c13_bdd_sub, c::sub_codegen::OUTPUT_CIRCUITS, |a, b| a.wrapping_sub(b), 64, 32);
bdd_harness!(c13_bdd_sll, c::sll_codegen::OUTPUT_CIRCUITS, |a, b| a << (b & 31), 37, 32);
bdd_harness!(c13_bdd_srl, c::srl_codegen::OUTPUT_CIRCUITS, |a, b| a >> (b & 31), 37, 32);
bdd_harness!(c13_bdd_sra, c::sra_codegen::OUTPUT_CIRCUITS, |a, b| ((a as i32) >> (b & 31)) as u32, 37, 32);
bdd_harness!(c13_bdd_slt, c::slt_codegen::OUTPUT_CIRCUITS, |a, b| ((a as i32) < (b as i32)) as u32, 64, 1);
bdd_harness!(c13_bdd_sltu, c::sltu_codegen::OUTPUT_CIRCUITS, |a, b| (a < b) as u32, 64, 1);
bdd_harness!(c13_bdd_and, c::and_codegen::OUTPUT_CIRCUITS, |a, b| a & b, 64, 32);
bdd_harness!(c13_bdd_or, c::or_codegen::OUTPUT_CIRCUITS, |a, b| a | b, 64, 32);
bdd_harness!(c13_bdd_xor, c::xor_codegen::OUTPUT_CIRCUITS, |a, b| a ^ b, 64, 32);
bdd_harness!(c13_bdd_identity, c::identity_codgen::OUTPUT_CIRCUITS, |a, _b| a, 32, 32);

// ------------------------------------------------------------------------------------------------
// C15 — bit addressing of packed encrypted integers: UnsignedInteger::bit_index is a bijection of 0..BITS onto 0..BITS,
// with the documented byte isolation (bits of byte k land in residue class k modulo BYTES).  Loop-free, complete.
// ------------------------------------------------------------------------------------------------
use super::UnsignedInteger;

fn bit_index_laws<T: UnsignedInteger>() {
    let bits = T::BITS as usize;
    let bytes = bits / 8;
    assert!(1usize << T::LOG_BITS == bits && 1usize << T::LOG_BYTES == bytes && T::LOG_BYTES_MASK == bytes - 1, "C15:derived constants");
    let i: usize = kani::any();
    let k: usize = kani::any();
    kani::assume(i < bits && k < bits);
    let j = T::bit_index(i);
    assert!(j < bits, "C15:bit_index in range");
    assert!(j & T::LOG_BYTES_MASK == i >> 3, "C15:byte k occupies residue class k mod BYTES");
    assert!(j >> T::LOG_BYTES == i & 7, "C15:bit-in-byte is the quotient");
    // inverse formula => bijection
    let back = ((j & T::LOG_BYTES_MASK) << 3) | (j >> T::LOG_BYTES);
    assert!(back == i, "C15:inverse formula");
    if T::bit_index(k) == j {
        assert!(k == i, "C15:injective");
    }
    kani::cover!(i == bits - 1, "C15:reachable");
}

#[kani::proof]
fn c15_bit_index_u8() { bit_index_laws::<u8>(); }
#[kani::proof]
fn c15_bit_index_u16() { bit_index_laws::<u16>(); }
#[kani::proof]
fn c15_bit_index_u32() { bit_index_laws::<u32>(); }
#[kani::proof]
fn c15_bit_index_u64() { bit_index_laws::<u64>(); }
#[kani::proof]
fn c15_bit_index_u128() { bit_index_laws::<u128>(); }
