// C14 — clear path of the lookup-table code (bounded): lookup_table_set + lookup_table_rotate on a marker module
// (only coefficient-domain HAL operations are used).  Mounted at the end of poulpy-bin-fhe/src/blind_rotation/lut.rs.
include!(concat!(env!("POULPY_VERIF_KX"), "/common.rs"));
use super::*;
use poulpy_cpu_ref::FFT64Ref;
#[allow(unused_imports)]
use poulpy_hal::layouts::{ZnxView, ZnxViewMut};

/// After `set(f, k)` and `rotate(-t)` the constant coefficient of the (extended) test polynomial is the table entry
/// f[ floor((t + drift) / step) ] * scale, negated when the index wraps past the domain size (negacyclic sign), for EVERY
/// rotation index t in [0, 2*N*ext).  Shapes: N = 4, extension factor EXT, table length FL; entries symbolic.
fn lut_clear_path<const N: usize, const EXT: usize, const FL: usize>() {
    const B: usize = 4; // base2k
    const K: usize = 3; // message precision: one limb, scale = 2^(B-K) = 2
    let module: Module<FFT64Ref> = Module::new_marker(N as u64);
    let infos = LookUpTableLayout { n: (N as u32).into(), extension_factor: EXT, k: (B as u32).into(), base2k: (B as u32).into() };
    let mut lut = LookupTable::alloc(&infos);
    let f: [i64; FL] = kani::any();
    let mut q = 0;
    while q < FL {
        kani::assume(f[q] >= -4 && f[q] < 4);
        q += 1;
    }
    lut.set(&module, &f, K);
    let d: usize = N * EXT; // domain size
    let step: usize = (d + FL / 2) / FL;
    assert!(lut.drift == step >> 1, "C14:drift == step/2");
    let t: usize = kani::any();
    kani::assume(t < 2 * d);
    lut.rotate(&module, -(t as i64));
    let s = (t + lut.drift) % (2 * d);
    let scale: i64 = 1 << (B - K);
    let want: i64 = if s < d { f[(s / step).min(FL - 1)] * scale } else { -(f[((s - d) / step).min(FL - 1)] * scale) };
    let got: i64 = lut.data[0].at(0, 0)[0];
    // -8 and +8 are the same torus element at radix 2^4 with a single limb (k = base2k): compare modulo 2^B
    assert!((got - want).rem_euclid(1 << B) == 0, "C14:constant coefficient == +-f[floor((t+drift)/step)]*scale (negacyclic sign)");
    kani::cover!(t == 5 && got != 0, "C14:reachable");
}

#[kani::proof]
#[kani::unwind(20)]
#[kani::stub(alloc::fmt::format, fmt_stub)]
fn c14_lut_clear__n4_ext1_f4() {
    lut_clear_path::<4, 1, 4>();
}
#[kani::proof]
#[kani::unwind(20)]
#[kani::stub(alloc::fmt::format, fmt_stub)]
fn c14_lut_clear__n4_ext1_f2() {
    lut_clear_path::<4, 1, 2>();
}
#[kani::proof]
#[kani::unwind(20)]
#[kani::stub(alloc::fmt::format, fmt_stub)]
fn c14_lut_clear__n2_ext2_f2() {
    lut_clear_path::<2, 2, 2>();
}
#[kani::proof]
#[kani::unwind(20)]
#[kani::stub(alloc::fmt::format, fmt_stub)]
fn c14_lut_clear__n2_ext4_f4() {
    lut_clear_path::<2, 4, 4>();
}
