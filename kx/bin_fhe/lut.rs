// C14 — clear path of the lookup-table code (bounded): lookup_table_set + lookup_table_rotate on a marker module
// (only coefficient-domain HAL operations are used).  Mounted at the end of poulpy-bin-fhe/src/blind_rotation/lut.rs.
include!(concat!(env!("POULPY_VERIF_KX"), "/common.rs"));
use super::*;
use poulpy_cpu_ref::FFT64Ref;

// `<[T]>::rotate_right` (std's unsafe three-algorithm ptr_rotate) is replaced by the textbook definition: k single-step rotations
fn rotate_right_stub<T>(s: &mut [T], k: usize) {
    assert!(k <= s.len());
    let n = s.len();
    let mut r = 0;
    while r < k {
        let mut i = n - 1;
        while i > 0 {
            s.swap(i, i - 1);
            i -= 1;
        }
        r += 1;
    }
}
#[allow(unused_imports)]
use poulpy_hal::layouts::{ZnxView, ZnxViewMut};

/// After `set(f, k)` and `rotate(-t)` the constant coefficient of the (extended) test polynomial is the table entry
/// f[ floor((t + drift) / step) ] * scale, negated when the index wraps past the domain size (negacyclic sign), for EVERY
/// rotation index t in [0, 2*N*ext).  Shapes: N = 4, extension factor EXT, table length FL; entries symbolic.
fn lut_clear_path<const N: usize, const EXT: usize, const FL: usize>() {
    lut_clear_path_t::<N, EXT, FL>(None)
}

fn lut_clear_path_t<const N: usize, const EXT: usize, const FL: usize>(fixed_t: Option<usize>) {
    const B: usize = 4; // base2k
    const K: usize = 3; // message precision: one limb, scale = 2^(B-K) = 2
    let module: Module<FFT64Ref> = Module::new_marker(N as u64);
    let infos = LookUpTableLayout { n: (N as u32).into(), extension_factor: EXT, k: (B as u32).into(), base2k: (B as u32).into() };
    let mut lut = LookupTable::alloc(&infos);
    let f: [i64; FL] = kani::any();
    let mut q = 0;
    while q < FL {
        kani::assume(f[q] >= -4 && f[q] < 4);
        q += 1;
    }
    lut.set(&module, &f, K);
    let d: usize = N * EXT; // domain size
    let step: usize = (d + FL / 2) / FL;
    assert!(lut.drift == step >> 1, "C14:drift == step/2");
    let t: usize = match fixed_t {
        Some(v) => v,
        None => kani::any(),
    };
    kani::assume(t < 2 * d);
    lut.rotate(&module, -(t as i64));
    let s = (t + lut.drift) % (2 * d);
    let scale: i64 = 1 << (B - K);
    let want: i64 = if s < d { f[(s / step).min(FL - 1)] * scale } else { -(f[((s - d) / step).min(FL - 1)] * scale) };
    let got: i64 = lut.data[0].at(0, 0)[0];
    // -8 and +8 are the same torus element at radix 2^4 with a single limb (k = base2k): compare modulo 2^B
    assert!((got - want).rem_euclid(1 << B) == 0, "C14:constant coefficient == +-f[floor((t+drift)/step)]*scale (negacyclic sign)");
    kani::cover!(got != 0, "C14:reachable");
}

#[kani::proof]
#[kani::unwind(20)]
#[kani::stub(alloc::fmt::format, fmt_stub)]
fn c14_lut_clear__n4_ext1_f4() {
    lut_clear_path::<4, 1, 4>();
}
#[kani::proof]
#[kani::unwind(20)]
#[kani::stub(alloc::fmt::format, fmt_stub)]
fn c14_lut_clear__n4_ext1_f2() {
    lut_clear_path::<4, 1, 2>();
}

// extension factor 4: the rotation index is a constant per harness (a symbolic index does not finish for ext >= 2)
macro_rules! lut_ext4 {
    ($name:ident, $t:expr) => {
        #[kani::proof]
        #[kani::unwind(20)]
        #[kani::stub(alloc::fmt::format, fmt_stub)]
        fn $name() {
            lut_clear_path_t::<2, 4, 2>(Some($t));
        }
    };
}
lut_ext4!(c14_lut_clear__n2_ext4_f2_t0, 0);
lut_ext4!(c14_lut_clear__n2_ext4_f2_t1, 1);
lut_ext4!(c14_lut_clear__n2_ext4_f2_t2, 2);
lut_ext4!(c14_lut_clear__n2_ext4_f2_t3, 3);
lut_ext4!(c14_lut_clear__n2_ext4_f2_t4, 4);
lut_ext4!(c14_lut_clear__n2_ext4_f2_t5, 5);
lut_ext4!(c14_lut_clear__n2_ext4_f2_t6, 6);
lut_ext4!(c14_lut_clear__n2_ext4_f2_t7, 7);
lut_ext4!(c14_lut_clear__n2_ext4_f2_t8, 8);
lut_ext4!(c14_lut_clear__n2_ext4_f2_t9, 9);
lut_ext4!(c14_lut_clear__n2_ext4_f2_t10, 10);
lut_ext4!(c14_lut_clear__n2_ext4_f2_t11, 11);
lut_ext4!(c14_lut_clear__n2_ext4_f2_t12, 12);
lut_ext4!(c14_lut_clear__n2_ext4_f2_t13, 13);
lut_ext4!(c14_lut_clear__n2_ext4_f2_t14, 14);
lut_ext4!(c14_lut_clear__n2_ext4_f2_t15, 15);

macro_rules! lut_ext2 {
    ($name:ident, $t:expr) => {
        #[kani::proof]
        #[kani::unwind(6)]
        #[kani::stub(alloc::fmt::format, fmt_stub)]
        #[kani::stub(<[VecZnx<Vec<u8>>]>::rotate_right, rotate_right_stub)]
        #[kani::stub(poulpy_cpu_ref::reference::znx::znx_switch_ring_ref, switch_ring_contract)]
        fn $name() {
            lut_clear_path_t::<2, 2, 2>(Some($t));
        }
    };
}
lut_ext2!(c14_lut_clear__n2_ext2_f2_t0, 0);
lut_ext2!(c14_lut_clear__n2_ext2_f2_t1, 1);
lut_ext2!(c14_lut_clear__n2_ext2_f2_t2, 2);
lut_ext2!(c14_lut_clear__n2_ext2_f2_t3, 3);
lut_ext2!(c14_lut_clear__n2_ext2_f2_t4, 4);
lut_ext2!(c14_lut_clear__n2_ext2_f2_t5, 5);
lut_ext2!(c14_lut_clear__n2_ext2_f2_t6, 6);
lut_ext2!(c14_lut_clear__n2_ext2_f2_t7, 7);

// ------------------------------------------------------------------------------------------------
// C18 — BlindRotationKey / BlindRotationKeyCompressed::read_from: the wrapper's own scalar metadata (`dist`) must be left
// unchanged when the read fails ("metadata updated atomically after a successful read", ReaderFrom).  A receiver with
// zero key elements isolates the wrapper's own code: the 16-byte header (distribution word, element count) is fully symbolic.
// ------------------------------------------------------------------------------------------------
mod c18_brk {
    use super::fmt_stub;
    use crate::blind_rotation::{BlindRotationKey, BlindRotationKeyCompressed, CGGI};
    use poulpy_core::Distribution;
    use poulpy_hal::layouts::ReaderFrom;
    use std::io::Cursor;
    use std::marker::PhantomData;

    fn check(r: std::io::Result<()>, dist: &Distribution, hdr: &[u8; 16], total: usize) {
        let word = u64::from_le_bytes([hdr[0], hdr[1], hdr[2], hdr[3], hdr[4], hdr[5], hdr[6], hdr[7]]);
        let len = u64::from_le_bytes([hdr[8], hdr[9], hdr[10], hdr[11], hdr[12], hdr[13], hdr[14], hdr[15]]);
        if r.is_err() {
            assert!(matches!(dist, Distribution::BinaryBlock(7)), "C18:Err leaves wrapper metadata unchanged");
        } else {
            assert!(total == 16 && len == 0 && (word >> 56) <= 6, "C18:Ok only for a complete, valid header");
            assert!(!matches!(dist, Distribution::BinaryBlock(7)) || word == (4u64 << 56 | 7), "C18:Ok commits the distribution from the stream");
        }
    }

    #[kani::proof]
    #[kani::unwind(18)]
    #[kani::stub(alloc::fmt::format, fmt_stub)]
    fn c18_blind_rotation_key_read_header() {
        let hdr: [u8; 16] = kani::any();
        let total: usize = kani::any();
        kani::assume(total <= 16);
        let mut key: BlindRotationKey<Vec<u8>, CGGI> = BlindRotationKey { keys: Vec::new(), dist: Distribution::BinaryBlock(7), _phantom: PhantomData };
        let mut cur = Cursor::new(&hdr[..total]);
        let r = key.read_from(&mut cur);
        check(r, &key.dist, &hdr, total);
    }

    #[kani::proof]
    #[kani::unwind(18)]
    #[kani::stub(alloc::fmt::format, fmt_stub)]
    fn c18_blind_rotation_key_compressed_read_header() {
        let hdr: [u8; 16] = kani::any();
        let total: usize = kani::any();
        kani::assume(total <= 16);
        let mut key: BlindRotationKeyCompressed<Vec<u8>, CGGI> = BlindRotationKeyCompressed { keys: Vec::new(), dist: Distribution::BinaryBlock(7), _phantom: PhantomData };
        let mut cur = Cursor::new(&hdr[..total]);
        let r = key.read_from(&mut cur);
        check(r, &key.dist, &hdr, total);
    }
}

// ------------------------------------------------------------------------------------------------
// C14 — mod_switch_2n (fix c84834e): for every limb radix, both directions, the switched value is the nearest integer to
// x * 2^(log2(2N*ext) - 1) where x in [-1/2, 1/2) is the EXACT torus value of ALL limbs (bounded: 3 limbs, two coefficients,
// domain size 32; limbs symbolic balanced digits; radix constant per harness).
// ------------------------------------------------------------------------------------------------
mod c14_mod_switch {
    use crate::blind_rotation::{mod_switch_2n, LookUpTableRotationDirection};
    use poulpy_core::layouts::{LWE, LWEToRef};
    use poulpy_hal::layouts::ZnxViewMut;

    fn case<const B: usize>(left: bool) {
        const LIMBS: usize = 3;
        let n: usize = 32; // 2N*ext: log2n = 6, result on 5 bits
        let mut lwe: LWE<Vec<u8>> = LWE::alloc(1u32.into(), (B as u32).into(), ((B * LIMBS) as u32).into());
        let half: i64 = 1i64 << (B - 1);
        let mut v: [i128; 2] = [0; 2];
        for i in 0..LIMBS {
            for c in 0..2 {
                let d: i64 = kani::any();
                kani::assume(-half <= d && d < half);
                lwe.data_mut().at_mut(0, i)[c] = d;
                v[c] = (v[c] << B) + d as i128;
            }
        }
        let mut res: [i64; 2] = [0; 2];
        let dir = if left { LookUpTableRotationDirection::Left } else { LookUpTableRotationDirection::Right };
        mod_switch_2n(n, &mut res, &lwe.to_ref(), dir);
        let k: u32 = (B * LIMBS) as u32; // total bits
        for c in 0..2 {
            let exact: i128 = if left { -v[c] } else { v[c] }; // x = exact / 2^k
            // | res * 2^k - exact * 2^5 | <= 2^(k-1) + 2^(k-5)   (half a unit of the result + the limbs below the guard bits)
            let lhs: i128 = ((res[c] as i128) << k) - (exact << 5);
            let tol: i128 = (1i128 << (k - 1)) + (1i128 << (k.saturating_sub(5)));
            assert!(-tol <= lhs && lhs <= tol, "C14:mod_switch_2n == round(x * 2^(log2(2N)-1))");
        }
    }
    #[kani::proof] #[kani::unwind(5)] fn c14_mod_switch__b3_right() { case::<3>(false); }
    #[kani::proof] #[kani::unwind(5)] fn c14_mod_switch__b3_left() { case::<3>(true); }
    #[kani::proof] #[kani::unwind(5)] fn c14_mod_switch__b6_right() { case::<6>(false); }
    #[kani::proof] #[kani::unwind(5)] fn c14_mod_switch__b6_left() { case::<6>(true); }
    #[kani::proof] #[kani::unwind(5)] fn c14_mod_switch__b13_right() { case::<13>(false); }
    #[kani::proof] #[kani::unwind(5)] fn c14_mod_switch__b13_left() { case::<13>(true); }
    #[kani::proof] #[kani::unwind(5)] fn c14_mod_switch__b2_right() { case::<2>(false); }
    #[kani::proof] #[kani::unwind(5)] fn c14_mod_switch__b2_left() { case::<2>(true); }
    #[kani::proof] #[kani::unwind(5)] fn c14_mod_switch__b4_right() { case::<4>(false); }
    #[kani::proof] #[kani::unwind(5)] fn c14_mod_switch__b4_left() { case::<4>(true); }
    #[kani::proof] #[kani::unwind(5)] fn c14_mod_switch__b5_right() { case::<5>(false); }
    #[kani::proof] #[kani::unwind(5)] fn c14_mod_switch__b5_left() { case::<5>(true); }
    #[kani::proof] #[kani::unwind(5)] fn c14_mod_switch__b7_right() { case::<7>(false); }
    #[kani::proof] #[kani::unwind(5)] fn c14_mod_switch__b7_left() { case::<7>(true); }
    #[kani::proof] #[kani::unwind(5)] fn c14_mod_switch__b8_right() { case::<8>(false); }
    #[kani::proof] #[kani::unwind(5)] fn c14_mod_switch__b8_left() { case::<8>(true); }
    #[kani::proof] #[kani::unwind(5)] fn c14_mod_switch__b10_right() { case::<10>(false); }
    #[kani::proof] #[kani::unwind(5)] fn c14_mod_switch__b10_left() { case::<10>(true); }
    #[kani::proof] #[kani::unwind(5)] fn c14_mod_switch__b19_right() { case::<19>(false); }
    #[kani::proof] #[kani::unwind(5)] fn c14_mod_switch__b19_left() { case::<19>(true); }
}
