// C16 — a quantised constant carries the value at the REQUESTED torus precision k: the narrow (i64) and the wide (i128) encoders of
// poulpy-ckks/src/layouts/plaintext/cst.rs must produce the same digits for every value both can represent (the caller switches between them on
// `log_delta + log_budget <= 63` only), for precisions that are and are not multiples of the limb radix.  The digit encoders themselves
// (encode_i64 / encode_i128 of poulpy-hal) are under contract in C08.
include!(concat!(env!("POULPY_VERIF_KX"), "/common.rs"));
use super::{encode_const_coeff_i128, encode_const_coeff_i64};
use poulpy_core::layouts::Base2K;

fn same_digits<const B: u32, const K: usize>() {
    let value: i64 = kani::any();
    // |value| < 2^(K-1): what a plaintext of K bits holds
    kani::assume(K >= 63 || (value >= -(1i64 << (K - 1)) && value < (1i64 << (K - 1))));
    let narrow = encode_const_coeff_i64(Base2K(B), K, value);
    let wide = encode_const_coeff_i128(Base2K(B), K, value as i128);
    assert!(narrow.len() == wide.len(), "C16:constant encoders agree on the limb count");
    let mut j = 0;
    while j < narrow.len() {
        assert!(narrow[j] == wide[j], "C16:narrow and wide constant encoders produce the same digits at precision k");
        j += 1;
    }
}
macro_rules! cst_harness {
    ($name:ident, $b:expr, $k:expr) => {
        #[kani::proof]
        #[kani::unwind(12)]
        #[kani::stub(alloc::fmt::format, fmt_stub)]
        fn $name() { same_digits::<$b, $k>() }
    };
}
// k not a multiple of base2k (the last limb is partially used), k a multiple, k below one limb
cst_harness!(c16_const_digits__b19_k52, 19, 52);
cst_harness!(c16_const_digits__b19_k57, 19, 57);
cst_harness!(c16_const_digits__b19_k9, 19, 9);
cst_harness!(c16_const_digits__b52_k9, 52, 9);
