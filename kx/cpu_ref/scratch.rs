// C12 / C17 — arena allocator: harnesses on the real private `take_slice_aligned` and the `HalScratchDefaults` methods.
// Mounted at the end of poulpy-cpu-ref/src/hal_defaults/scratch.rs (cfg(kani)).
include!(concat!(env!("POULPY_VERIF_KX"), "/common.rs"));
use super::*;

#[repr(align(64))]
struct Al([u8; 256]);

/// Contract of take_slice_aligned: for every base misalignment (0..63), every buffer length <= 192 and every take length
/// that fits: `take` starts at the first 64-aligned address, has exactly take_len bytes, `rem` starts right after it and
/// holds the rest; both lie inside `data` and are disjoint.
#[kani::proof]
#[kani::stub(alloc::fmt::format, fmt_stub)]
fn c12_take_slice_aligned_contract() {
    let mut buf = Al([0u8; 256]);
    let off: usize = kani::any();
    kani::assume(off < 64);
    let len: usize = kani::any();
    kani::assume(len <= 192);
    let data: &mut [u8] = &mut buf.0[off..off + len];
    let base = data.as_ptr() as usize;
    let take_len: usize = kani::any();
    let pad = (64 - (off % 64)) % 64;
    kani::assume(pad <= len && take_len <= len - pad);
    let (t, r) = take_slice_aligned(data, take_len);
    assert!(t.len() == take_len, "C12:take length");
    assert!((t.as_ptr() as usize) % 64 == 0, "C12:take is 64-byte aligned");
    assert!(t.as_ptr() as usize == base + pad, "C12:take starts at the first aligned address");
    assert!(r.as_ptr() as usize == base + pad + take_len, "C12:remainder starts right after take");
    assert!(r.len() == len - pad - take_len, "C12:remainder length = available - take");
    assert!(base + pad + take_len + r.len() <= base + len, "C17:both windows inside the buffer");
    kani::cover!(take_len == 65 && off == 3, "C12:reachable");
}

/// The only admissible panic: not enough aligned bytes.  (`should_panic`: Kani reports success iff the only failures are panics and
/// at least one is reachable; that requests which fit never panic is the contract harness above.)
#[kani::proof]
#[kani::should_panic]
#[kani::stub(alloc::fmt::format, fmt_stub)]
fn c12_take_slice_aligned_panics_iff_too_small() {
    let mut buf = Al([0u8; 256]);
    let off: usize = kani::any();
    kani::assume(off < 64);
    let len: usize = kani::any();
    kani::assume(len <= 192);
    let data: &mut [u8] = &mut buf.0[off..off + len];
    let take_len: usize = kani::any();
    let pad = (64 - (off % 64)) % 64;
    kani::assume(pad > len || take_len > len - pad);
    let _ = take_slice_aligned(data, take_len);
}

/// scratch_available agrees with what take_slice can deliver; take_slice_default::<T> yields len elements of T, aligned,
/// with the byte length len*size_of::<T>() (overflow is an obligation) and the remainder's availability decreases exactly.
fn check_take<T>(len_max: usize) {
    let mut buf = Al([0u8; 256]);
    let off: usize = kani::any();
    kani::assume(off < 64);
    let blen: usize = kani::any();
    kani::assume(blen <= 192);
    let s: &mut Scratch<crate::FFT64Ref> = <crate::FFT64Ref as HalScratchDefaults<crate::FFT64Ref>>::scratch_from_bytes_default(&mut buf.0[off..off + blen]);
    let avail = <crate::FFT64Ref as HalScratchDefaults<crate::FFT64Ref>>::scratch_available_default(s);
    let pad = (64 - (off % 64)) % 64;
    assert!(avail == blen.saturating_sub(pad), "C12:available = len - alignment padding");
    let n: usize = kani::any();
    kani::assume(n <= len_max && n * std::mem::size_of::<T>() <= avail);
    let (t, rem) = <crate::FFT64Ref as HalScratchDefaults<crate::FFT64Ref>>::take_slice_default::<T>(s, n);
    assert!(t.len() == n, "C12:take_slice element count");
    assert!((t.as_ptr() as usize) % 64 == 0, "C17:typed window is 64-byte aligned");
    let avail2 = <crate::FFT64Ref as HalScratchDefaults<crate::FFT64Ref>>::scratch_available_default(rem);
    let used = n * std::mem::size_of::<T>();
    // after a take the remainder starts at aligned_base + used: its own padding is (64 - used%64)%64
    let pad2 = (64 - (used % 64)) % 64;
    assert!(avail2 == (avail - used).saturating_sub(pad2), "C12:ledger: avail' = avail - len - pad'");
    if used % 64 == 0 {
        assert!(avail2 == avail - used, "C12:no padding when the take is a multiple of 64 bytes");
    }
}

#[kani::proof]
#[kani::stub(alloc::fmt::format, fmt_stub)]
fn c12_take_slice_default_u8() { check_take::<u8>(192); }
#[kani::proof]
#[kani::stub(alloc::fmt::format, fmt_stub)]
fn c12_take_slice_default_i64() { check_take::<i64>(24); }
#[kani::proof]
#[kani::stub(alloc::fmt::format, fmt_stub)]
fn c12_take_slice_default_f64() { check_take::<f64>(24); }
#[kani::proof]
#[kani::stub(alloc::fmt::format, fmt_stub)]
fn c12_take_slice_default_i128() { check_take::<i128>(12); }
