// Harnesses mounted at the end of poulpy-cpu-ref/src/lib.rs (cfg(kani)).
include!(concat!(env!("POULPY_VERIF_KX"), "/common.rs"));
#[allow(unused_imports)]
use crate::reference::znx::*;

// ------------------------------------------------------------------------------------------------
// C09 leaf bit facts imported by the Verus units (prelude/ring_spec.rs: kx_mask_mod_i64 / kx_mask_mod_usize)
// ------------------------------------------------------------------------------------------------
#[kani::proof]
fn c09_mask_mod_i64() {
    let k: u32 = kani::any();
    kani::assume(k <= 29);
    let m: i64 = 1i64 << k;
    let p: i64 = kani::any();
    let r = p & (m - 1);
    assert!(0 <= r && r < m, "C09:mask range");
    assert!(r == p.rem_euclid(m), "C09:p & (m-1) == p mod m");
    kani::cover!(p < 0 && k == 3 && r == 5);
}

#[kani::proof]
fn c09_mask_mod_usize() {
    let k: u32 = kani::any();
    kani::assume(k <= 29);
    let m: usize = 1usize << k;
    let x: usize = kani::any();
    assert!((x & (m - 1)) == x % m, "C09:x & (m-1) == x mod m");
}

// C03 leaf fact imported by the Verus unit `galois` (kx_mask_mod_u64): x & (m-1) == x mod m for every power of two m <= 2^33
#[kani::proof]
fn c03_mask_mod_u64() {
    let k: u32 = kani::any();
    kani::assume(k <= 33);
    let m: i64 = 1i64 << k;
    let x: u64 = kani::any();
    let r = x & ((m - 1) as u64);
    assert!(r == x % (m as u64) && r < m as u64, "C03:x & (m-1) == x mod m");
}

// ------------------------------------------------------------------------------------------------
// C08 digit / carry leaves: all x, all radices
// ------------------------------------------------------------------------------------------------
fn balanced(b: usize, d: i128) -> bool {
    let half: i128 = 1i128 << (b - 1);
    -half <= d && d < half
}

#[kani::proof]
fn c08_digit_carry_i64() {
    let b: usize = kani::any();
    kani::assume(b >= 1 && b <= 63);
    let x: i64 = kani::any();
    let d = get_digit_i64(b, x);
    assert!(balanced(b, d as i128), "C08:digit balanced");
    assert!((x as i128 - d as i128).rem_euclid(1i128 << b) == 0, "C08:digit congruent to x mod 2^b");
    // weakest precondition of the carry identity: x - d representable (the documented headroom)
    kani::assume((x as i128 - d as i128) <= i64::MAX as i128 && (x as i128 - d as i128) >= i64::MIN as i128);
    let c = get_carry_i64(b, x, d);
    assert!((d as i128) + (c as i128) * (1i128 << b) == x as i128, "C08:x == digit + carry*2^b");
    kani::cover!(x < 0 && b == 7);
}

#[kani::proof]
fn c08_digit_carry_i128() {
    let b: usize = kani::any();
    kani::assume(b >= 1 && b <= 63);
    let x: i128 = kani::any();
    kani::assume(x > -(1i128 << 120) && x < (1i128 << 120));
    let d = get_digit_i128(b, x);
    assert!(balanced(b, d), "C08:digit balanced");
    let c = get_carry_i128(b, x, d);
    assert!(d + c * (1i128 << b) == x, "C08:x == digit + carry*2^b");
}

// ------------------------------------------------------------------------------------------------
// C08 uniform step-kernel law, elementwise, radix constant per harness (complete in values, lsh and carries)
//     x1 + c_out * 2^b == a * 2^lsh + c_in ,  x1 balanced      (first: c_in = 0; final: congruence only)
// ------------------------------------------------------------------------------------------------
const HA: i64 = 1i64 << 62; // |a|   <= 2^62
const HC: i64 = 1i64 << 61; // |c_in| <= 2^61

fn any_in(h: i64) -> i64 {
    let v: i64 = kani::any();
    kani::assume(v >= -h && v <= h);
    v
}

fn laws_first(b: usize) {
    let lsh: usize = kani::any();
    kani::assume(lsh < b);
    let p2b: i128 = 1i128 << b;
    let a = any_in(HA);
    let c_in = any_in(HC);
    let x_in = any_in(HC);
    let rhs_first: i128 = (a as i128) << lsh;
    let rhs_mid: i128 = ((a as i128) << lsh) + c_in as i128;

    // first step, carry only
    {
        let mut c = [kani::any::<i64>()];
        znx_normalize_first_step_carry_only_ref(b, lsh, &[a], &mut c);
        assert!(balanced(b, rhs_first - (c[0] as i128) * p2b), "C08:first_carry_only law");
    }
    // first step, assign
    {
        let mut x = [a];
        let mut c = [kani::any::<i64>()];
        znx_normalize_first_step_assign_ref(b, lsh, &mut x, &mut c);
        assert!(x[0] as i128 + (c[0] as i128) * p2b == rhs_first && balanced(b, x[0] as i128), "C08:first_assign law");
    }
    // first step, overwrite / accumulate
    {
        let mut x = [x_in];
        let mut c = [kani::any::<i64>()];
        znx_normalize_first_step_ref::<true>(b, lsh, &mut x, &[a], &mut c);
        assert!(x[0] as i128 + (c[0] as i128) * p2b == rhs_first && balanced(b, x[0] as i128), "C08:first<OVERWRITE> law");
        let mut y = [x_in];
        let mut c2 = [kani::any::<i64>()];
        znx_normalize_first_step_ref::<false>(b, lsh, &mut y, &[a], &mut c2);
        assert!(y[0] as i128 == x_in as i128 + x[0] as i128 && c2[0] == c[0], "C08:first<ACCUMULATE> adds the same digit");
    }
    kani::cover!(lsh > 0 || b == 1, "C08:kernel laws reachable");
}

fn laws_middle(b: usize) {
    let lsh: usize = kani::any();
    kani::assume(lsh < b);
    let p2b: i128 = 1i128 << b;
    let a = any_in(HA);
    let c_in = any_in(HC);
    let x_in = any_in(HC);
    let rhs_first: i128 = (a as i128) << lsh;
    let rhs_mid: i128 = ((a as i128) << lsh) + c_in as i128;

    // middle step, carry only
    {
        let mut c = [c_in];
        znx_normalize_middle_step_carry_only_ref(b, lsh, &[a], &mut c);
        assert!(balanced(b, rhs_mid - (c[0] as i128) * p2b), "C08:middle_carry_only law");
    }
    // middle step, assign
    {
        let mut x = [a];
        let mut c = [c_in];
        znx_normalize_middle_step_assign_ref(b, lsh, &mut x, &mut c);
        assert!(x[0] as i128 + (c[0] as i128) * p2b == rhs_mid && balanced(b, x[0] as i128), "C08:middle_assign law");
    }
    // middle step, overwrite / accumulate / subtract
    {
        let mut x = [x_in];
        let mut c = [c_in];
        znx_normalize_middle_step_ref::<true>(b, lsh, &mut x, &[a], &mut c);
        assert!(x[0] as i128 + (c[0] as i128) * p2b == rhs_mid && balanced(b, x[0] as i128), "C08:middle<OVERWRITE> law");
        let mut y = [x_in];
        let mut c2 = [c_in];
        znx_normalize_middle_step_ref::<false>(b, lsh, &mut y, &[a], &mut c2);
        assert!(y[0] as i128 == x_in as i128 + x[0] as i128 && c2[0] == c[0], "C08:middle<ACCUMULATE> adds the same digit");
        let mut z = [x_in];
        let mut c3 = [c_in];
        znx_normalize_middle_step_sub_ref(b, lsh, &mut z, &[a], &mut c3);
        assert!(z[0] as i128 == x_in as i128 - x[0] as i128 && c3[0] == c[0], "C08:middle_sub subtracts the same digit");
    }
    kani::cover!(lsh > 0 || b == 1, "C08:kernel laws reachable");
}

fn laws_final(b: usize) {
    let lsh: usize = kani::any();
    kani::assume(lsh < b);
    let p2b: i128 = 1i128 << b;
    let a = any_in(HA);
    let c_in = any_in(HC);
    let x_in = any_in(HC);
    let rhs_first: i128 = (a as i128) << lsh;
    let rhs_mid: i128 = ((a as i128) << lsh) + c_in as i128;

    // final step: assign / overwrite / accumulate / subtract  (congruence mod 2^b, balanced, no carry out)
    {
        let mut x = [a];
        let mut c = [c_in];
        znx_normalize_final_step_assign_ref(b, lsh, &mut x, &mut c);
        assert!((x[0] as i128 - rhs_mid).rem_euclid(p2b) == 0 && balanced(b, x[0] as i128), "C08:final_assign law");
        assert!(c[0] == c_in, "C08:final step leaves the carry buffer alone");
        let mut y = [x_in];
        let mut c1 = [c_in];
        znx_normalize_final_step_ref::<true>(b, lsh, &mut y, &[a], &mut c1);
        assert!(y[0] == x[0], "C08:final<OVERWRITE> law");
        let mut z = [x_in];
        znx_normalize_final_step_ref::<false>(b, lsh, &mut z, &[a], &mut c1);
        assert!(z[0] as i128 == x_in as i128 + x[0] as i128, "C08:final<ACCUMULATE> law");
        let mut w = [x_in];
        znx_normalize_final_step_sub_ref(b, lsh, &mut w, &[a], &mut c1);
        assert!(w[0] as i128 == x_in as i128 - x[0] as i128, "C08:final_sub law");
    }
    kani::cover!(lsh > 0 || b == 1, "C08:kernel laws reachable");
}

fn laws_digit(b: usize) {
    let lsh: usize = kani::any();
    kani::assume(lsh < b);
    let p2b: i128 = 1i128 << b;
    let a = any_in(HA);
    let c_in = any_in(HC);
    let x_in = any_in(HC);
    let rhs_first: i128 = (a as i128) << lsh;
    let rhs_mid: i128 = ((a as i128) << lsh) + c_in as i128;

    // digit extraction helpers used by the cross-radix path
    {
        let sh: usize = kani::any();
        kani::assume(sh <= 62 && sh + b <= 62);
        let mut r = [x_in];
        let mut s = [a];
        znx_extract_digit_addmul_ref(b, sh, &mut r, &mut s);
        let d: i128 = (r[0] as i128 - x_in as i128) >> sh;
        assert!(((r[0] as i128 - x_in as i128) == d << sh) && balanced(b, d), "C08:extract_digit_addmul adds a balanced digit << lsh");
        assert!(d + (s[0] as i128) * p2b == a as i128, "C08:extract_digit_addmul leaves the carry in src");
        let mut r2 = [a];
        let mut s2 = [c_in];
        znx_normalize_digit_ref(b, &mut r2, &mut s2);
        assert!(balanced(b, r2[0] as i128) && r2[0] as i128 + (s2[0] as i128 - c_in as i128) * p2b == a as i128, "C08:normalize_digit law");
    }
    kani::cover!(lsh > 0 || b == 1, "C08:kernel laws reachable");
}

macro_rules! kernel_harness {
    ($f:ident, $m:ident, $fi:ident, $d:ident, $b:expr) => {
        #[kani::proof]
        #[kani::unwind(3)]
        fn $f() {
            laws_first($b);
        }
        #[kani::proof]
        #[kani::unwind(3)]
        fn $m() {
            laws_middle($b);
        }
        #[kani::proof]
        #[kani::unwind(3)]
        fn $fi() {
            laws_final($b);
        }
        #[kani::proof]
        #[kani::unwind(3)]
        fn $d() {
            laws_digit($b);
        }
    };
}
kernel_harness!(c08_first_b1, c08_middle_b1, c08_final_b1, c08_digit_b1, 1);
kernel_harness!(c08_first_b2, c08_middle_b2, c08_final_b2, c08_digit_b2, 2);
kernel_harness!(c08_first_b3, c08_middle_b3, c08_final_b3, c08_digit_b3, 3);
kernel_harness!(c08_first_b4, c08_middle_b4, c08_final_b4, c08_digit_b4, 4);
kernel_harness!(c08_first_b5, c08_middle_b5, c08_final_b5, c08_digit_b5, 5);
kernel_harness!(c08_first_b6, c08_middle_b6, c08_final_b6, c08_digit_b6, 6);
kernel_harness!(c08_first_b7, c08_middle_b7, c08_final_b7, c08_digit_b7, 7);
kernel_harness!(c08_first_b8, c08_middle_b8, c08_final_b8, c08_digit_b8, 8);
kernel_harness!(c08_first_b9, c08_middle_b9, c08_final_b9, c08_digit_b9, 9);
kernel_harness!(c08_first_b10, c08_middle_b10, c08_final_b10, c08_digit_b10, 10);
kernel_harness!(c08_first_b11, c08_middle_b11, c08_final_b11, c08_digit_b11, 11);
kernel_harness!(c08_first_b12, c08_middle_b12, c08_final_b12, c08_digit_b12, 12);
kernel_harness!(c08_first_b13, c08_middle_b13, c08_final_b13, c08_digit_b13, 13);
kernel_harness!(c08_first_b14, c08_middle_b14, c08_final_b14, c08_digit_b14, 14);
kernel_harness!(c08_first_b15, c08_middle_b15, c08_final_b15, c08_digit_b15, 15);
kernel_harness!(c08_first_b16, c08_middle_b16, c08_final_b16, c08_digit_b16, 16);
kernel_harness!(c08_first_b17, c08_middle_b17, c08_final_b17, c08_digit_b17, 17);
kernel_harness!(c08_first_b18, c08_middle_b18, c08_final_b18, c08_digit_b18, 18);
kernel_harness!(c08_first_b19, c08_middle_b19, c08_final_b19, c08_digit_b19, 19);
kernel_harness!(c08_first_b20, c08_middle_b20, c08_final_b20, c08_digit_b20, 20);
kernel_harness!(c08_first_b21, c08_middle_b21, c08_final_b21, c08_digit_b21, 21);
kernel_harness!(c08_first_b22, c08_middle_b22, c08_final_b22, c08_digit_b22, 22);
kernel_harness!(c08_first_b23, c08_middle_b23, c08_final_b23, c08_digit_b23, 23);
kernel_harness!(c08_first_b24, c08_middle_b24, c08_final_b24, c08_digit_b24, 24);
kernel_harness!(c08_first_b25, c08_middle_b25, c08_final_b25, c08_digit_b25, 25);
kernel_harness!(c08_first_b26, c08_middle_b26, c08_final_b26, c08_digit_b26, 26);
kernel_harness!(c08_first_b27, c08_middle_b27, c08_final_b27, c08_digit_b27, 27);
kernel_harness!(c08_first_b28, c08_middle_b28, c08_final_b28, c08_digit_b28, 28);
kernel_harness!(c08_first_b29, c08_middle_b29, c08_final_b29, c08_digit_b29, 29);
kernel_harness!(c08_first_b30, c08_middle_b30, c08_final_b30, c08_digit_b30, 30);
kernel_harness!(c08_first_b31, c08_middle_b31, c08_final_b31, c08_digit_b31, 31);
kernel_harness!(c08_first_b32, c08_middle_b32, c08_final_b32, c08_digit_b32, 32);
kernel_harness!(c08_first_b33, c08_middle_b33, c08_final_b33, c08_digit_b33, 33);
kernel_harness!(c08_first_b34, c08_middle_b34, c08_final_b34, c08_digit_b34, 34);
kernel_harness!(c08_first_b35, c08_middle_b35, c08_final_b35, c08_digit_b35, 35);
kernel_harness!(c08_first_b36, c08_middle_b36, c08_final_b36, c08_digit_b36, 36);
kernel_harness!(c08_first_b37, c08_middle_b37, c08_final_b37, c08_digit_b37, 37);
kernel_harness!(c08_first_b38, c08_middle_b38, c08_final_b38, c08_digit_b38, 38);
kernel_harness!(c08_first_b39, c08_middle_b39, c08_final_b39, c08_digit_b39, 39);
kernel_harness!(c08_first_b40, c08_middle_b40, c08_final_b40, c08_digit_b40, 40);
kernel_harness!(c08_first_b41, c08_middle_b41, c08_final_b41, c08_digit_b41, 41);
kernel_harness!(c08_first_b42, c08_middle_b42, c08_final_b42, c08_digit_b42, 42);
kernel_harness!(c08_first_b43, c08_middle_b43, c08_final_b43, c08_digit_b43, 43);
kernel_harness!(c08_first_b44, c08_middle_b44, c08_final_b44, c08_digit_b44, 44);
kernel_harness!(c08_first_b45, c08_middle_b45, c08_final_b45, c08_digit_b45, 45);
kernel_harness!(c08_first_b46, c08_middle_b46, c08_final_b46, c08_digit_b46, 46);
kernel_harness!(c08_first_b47, c08_middle_b47, c08_final_b47, c08_digit_b47, 47);
kernel_harness!(c08_first_b48, c08_middle_b48, c08_final_b48, c08_digit_b48, 48);
kernel_harness!(c08_first_b49, c08_middle_b49, c08_final_b49, c08_digit_b49, 49);
kernel_harness!(c08_first_b50, c08_middle_b50, c08_final_b50, c08_digit_b50, 50);
kernel_harness!(c08_first_b51, c08_middle_b51, c08_final_b51, c08_digit_b51, 51);
kernel_harness!(c08_first_b52, c08_middle_b52, c08_final_b52, c08_digit_b52, 52);
kernel_harness!(c08_first_b53, c08_middle_b53, c08_final_b53, c08_digit_b53, 53);
kernel_harness!(c08_first_b54, c08_middle_b54, c08_final_b54, c08_digit_b54, 54);
kernel_harness!(c08_first_b55, c08_middle_b55, c08_final_b55, c08_digit_b55, 55);
kernel_harness!(c08_first_b56, c08_middle_b56, c08_final_b56, c08_digit_b56, 56);
kernel_harness!(c08_first_b57, c08_middle_b57, c08_final_b57, c08_digit_b57, 57);
kernel_harness!(c08_first_b58, c08_middle_b58, c08_final_b58, c08_digit_b58, 58);
kernel_harness!(c08_first_b59, c08_middle_b59, c08_final_b59, c08_digit_b59, 59);
kernel_harness!(c08_first_b60, c08_middle_b60, c08_final_b60, c08_digit_b60, 60);
kernel_harness!(c08_first_b61, c08_middle_b61, c08_final_b61, c08_digit_b61, 61);
kernel_harness!(c08_first_b62, c08_middle_b62, c08_final_b62, c08_digit_b62, 62);

// ------------------------------------------------------------------------------------------------
// C09 ring splitting / merging (bounded in shape: N = 8 -> 2 parts of 4 / 4 parts of 2; limb contents symbolic)
//   split: part_i[k] == a[g*k + i];   merge(split(a)) == a  ("merging the parts of a split returns the original")
// ------------------------------------------------------------------------------------------------
fn split_merge_laws<const N: usize, const G: usize, const M: usize>() {
    use crate::reference::vec_znx::{vec_znx_merge_rings, vec_znx_split_ring};
    use poulpy_hal::layouts::{VecZnx, ZnxView, ZnxViewMut};
    let size = 2usize;
    let mut a: VecZnx<Vec<u8>> = VecZnx::alloc(N, 1, size);
    for x in a.raw_mut().iter_mut() {
        *x = kani::any();
        kani::assume(*x > i64::MIN);
    }
    // second limb shorter operand shape: parts have 2 limbs, output of merge has 2 limbs
    let mut parts: Vec<VecZnx<Vec<u8>>> = (0..G).map(|_| VecZnx::alloc(M, 1, size)).collect();
    for p in parts.iter_mut() {
        for x in p.raw_mut().iter_mut() {
            *x = kani::any(); // stale contents must not matter (C11)
        }
    }
    let mut tmp = [0i64; N];
    vec_znx_split_ring::<_, _, ZnxRef>(&mut parts, 0, &a, 0, &mut tmp);
    let mut j = 0;
    while j < size {
        let mut i = 0;
        while i < G {
            let mut k = 0;
            while k < M {
                assert!(parts[i].at(0, j)[k] == a.at(0, j)[G * k + i], "C09:split part_i[k] == a[g*k+i]");
                k += 1;
            }
            i += 1;
        }
        j += 1;
    }
    let mut back: VecZnx<Vec<u8>> = VecZnx::alloc(N, 1, size);
    for x in back.raw_mut().iter_mut() {
        *x = kani::any();
    }
    vec_znx_merge_rings::<_, _, ZnxRef>(&mut back, 0, &parts, 0, &mut tmp);
    let mut t = 0;
    while t < N * size {
        assert!(back.raw()[t] == a.raw()[t], "C09:merge(split(a)) == a");
        t += 1;
    }
}

#[kani::proof]
#[kani::unwind(18)]
#[kani::stub(alloc::fmt::format, fmt_stub)]
fn c09_split_merge__n8_g2() {
    split_merge_laws::<8, 2, 4>();
}

#[kani::proof]
#[kani::unwind(18)]
#[kani::stub(alloc::fmt::format, fmt_stub)]
fn c09_split_merge__n8_g4() {
    split_merge_laws::<8, 4, 2>();
}

// ------------------------------------------------------------------------------------------------
// C06 — znx_fill_uniform_ref / vec_znx_fill_uniform_ref on a symbolic tape (see kx/hal/lib.rs): range, bijection on the
// low b bits, exactly one draw per coefficient, column order of a multi-limb fill (the order C19's decompression relies on).
// ------------------------------------------------------------------------------------------------
static mut TAPE: [u64; 8] = [0; 8];
static mut DRAWS: usize = 0;
fn tape_next_u64(_rng: &mut rand_chacha::ChaCha8Rng) -> Result<u64, core::convert::Infallible> {
    unsafe {
        let v: u64 = kani::any();
        if DRAWS < 8 {
            TAPE[DRAWS] = v;
        }
        DRAWS += 1;
        Ok(v)
    }
}

#[kani::proof]
#[kani::unwind(6)]
#[kani::stub(<rand_chacha::ChaCha8Rng as rand_core::TryRng>::try_next_u64, tape_next_u64)]
fn c06_vec_znx_fill_uniform_ref__n2_size2() {
    use crate::reference::vec_znx::vec_znx_fill_uniform_ref;
    use poulpy_hal::layouts::{VecZnx, ZnxView, ZnxViewMut};
    use poulpy_hal::source::Source;
    let mut s = Source::new([0u8; 32]);
    let mut v: VecZnx<Vec<u8>> = VecZnx::alloc(2, 2, 2);
    let garbage: [i64; 8] = kani::any();
    v.raw_mut().copy_from_slice(&garbage);
    let b: usize = kani::any();
    kani::assume(b >= 1 && b <= 62);
    let col: usize = kani::any();
    kani::assume(col < 2);
    vec_znx_fill_uniform_ref(b, &mut v, col, &mut s);
    let half: i64 = 1i64 << (b - 1);
    let mask: u64 = (1u64 << b) - 1;
    unsafe {
        assert!(DRAWS == 4, "C06:one draw per coefficient of the selected column");
        let mut j = 0;
        while j < 2 {
            let mut k = 0;
            while k < 2 {
                let x = v.at(col, j)[k];
                assert!(x >= -half && x < half, "C06:uniform limb range");
                assert!(x == ((TAPE[2 * j + k] & mask) as i64) - half, "C06:coefficient (j,k) == low b bits of draw 2j+k, recentred");
                // C11 frame: the other column keeps its previous contents
                assert!(v.at(1 - col, j)[k] == garbage[2 * (2 * j + (1 - col)) + k], "C11:other column untouched");
                k += 1;
            }
            j += 1;
        }
    }
}
