// Harnesses mounted at the end of poulpy-cpu-ref/src/lib.rs (cfg(kani)).
include!(concat!(env!("POULPY_VERIF_KX"), "/common.rs"));
#[allow(unused_imports)]
use crate::reference::znx::*;

// ------------------------------------------------------------------------------------------------
// C09 leaf bit facts imported by the Verus units (prelude/ring_spec.rs: kx_mask_mod_i64 / kx_mask_mod_usize)
// ------------------------------------------------------------------------------------------------
#[kani::proof]
fn c09_mask_mod_i64() {
    let k: u32 = kani::any();
    kani::assume(k <= 29);
    let m: i64 = 1i64 << k;
    let p: i64 = kani::any();
    let r = p & (m - 1);
    assert!(0 <= r && r < m, "C09:mask range");
    assert!(r == p.rem_euclid(m), "C09:p & (m-1) == p mod m");
    kani::cover!(p < 0 && k == 3 && r == 5);
}

#[kani::proof]
fn c09_mask_mod_usize() {
    let k: u32 = kani::any();
    kani::assume(k <= 29);
    let m: usize = 1usize << k;
    let x: usize = kani::any();
    assert!((x & (m - 1)) == x % m, "C09:x & (m-1) == x mod m");
}

// ------------------------------------------------------------------------------------------------
// C08 digit / carry leaves: all x, all radices
// ------------------------------------------------------------------------------------------------
fn balanced(b: usize, d: i128) -> bool {
    let half: i128 = 1i128 << (b - 1);
    -half <= d && d < half
}

#[kani::proof]
fn c08_digit_carry_i64() {
    let b: usize = kani::any();
    kani::assume(b >= 1 && b <= 63);
    let x: i64 = kani::any();
    let d = get_digit_i64(b, x);
    assert!(balanced(b, d as i128), "C08:digit balanced");
    assert!((x as i128 - d as i128).rem_euclid(1i128 << b) == 0, "C08:digit congruent to x mod 2^b");
    // weakest precondition of the carry identity: x - d representable (the documented headroom)
    kani::assume((x as i128 - d as i128) <= i64::MAX as i128 && (x as i128 - d as i128) >= i64::MIN as i128);
    let c = get_carry_i64(b, x, d);
    assert!((d as i128) + (c as i128) * (1i128 << b) == x as i128, "C08:x == digit + carry*2^b");
    kani::cover!(x < 0 && b == 7);
}

#[kani::proof]
fn c08_digit_carry_i128() {
    let b: usize = kani::any();
    kani::assume(b >= 1 && b <= 63);
    let x: i128 = kani::any();
    kani::assume(x > -(1i128 << 120) && x < (1i128 << 120));
    let d = get_digit_i128(b, x);
    assert!(balanced(b, d), "C08:digit balanced");
    let c = get_carry_i128(b, x, d);
    assert!(d + c * (1i128 << b) == x, "C08:x == digit + carry*2^b");
}

// ------------------------------------------------------------------------------------------------
// C08 uniform step-kernel law, elementwise, radix constant per harness (complete in values, lsh and carries)
//     x1 + c_out * 2^b == a * 2^lsh + c_in ,  x1 balanced      (first: c_in = 0; final: congruence only)
// ------------------------------------------------------------------------------------------------
const HA: i64 = 1i64 << 62; // |a|   <= 2^62
const HC: i64 = 1i64 << 61; // |c_in| <= 2^61

fn any_in(h: i64) -> i64 {
    let v: i64 = kani::any();
    kani::assume(v >= -h && v <= h);
    v
}

fn kernel_laws(b: usize) {
    let lsh: usize = kani::any();
    kani::assume(lsh < b);
    let p2b: i128 = 1i128 << b;
    let a = any_in(HA);
    let c_in = any_in(HC);
    let x_in = any_in(HC);
    let rhs_first: i128 = (a as i128) << lsh;
    let rhs_mid: i128 = ((a as i128) << lsh) + c_in as i128;

    // first step, carry only
    {
        let mut c = [kani::any::<i64>()];
        znx_normalize_first_step_carry_only_ref(b, lsh, &[a], &mut c);
        assert!(balanced(b, rhs_first - (c[0] as i128) * p2b), "C08:first_carry_only law");
    }
    // first step, assign
    {
        let mut x = [a];
        let mut c = [kani::any::<i64>()];
        znx_normalize_first_step_assign_ref(b, lsh, &mut x, &mut c);
        assert!(x[0] as i128 + (c[0] as i128) * p2b == rhs_first && balanced(b, x[0] as i128), "C08:first_assign law");
    }
    // first step, overwrite / accumulate
    {
        let mut x = [x_in];
        let mut c = [kani::any::<i64>()];
        znx_normalize_first_step_ref::<true>(b, lsh, &mut x, &[a], &mut c);
        assert!(x[0] as i128 + (c[0] as i128) * p2b == rhs_first && balanced(b, x[0] as i128), "C08:first<OVERWRITE> law");
        let mut y = [x_in];
        let mut c2 = [kani::any::<i64>()];
        znx_normalize_first_step_ref::<false>(b, lsh, &mut y, &[a], &mut c2);
        assert!(y[0] as i128 == x_in as i128 + x[0] as i128 && c2[0] == c[0], "C08:first<ACCUMULATE> adds the same digit");
    }
    // middle step, carry only
    {
        let mut c = [c_in];
        znx_normalize_middle_step_carry_only_ref(b, lsh, &[a], &mut c);
        assert!(balanced(b, rhs_mid - (c[0] as i128) * p2b), "C08:middle_carry_only law");
    }
    // middle step, assign
    {
        let mut x = [a];
        let mut c = [c_in];
        znx_normalize_middle_step_assign_ref(b, lsh, &mut x, &mut c);
        assert!(x[0] as i128 + (c[0] as i128) * p2b == rhs_mid && balanced(b, x[0] as i128), "C08:middle_assign law");
    }
    // middle step, overwrite / accumulate / subtract
    {
        let mut x = [x_in];
        let mut c = [c_in];
        znx_normalize_middle_step_ref::<true>(b, lsh, &mut x, &[a], &mut c);
        assert!(x[0] as i128 + (c[0] as i128) * p2b == rhs_mid && balanced(b, x[0] as i128), "C08:middle<OVERWRITE> law");
        let mut y = [x_in];
        let mut c2 = [c_in];
        znx_normalize_middle_step_ref::<false>(b, lsh, &mut y, &[a], &mut c2);
        assert!(y[0] as i128 == x_in as i128 + x[0] as i128 && c2[0] == c[0], "C08:middle<ACCUMULATE> adds the same digit");
        let mut z = [x_in];
        let mut c3 = [c_in];
        znx_normalize_middle_step_sub_ref(b, lsh, &mut z, &[a], &mut c3);
        assert!(z[0] as i128 == x_in as i128 - x[0] as i128 && c3[0] == c[0], "C08:middle_sub subtracts the same digit");
    }
    // final step: assign / overwrite / accumulate / subtract  (congruence mod 2^b, balanced, no carry out)
    {
        let mut x = [a];
        let mut c = [c_in];
        znx_normalize_final_step_assign_ref(b, lsh, &mut x, &mut c);
        assert!((x[0] as i128 - rhs_mid).rem_euclid(p2b) == 0 && balanced(b, x[0] as i128), "C08:final_assign law");
        assert!(c[0] == c_in, "C08:final step leaves the carry buffer alone");
        let mut y = [x_in];
        let mut c1 = [c_in];
        znx_normalize_final_step_ref::<true>(b, lsh, &mut y, &[a], &mut c1);
        assert!(y[0] == x[0], "C08:final<OVERWRITE> law");
        let mut z = [x_in];
        znx_normalize_final_step_ref::<false>(b, lsh, &mut z, &[a], &mut c1);
        assert!(z[0] as i128 == x_in as i128 + x[0] as i128, "C08:final<ACCUMULATE> law");
        let mut w = [x_in];
        znx_normalize_final_step_sub_ref(b, lsh, &mut w, &[a], &mut c1);
        assert!(w[0] as i128 == x_in as i128 - x[0] as i128, "C08:final_sub law");
    }
    // digit extraction helpers used by the cross-radix path
    {
        let sh: usize = kani::any();
        kani::assume(sh + b <= 62);
        let mut r = [x_in];
        let mut s = [a];
        znx_extract_digit_addmul_ref(b, sh, &mut r, &mut s);
        let d: i128 = (r[0] as i128 - x_in as i128) >> sh;
        assert!(((r[0] as i128 - x_in as i128) == d << sh) && balanced(b, d), "C08:extract_digit_addmul adds a balanced digit << lsh");
        assert!(d + (s[0] as i128) * p2b == a as i128, "C08:extract_digit_addmul leaves the carry in src");
        let mut r2 = [a];
        let mut s2 = [c_in];
        znx_normalize_digit_ref(b, &mut r2, &mut s2);
        assert!(balanced(b, r2[0] as i128) && r2[0] as i128 + (s2[0] as i128 - c_in as i128) * p2b == a as i128, "C08:normalize_digit law");
    }
    kani::cover!(lsh > 0 || b == 1, "C08:kernel laws reachable");
}

macro_rules! kernel_harness {
    ($name:ident, $b:expr) => {
        #[kani::proof]
        #[kani::unwind(3)]
        fn $name() {
            kernel_laws($b);
        }
    };
}
kernel_harness!(c08_kernels_b1, 1);
kernel_harness!(c08_kernels_b2, 2);
kernel_harness!(c08_kernels_b3, 3);
kernel_harness!(c08_kernels_b4, 4);
kernel_harness!(c08_kernels_b5, 5);
kernel_harness!(c08_kernels_b6, 6);
kernel_harness!(c08_kernels_b7, 7);
kernel_harness!(c08_kernels_b8, 8);
kernel_harness!(c08_kernels_b9, 9);
kernel_harness!(c08_kernels_b10, 10);
kernel_harness!(c08_kernels_b11, 11);
kernel_harness!(c08_kernels_b12, 12);
kernel_harness!(c08_kernels_b13, 13);
kernel_harness!(c08_kernels_b14, 14);
kernel_harness!(c08_kernels_b15, 15);
kernel_harness!(c08_kernels_b16, 16);
kernel_harness!(c08_kernels_b17, 17);
kernel_harness!(c08_kernels_b18, 18);
kernel_harness!(c08_kernels_b19, 19);
kernel_harness!(c08_kernels_b20, 20);
kernel_harness!(c08_kernels_b21, 21);
kernel_harness!(c08_kernels_b22, 22);
kernel_harness!(c08_kernels_b23, 23);
kernel_harness!(c08_kernels_b24, 24);
kernel_harness!(c08_kernels_b25, 25);
kernel_harness!(c08_kernels_b26, 26);
kernel_harness!(c08_kernels_b27, 27);
kernel_harness!(c08_kernels_b28, 28);
kernel_harness!(c08_kernels_b29, 29);
kernel_harness!(c08_kernels_b30, 30);
kernel_harness!(c08_kernels_b31, 31);
kernel_harness!(c08_kernels_b32, 32);
kernel_harness!(c08_kernels_b33, 33);
kernel_harness!(c08_kernels_b34, 34);
kernel_harness!(c08_kernels_b35, 35);
kernel_harness!(c08_kernels_b36, 36);
kernel_harness!(c08_kernels_b37, 37);
kernel_harness!(c08_kernels_b38, 38);
kernel_harness!(c08_kernels_b39, 39);
kernel_harness!(c08_kernels_b40, 40);
kernel_harness!(c08_kernels_b41, 41);
kernel_harness!(c08_kernels_b42, 42);
kernel_harness!(c08_kernels_b43, 43);
kernel_harness!(c08_kernels_b44, 44);
kernel_harness!(c08_kernels_b45, 45);
kernel_harness!(c08_kernels_b46, 46);
kernel_harness!(c08_kernels_b47, 47);
kernel_harness!(c08_kernels_b48, 48);
kernel_harness!(c08_kernels_b49, 49);
kernel_harness!(c08_kernels_b50, 50);
kernel_harness!(c08_kernels_b51, 51);
kernel_harness!(c08_kernels_b52, 52);
kernel_harness!(c08_kernels_b53, 53);
kernel_harness!(c08_kernels_b54, 54);
kernel_harness!(c08_kernels_b55, 55);
kernel_harness!(c08_kernels_b56, 56);
kernel_harness!(c08_kernels_b57, 57);
kernel_harness!(c08_kernels_b58, 58);
kernel_harness!(c08_kernels_b59, 59);
kernel_harness!(c08_kernels_b60, 60);
kernel_harness!(c08_kernels_b61, 61);
kernel_harness!(c08_kernels_b62, 62);
