// Harnesses mounted at the end of poulpy-cpu-ref/src/lib.rs (cfg(kani)).
include!(concat!(env!("POULPY_VERIF_KX"), "/common.rs"));
#[allow(unused_imports)]
use crate::reference::znx::*;

// ------------------------------------------------------------------------------------------------
// C09 leaf bit facts imported by the Verus units (prelude/ring_spec.rs: kx_mask_mod_i64 / kx_mask_mod_usize)
// ------------------------------------------------------------------------------------------------
#[kani::proof]
fn c09_mask_mod_i64() {
    let k: u32 = kani::any();
    kani::assume(k <= 29);
    let m: i64 = 1i64 << k;
    let p: i64 = kani::any();
    let r = p & (m - 1);
    assert!(0 <= r && r < m, "C09:mask range");
    assert!(r == p.rem_euclid(m), "C09:p & (m-1) == p mod m");
    kani::cover!(p < 0 && k == 3 && r == 5);
}

#[kani::proof]
fn c09_mask_mod_usize() {
    let k: u32 = kani::any();
    kani::assume(k <= 29);
    let m: usize = 1usize << k;
    let x: usize = kani::any();
    assert!((x & (m - 1)) == x % m, "C09:x & (m-1) == x mod m");
}

// C03 leaf fact imported by the Verus unit `galois` (kx_mask_mod_u64): x & (m-1) == x mod m for every power of two m <= 2^33
#[kani::proof]
fn c03_mask_mod_u64() {
    let k: u32 = kani::any();
    kani::assume(k <= 33);
    let m: i64 = 1i64 << k;
    let x: u64 = kani::any();
    let r = x & ((m - 1) as u64);
    assert!(r == x % (m as u64) && r < m as u64, "C03:x & (m-1) == x mod m");
}

// ------------------------------------------------------------------------------------------------
// C08 digit / carry leaves: all x, all radices
// ------------------------------------------------------------------------------------------------
fn balanced(b: usize, d: i128) -> bool {
    let half: i128 = 1i128 << (b - 1);
    -half <= d && d < half
}

#[kani::proof]
fn c08_digit_carry_i64() {
    let b: usize = kani::any();
    kani::assume(b >= 1 && b <= 63);
    let x: i64 = kani::any();
    let d = get_digit_i64(b, x);
    assert!(balanced(b, d as i128), "C08:digit balanced");
    assert!((x as i128 - d as i128).rem_euclid(1i128 << b) == 0, "C08:digit congruent to x mod 2^b");
    // weakest precondition of the carry identity: x - d representable (the documented headroom)
    kani::assume((x as i128 - d as i128) <= i64::MAX as i128 && (x as i128 - d as i128) >= i64::MIN as i128);
    let c = get_carry_i64(b, x, d);
    assert!((d as i128) + (c as i128) * (1i128 << b) == x as i128, "C08:x == digit + carry*2^b");
    kani::cover!(x < 0 && b == 7);
}

#[kani::proof]
fn c08_digit_carry_i128() {
    let b: usize = kani::any();
    kani::assume(b >= 1 && b <= 63);
    let x: i128 = kani::any();
    kani::assume(x > -(1i128 << 120) && x < (1i128 << 120));
    let d = get_digit_i128(b, x);
    assert!(balanced(b, d), "C08:digit balanced");
    let c = get_carry_i128(b, x, d);
    assert!(d + c * (1i128 << b) == x, "C08:x == digit + carry*2^b");
}

// ------------------------------------------------------------------------------------------------
// C08 uniform step-kernel law, elementwise, radix constant per harness (complete in values, lsh and carries)
//     x1 + c_out * 2^b == a * 2^lsh + c_in ,  x1 balanced      (first: c_in = 0; final: congruence only)
// ------------------------------------------------------------------------------------------------
const HA: i64 = 1i64 << 62; // |a|   <= 2^62
const HC: i64 = 1i64 << 61; // |c_in| <= 2^61

fn any_in(h: i64) -> i64 {
    let v: i64 = kani::any();
    kani::assume(v >= -h && v <= h);
    v
}

fn laws_first(b: usize) {
    let lsh: usize = kani::any();
    kani::assume(lsh < b);
    let p2b: i128 = 1i128 << b;
    let a = any_in(HA);
    let c_in = any_in(HC);
    let x_in = any_in(HC);
    let rhs_first: i128 = (a as i128) << lsh;
    let rhs_mid: i128 = ((a as i128) << lsh) + c_in as i128;

    // first step, carry only
    {
        let mut c = [kani::any::<i64>()];
        znx_normalize_first_step_carry_only_ref(b, lsh, &[a], &mut c);
        assert!(balanced(b, rhs_first - (c[0] as i128) * p2b), "C08:first_carry_only law");
    }
    // first step, assign
    {
        let mut x = [a];
        let mut c = [kani::any::<i64>()];
        znx_normalize_first_step_assign_ref(b, lsh, &mut x, &mut c);
        assert!(x[0] as i128 + (c[0] as i128) * p2b == rhs_first && balanced(b, x[0] as i128), "C08:first_assign law");
    }
    // first step, overwrite / accumulate
    {
        let mut x = [x_in];
        let mut c = [kani::any::<i64>()];
        znx_normalize_first_step_ref::<true>(b, lsh, &mut x, &[a], &mut c);
        assert!(x[0] as i128 + (c[0] as i128) * p2b == rhs_first && balanced(b, x[0] as i128), "C08:first<OVERWRITE> law");
        let mut y = [x_in];
        let mut c2 = [kani::any::<i64>()];
        znx_normalize_first_step_ref::<false>(b, lsh, &mut y, &[a], &mut c2);
        assert!(y[0] as i128 == x_in as i128 + x[0] as i128 && c2[0] == c[0], "C08:first<ACCUMULATE> adds the same digit");
    }
    kani::cover!(lsh > 0 || b == 1, "C08:kernel laws reachable");
}

fn laws_middle(b: usize) {
    let lsh: usize = kani::any();
    kani::assume(lsh < b);
    let p2b: i128 = 1i128 << b;
    let a = any_in(HA);
    let c_in = any_in(HC);
    let x_in = any_in(HC);
    let rhs_first: i128 = (a as i128) << lsh;
    let rhs_mid: i128 = ((a as i128) << lsh) + c_in as i128;

    // middle step, carry only
    {
        let mut c = [c_in];
        znx_normalize_middle_step_carry_only_ref(b, lsh, &[a], &mut c);
        assert!(balanced(b, rhs_mid - (c[0] as i128) * p2b), "C08:middle_carry_only law");
    }
    // middle step, assign
    {
        let mut x = [a];
        let mut c = [c_in];
        znx_normalize_middle_step_assign_ref(b, lsh, &mut x, &mut c);
        assert!(x[0] as i128 + (c[0] as i128) * p2b == rhs_mid && balanced(b, x[0] as i128), "C08:middle_assign law");
    }
    // middle step, overwrite / accumulate / subtract
    {
        let mut x = [x_in];
        let mut c = [c_in];
        znx_normalize_middle_step_ref::<true>(b, lsh, &mut x, &[a], &mut c);
        assert!(x[0] as i128 + (c[0] as i128) * p2b == rhs_mid && balanced(b, x[0] as i128), "C08:middle<OVERWRITE> law");
        let mut y = [x_in];
        let mut c2 = [c_in];
        znx_normalize_middle_step_ref::<false>(b, lsh, &mut y, &[a], &mut c2);
        assert!(y[0] as i128 == x_in as i128 + x[0] as i128 && c2[0] == c[0], "C08:middle<ACCUMULATE> adds the same digit");
        let mut z = [x_in];
        let mut c3 = [c_in];
        znx_normalize_middle_step_sub_ref(b, lsh, &mut z, &[a], &mut c3);
        assert!(z[0] as i128 == x_in as i128 - x[0] as i128 && c3[0] == c[0], "C08:middle_sub subtracts the same digit");
    }
    kani::cover!(lsh > 0 || b == 1, "C08:kernel laws reachable");
}

fn laws_final(b: usize) {
    let lsh: usize = kani::any();
    kani::assume(lsh < b);
    let p2b: i128 = 1i128 << b;
    let a = any_in(HA);
    let c_in = any_in(HC);
    let x_in = any_in(HC);
    let rhs_first: i128 = (a as i128) << lsh;
    let rhs_mid: i128 = ((a as i128) << lsh) + c_in as i128;

    // final step: assign / overwrite / accumulate / subtract  (congruence mod 2^b, balanced, no carry out)
    {
        let mut x = [a];
        let mut c = [c_in];
        znx_normalize_final_step_assign_ref(b, lsh, &mut x, &mut c);
        assert!((x[0] as i128 - rhs_mid).rem_euclid(p2b) == 0 && balanced(b, x[0] as i128), "C08:final_assign law");
        assert!(c[0] == c_in, "C08:final step leaves the carry buffer alone");
        let mut y = [x_in];
        let mut c1 = [c_in];
        znx_normalize_final_step_ref::<true>(b, lsh, &mut y, &[a], &mut c1);
        assert!(y[0] == x[0], "C08:final<OVERWRITE> law");
        let mut z = [x_in];
        znx_normalize_final_step_ref::<false>(b, lsh, &mut z, &[a], &mut c1);
        assert!(z[0] as i128 == x_in as i128 + x[0] as i128, "C08:final<ACCUMULATE> law");
        let mut w = [x_in];
        znx_normalize_final_step_sub_ref(b, lsh, &mut w, &[a], &mut c1);
        assert!(w[0] as i128 == x_in as i128 - x[0] as i128, "C08:final_sub law");
    }
    kani::cover!(lsh > 0 || b == 1, "C08:kernel laws reachable");
}

fn laws_digit(b: usize) {
    let lsh: usize = kani::any();
    kani::assume(lsh < b);
    let p2b: i128 = 1i128 << b;
    let a = any_in(HA);
    let c_in = any_in(HC);
    let x_in = any_in(HC);
    let rhs_first: i128 = (a as i128) << lsh;
    let rhs_mid: i128 = ((a as i128) << lsh) + c_in as i128;

    // digit extraction helpers used by the cross-radix path
    {
        let sh: usize = kani::any();
        kani::assume(sh <= 62 && sh + b <= 62);
        let mut r = [x_in];
        let mut s = [a];
        znx_extract_digit_addmul_ref(b, sh, &mut r, &mut s);
        let d: i128 = (r[0] as i128 - x_in as i128) >> sh;
        assert!(((r[0] as i128 - x_in as i128) == d << sh) && balanced(b, d), "C08:extract_digit_addmul adds a balanced digit << lsh");
        assert!(d + (s[0] as i128) * p2b == a as i128, "C08:extract_digit_addmul leaves the carry in src");
        let mut r2 = [a];
        let mut s2 = [c_in];
        znx_normalize_digit_ref(b, &mut r2, &mut s2);
        assert!(balanced(b, r2[0] as i128) && r2[0] as i128 + (s2[0] as i128 - c_in as i128) * p2b == a as i128, "C08:normalize_digit law");
    }
    kani::cover!(lsh > 0 || b == 1, "C08:kernel laws reachable");
}

macro_rules! kernel_harness {
    ($f:ident, $m:ident, $fi:ident, $d:ident, $b:expr) => {
        #[kani::proof]
        #[kani::unwind(3)]
        fn $f() {
            laws_first($b);
        }
        #[kani::proof]
        #[kani::unwind(3)]
        fn $m() {
            laws_middle($b);
        }
        #[kani::proof]
        #[kani::unwind(3)]
        fn $fi() {
            laws_final($b);
        }
        #[kani::proof]
        #[kani::unwind(3)]
        fn $d() {
            laws_digit($b);
        }
    };
}
kernel_harness!(c08_first_b1, c08_middle_b1, c08_final_b1, c08_digit_b1, 1);
kernel_harness!(c08_first_b2, c08_middle_b2, c08_final_b2, c08_digit_b2, 2);
kernel_harness!(c08_first_b3, c08_middle_b3, c08_final_b3, c08_digit_b3, 3);
kernel_harness!(c08_first_b4, c08_middle_b4, c08_final_b4, c08_digit_b4, 4);
kernel_harness!(c08_first_b5, c08_middle_b5, c08_final_b5, c08_digit_b5, 5);
kernel_harness!(c08_first_b6, c08_middle_b6, c08_final_b6, c08_digit_b6, 6);
kernel_harness!(c08_first_b7, c08_middle_b7, c08_final_b7, c08_digit_b7, 7);
kernel_harness!(c08_first_b8, c08_middle_b8, c08_final_b8, c08_digit_b8, 8);
kernel_harness!(c08_first_b9, c08_middle_b9, c08_final_b9, c08_digit_b9, 9);
kernel_harness!(c08_first_b10, c08_middle_b10, c08_final_b10, c08_digit_b10, 10);
kernel_harness!(c08_first_b11, c08_middle_b11, c08_final_b11, c08_digit_b11, 11);
kernel_harness!(c08_first_b12, c08_middle_b12, c08_final_b12, c08_digit_b12, 12);
kernel_harness!(c08_first_b13, c08_middle_b13, c08_final_b13, c08_digit_b13, 13);
kernel_harness!(c08_first_b14, c08_middle_b14, c08_final_b14, c08_digit_b14, 14);
kernel_harness!(c08_first_b15, c08_middle_b15, c08_final_b15, c08_digit_b15, 15);
kernel_harness!(c08_first_b16, c08_middle_b16, c08_final_b16, c08_digit_b16, 16);
kernel_harness!(c08_first_b17, c08_middle_b17, c08_final_b17, c08_digit_b17, 17);
kernel_harness!(c08_first_b18, c08_middle_b18, c08_final_b18, c08_digit_b18, 18);
kernel_harness!(c08_first_b19, c08_middle_b19, c08_final_b19, c08_digit_b19, 19);
kernel_harness!(c08_first_b20, c08_middle_b20, c08_final_b20, c08_digit_b20, 20);
kernel_harness!(c08_first_b21, c08_middle_b21, c08_final_b21, c08_digit_b21, 21);
kernel_harness!(c08_first_b22, c08_middle_b22, c08_final_b22, c08_digit_b22, 22);
kernel_harness!(c08_first_b23, c08_middle_b23, c08_final_b23, c08_digit_b23, 23);
kernel_harness!(c08_first_b24, c08_middle_b24, c08_final_b24, c08_digit_b24, 24);
kernel_harness!(c08_first_b25, c08_middle_b25, c08_final_b25, c08_digit_b25, 25);
kernel_harness!(c08_first_b26, c08_middle_b26, c08_final_b26, c08_digit_b26, 26);
kernel_harness!(c08_first_b27, c08_middle_b27, c08_final_b27, c08_digit_b27, 27);
kernel_harness!(c08_first_b28, c08_middle_b28, c08_final_b28, c08_digit_b28, 28);
kernel_harness!(c08_first_b29, c08_middle_b29, c08_final_b29, c08_digit_b29, 29);
kernel_harness!(c08_first_b30, c08_middle_b30, c08_final_b30, c08_digit_b30, 30);
kernel_harness!(c08_first_b31, c08_middle_b31, c08_final_b31, c08_digit_b31, 31);
kernel_harness!(c08_first_b32, c08_middle_b32, c08_final_b32, c08_digit_b32, 32);
kernel_harness!(c08_first_b33, c08_middle_b33, c08_final_b33, c08_digit_b33, 33);
kernel_harness!(c08_first_b34, c08_middle_b34, c08_final_b34, c08_digit_b34, 34);
kernel_harness!(c08_first_b35, c08_middle_b35, c08_final_b35, c08_digit_b35, 35);
kernel_harness!(c08_first_b36, c08_middle_b36, c08_final_b36, c08_digit_b36, 36);
kernel_harness!(c08_first_b37, c08_middle_b37, c08_final_b37, c08_digit_b37, 37);
kernel_harness!(c08_first_b38, c08_middle_b38, c08_final_b38, c08_digit_b38, 38);
kernel_harness!(c08_first_b39, c08_middle_b39, c08_final_b39, c08_digit_b39, 39);
kernel_harness!(c08_first_b40, c08_middle_b40, c08_final_b40, c08_digit_b40, 40);
kernel_harness!(c08_first_b41, c08_middle_b41, c08_final_b41, c08_digit_b41, 41);
kernel_harness!(c08_first_b42, c08_middle_b42, c08_final_b42, c08_digit_b42, 42);
kernel_harness!(c08_first_b43, c08_middle_b43, c08_final_b43, c08_digit_b43, 43);
kernel_harness!(c08_first_b44, c08_middle_b44, c08_final_b44, c08_digit_b44, 44);
kernel_harness!(c08_first_b45, c08_middle_b45, c08_final_b45, c08_digit_b45, 45);
kernel_harness!(c08_first_b46, c08_middle_b46, c08_final_b46, c08_digit_b46, 46);
kernel_harness!(c08_first_b47, c08_middle_b47, c08_final_b47, c08_digit_b47, 47);
kernel_harness!(c08_first_b48, c08_middle_b48, c08_final_b48, c08_digit_b48, 48);
kernel_harness!(c08_first_b49, c08_middle_b49, c08_final_b49, c08_digit_b49, 49);
kernel_harness!(c08_first_b50, c08_middle_b50, c08_final_b50, c08_digit_b50, 50);
kernel_harness!(c08_first_b51, c08_middle_b51, c08_final_b51, c08_digit_b51, 51);
kernel_harness!(c08_first_b52, c08_middle_b52, c08_final_b52, c08_digit_b52, 52);
kernel_harness!(c08_first_b53, c08_middle_b53, c08_final_b53, c08_digit_b53, 53);
kernel_harness!(c08_first_b54, c08_middle_b54, c08_final_b54, c08_digit_b54, 54);
kernel_harness!(c08_first_b55, c08_middle_b55, c08_final_b55, c08_digit_b55, 55);
kernel_harness!(c08_first_b56, c08_middle_b56, c08_final_b56, c08_digit_b56, 56);
kernel_harness!(c08_first_b57, c08_middle_b57, c08_final_b57, c08_digit_b57, 57);
kernel_harness!(c08_first_b58, c08_middle_b58, c08_final_b58, c08_digit_b58, 58);
kernel_harness!(c08_first_b59, c08_middle_b59, c08_final_b59, c08_digit_b59, 59);
kernel_harness!(c08_first_b60, c08_middle_b60, c08_final_b60, c08_digit_b60, 60);
kernel_harness!(c08_first_b61, c08_middle_b61, c08_final_b61, c08_digit_b61, 61);
kernel_harness!(c08_first_b62, c08_middle_b62, c08_final_b62, c08_digit_b62, 62);

// ------------------------------------------------------------------------------------------------
// C09 ring splitting / merging (bounded in shape: N = 4 -> 2 parts of 2, N = 8 -> 4 parts of 2; limb contents symbolic)
//   split: part_i[k] == a[g*k + i];   merge(split(a)) == a  ("merging the parts of a split returns the original")
// ------------------------------------------------------------------------------------------------
fn split_merge_laws<const N: usize, const G: usize, const M: usize>() {
    use crate::reference::vec_znx::{vec_znx_merge_rings, vec_znx_split_ring};
    use poulpy_hal::layouts::{VecZnx, ZnxView, ZnxViewMut};
    let size = 1usize;
    let mut a: VecZnx<Vec<u8>> = VecZnx::alloc(N, 1, size);
    for x in a.raw_mut().iter_mut() {
        *x = kani::any();
        kani::assume(*x > i64::MIN);
    }
    // second limb shorter operand shape: parts have 2 limbs, output of merge has 2 limbs
    let mut parts: Vec<VecZnx<Vec<u8>>> = (0..G).map(|_| VecZnx::alloc(M, 1, size)).collect();
    for p in parts.iter_mut() {
        for x in p.raw_mut().iter_mut() {
            *x = kani::any(); // stale contents must not matter (C11)
        }
    }
    let mut tmp = [0i64; N];
    vec_znx_split_ring::<_, _, ZnxRef>(&mut parts, 0, &a, 0, &mut tmp);
    let mut j = 0;
    while j < size {
        let mut i = 0;
        while i < G {
            let mut k = 0;
            while k < M {
                assert!(parts[i].at(0, j)[k] == a.at(0, j)[G * k + i], "C09:split part_i[k] == a[g*k+i]");
                k += 1;
            }
            i += 1;
        }
        j += 1;
    }
    let mut back: VecZnx<Vec<u8>> = VecZnx::alloc(N, 1, size);
    for x in back.raw_mut().iter_mut() {
        *x = kani::any();
    }
    vec_znx_merge_rings::<_, _, ZnxRef>(&mut back, 0, &parts, 0, &mut tmp);
    let mut t = 0;
    while t < N * size {
        assert!(back.raw()[t] == a.raw()[t], "C09:merge(split(a)) == a");
        t += 1;
    }
}

#[kani::proof]
#[kani::unwind(10)]
#[kani::solver(kissat)]
#[kani::stub(alloc::fmt::format, fmt_stub)]
fn c09_split_merge__n4_g2() {
    split_merge_laws::<4, 2, 2>();
}

#[kani::proof]
#[kani::unwind(18)]
#[kani::stub(alloc::fmt::format, fmt_stub)]
fn c09_split_merge__n8_g4() {
    split_merge_laws::<8, 4, 2>();
}

// ------------------------------------------------------------------------------------------------
// C06 — znx_fill_uniform_ref / vec_znx_fill_uniform_ref on a symbolic tape (see kx/hal/lib.rs): range, bijection on the
// low b bits, exactly one draw per coefficient, column order of a multi-limb fill (the order C19's decompression relies on).
// ------------------------------------------------------------------------------------------------
static mut TAPE: [u64; 16] = [0; 16];
static mut DRAWS: usize = 0;
static mut LAST_SEED: [u8; 32] = [0; 32];
// Source::new runs CPU-feature detection (inline asm cpuid: unsupported by Kani); with the stream abstracted to the symbolic
// tape the generator state is irrelevant, so construction is abstracted to "remember the seed".
fn source_new_stub(seed: [u8; 32]) -> poulpy_hal::source::Source {
    unsafe {
        LAST_SEED = seed;
        core::mem::zeroed()
    }
}
fn tape_next_u64(_rng: &mut rand_chacha::ChaCha8Rng) -> Result<u64, core::convert::Infallible> {
    unsafe {
        let v: u64 = kani::any();
        if DRAWS < 16 {
            TAPE[DRAWS] = v;
        }
        DRAWS += 1;
        Ok(v)
    }
}

#[kani::proof]
#[kani::unwind(6)]
#[kani::stub(<rand_chacha::ChaCha8Rng as rand_core::TryRng>::try_next_u64, tape_next_u64)]
#[kani::stub(poulpy_hal::source::Source::new, source_new_stub)]
fn c06_vec_znx_fill_uniform_ref__n2_size2() {
    use crate::reference::vec_znx::vec_znx_fill_uniform_ref;
    use poulpy_hal::layouts::{VecZnx, ZnxView, ZnxViewMut};
    use poulpy_hal::source::Source;
    let mut s = Source::new([0u8; 32]);
    let mut v: VecZnx<Vec<u8>> = VecZnx::alloc(2, 2, 2);
    let garbage: [i64; 8] = kani::any();
    v.raw_mut().copy_from_slice(&garbage);
    let b: usize = kani::any();
    kani::assume(b >= 1 && b <= 62);
    let col: usize = kani::any();
    kani::assume(col < 2);
    vec_znx_fill_uniform_ref(b, &mut v, col, &mut s);
    let half: i64 = 1i64 << (b - 1);
    let mask: u64 = (1u64 << b) - 1;
    unsafe {
        assert!(DRAWS == 4, "C06:one draw per coefficient of the selected column");
        let mut j = 0;
        while j < 2 {
            let mut k = 0;
            while k < 2 {
                let x = v.at(col, j)[k];
                assert!(x >= -half && x < half, "C06:uniform limb range");
                assert!(x == ((TAPE[2 * j + k] & mask) as i64) - half, "C06:coefficient (j,k) == low b bits of draw 2j+k, recentred");
                // C11 frame: the other column keeps its previous contents
                assert!(v.at(1 - col, j)[k] == garbage[2 * (2 * j + (1 - col)) + k], "C11:other column untouched");
                k += 1;
            }
            j += 1;
        }
    }
}

// ------------------------------------------------------------------------------------------------
// C01 / C10: tail-cut (rejection) sampling of the error distribution.  The draws come from a scripted source (a `Distribution<f64>` handing out nondeterministic finite
// values, logged); the SPEC is rejection sampling itself: coefficient i receives round(d) where d is the FIRST draw, from where coefficient i-1 stopped, with |d| <= bound,
// and every draw skipped before it has |d| > bound.  Hence no error exceeds the bound (C01) and every implementation that meets the spec consumes the same draws and
// produces the same values (C10: the families agree sample for sample).  Bounded: at most REJECT_MAX rejected draws in total (the loop is unbounded in the source).
// ------------------------------------------------------------------------------------------------
mod c01_tailcut {
    use crate::reference::znx::{znx_add_dist_f64_ref, znx_add_normal_f64_ref, znx_fill_dist_f64_ref, znx_fill_normal_f64_ref};
    use crate::source::Source;
    use rand_distr::Distribution;

    const LOG_MAX: usize = 6;
    const REJECT_MAX: usize = 2;
    static mut LOG: [f64; LOG_MAX] = [0.0; LOG_MAX];
    static mut LOG_LEN: usize = 0;
    static mut REJECTS: usize = 0;
    static mut BOUND: f64 = 0.0;
    // a draw is 0.0 + SCALE * (logged value): SCALE = 1 for the scripted distribution, sigma for Normal::new(0, sigma) over the scripted standard normal
    static mut SCALE: f64 = 1.0;
    fn draw_of(z: f64) -> f64 {
        unsafe { 0.0 + SCALE * z }
    }

    fn next_draw() -> f64 {
        unsafe {
            let x: f64 = kani::any();
            kani::assume(x.is_finite() && x.abs() <= 1.0e3);
            if draw_of(x).abs() > BOUND {
                kani::assume(REJECTS < REJECT_MAX);
                REJECTS += 1;
            }
            assert!(LOG_LEN < LOG_MAX, "C01:harness log large enough");
            LOG[LOG_LEN] = x;
            LOG_LEN += 1;
            x
        }
    }
    struct Script;
    impl Distribution<f64> for Script {
        fn sample<R: rand::Rng + ?Sized>(&self, _rng: &mut R) -> f64 {
            next_draw()
        }
    }
    // Normal<f64>::sample is mean + std_dev * (a StandardNormal draw): the scripted source replaces the standard normal (the ziggurat sampler on the ChaCha stream)
    fn ziggurat_stub<R: rand::Rng + ?Sized, P, Z>(_rng: &mut R, _symmetric: bool, _x_tab: &'static [f64; 257], _f_tab: &'static [f64; 257], _pdf: P, _zero_case: Z) -> f64
    where
        P: FnMut(f64) -> f64,
        Z: FnMut(&mut R, f64) -> f64,
    {
        next_draw()
    }

    // the spec, replayed on the log: returns the position after coefficient i's accepted draw, checks what was skipped and what was stored
    fn check_coeff(pos: usize, old: i64, new: i64, add: bool) -> usize {
        unsafe {
            let mut k = pos;
            while k < LOG_LEN && draw_of(LOG[k]).abs() > BOUND {
                k += 1;
            }
            assert!(k < LOG_LEN, "C01:every coefficient ends on an accepted draw");
            let d = draw_of(LOG[k]);
            assert!(d.abs() <= BOUND, "C01:accepted draw within the tail cut");
            let want = if add { old.wrapping_add(d.round() as i64) } else { d.round() as i64 };
            assert!(new == want, "C01:coefficient is the rounded first in-bound draw");
            k + 1
        }
    }
    fn setup() -> f64 {
        // a tight tail cut (bound == sigma is admissible: NoiseInfos::new only asks bound >= sigma)
        let bound: f64 = 3.2;
        unsafe {
            BOUND = bound;
            SCALE = 1.0;
            LOG_LEN = 0;
            REJECTS = 0;
        }
        bound
    }
    fn finish(old: [i64; 2], res: [i64; 2], add: bool) {
        let p1 = check_coeff(0, old[0], res[0], add);
        let p2 = check_coeff(p1, old[1], res[1], add);
        unsafe {
            assert!(p2 == LOG_LEN, "C01:no draw consumed beyond the accepted ones");
        }
    }

    #[kani::proof]
    #[kani::unwind(8)]
    #[kani::stub(poulpy_hal::source::Source::new, super::source_new_stub)]
    fn c01_tailcut_fill_dist__n2() {
        let bound = setup();
        let mut source = Source::new([0u8; 32]);
        let mut res: [i64; 2] = [kani::any(), kani::any()];
        kani::assume(res[0].unsigned_abs() <= 1 << 62 && res[1].unsigned_abs() <= 1 << 62);
        let old = res;
        znx_fill_dist_f64_ref(&mut res, Script, bound, &mut source);
        finish(old, res, false);
    }

    #[kani::proof]
    #[kani::unwind(8)]
    #[kani::stub(poulpy_hal::source::Source::new, super::source_new_stub)]
    fn c01_tailcut_add_dist__n2() {
        let bound = setup();
        let mut source = Source::new([0u8; 32]);
        let mut res: [i64; 2] = [kani::any(), kani::any()];
        kani::assume(res[0].unsigned_abs() <= 1 << 62 && res[1].unsigned_abs() <= 1 << 62);
        let old = res;
        znx_add_dist_f64_ref(&mut res, Script, bound, &mut source);
        finish(old, res, true);
    }

    #[kani::proof]
    #[kani::unwind(8)]
    #[kani::stub(poulpy_hal::source::Source::new, super::source_new_stub)]
    #[kani::stub(rand_distr::utils::ziggurat, ziggurat_stub)]
    fn c01_tailcut_fill_normal__n2() {
        let bound = setup();
        unsafe { SCALE = 3.2; }
        let mut source = Source::new([0u8; 32]);
        let mut res: [i64; 2] = [kani::any(), kani::any()];
        kani::assume(res[0].unsigned_abs() <= 1 << 62 && res[1].unsigned_abs() <= 1 << 62);
        let old = res;
        znx_fill_normal_f64_ref(&mut res, 3.2, bound, &mut source);
        finish(old, res, false);
    }

    #[kani::proof]
    #[kani::unwind(8)]
    #[kani::stub(poulpy_hal::source::Source::new, super::source_new_stub)]
    #[kani::stub(rand_distr::utils::ziggurat, ziggurat_stub)]
    fn c01_tailcut_add_normal__n2() {
        let bound = setup();
        unsafe { SCALE = 3.2; }
        let mut source = Source::new([0u8; 32]);
        let mut res: [i64; 2] = [kani::any(), kani::any()];
        kani::assume(res[0].unsigned_abs() <= 1 << 62 && res[1].unsigned_abs() <= 1 << 62);
        let old = res;
        znx_add_normal_f64_ref(&mut res, 3.2, bound, &mut source);
        finish(old, res, true);
    }

    // the NTT120 family has its own sampling loop (i128 accumulators): the SAME spec, hence the same values as the FFT64 family (whose vec_znx / vec_znx_big variants all
    // funnel into znx_add_normal_f64_ref above) for the same draws.  k = base2k: the error goes to limb 0 at scale 2^0.
    fn exp2_stub(x: f64) -> f64 {
        assert!(x == 0.0, "C10:harness shape has scale 2^0");
        1.0
    }
    fn log2_stub(x: f64) -> f64 {
        // only compared against 64 after ceil(): any finite value below 64 for the harness bound
        assert!(x == 3.2);
        1.6780719051126376
    }
    #[kani::proof]
    #[kani::unwind(8)]
    #[kani::stub(poulpy_hal::source::Source::new, super::source_new_stub)]
    #[kani::stub(rand_distr::utils::ziggurat, ziggurat_stub)]
    #[kani::stub(f64::exp2, exp2_stub)]
    #[kani::stub(f64::log2, log2_stub)]
    fn c10_tailcut_ntt120_big_add_normal__n2() {
        use crate::ntt120::NTT120Ref;
        use crate::reference::ntt120::vec_znx_big::ntt120_vec_znx_big_add_normal_ref;
        use poulpy_hal::layouts::{NoiseInfos, VecZnxBig, ZnxView, ZnxViewMut};
        let bound = setup();
        unsafe { SCALE = 3.2; }
        let mut source = Source::new([0u8; 32]);
        let mut big = VecZnxBig::<_, NTT120Ref>::alloc(2, 1, 1);
        let old: [i64; 2] = [kani::any(), kani::any()];
        kani::assume(old[0].unsigned_abs() <= 1 << 62 && old[1].unsigned_abs() <= 1 << 62);
        big.at_mut(0, 0)[0] = old[0] as i128;
        big.at_mut(0, 0)[1] = old[1] as i128;
        ntt120_vec_znx_big_add_normal_ref::<_, NTT120Ref>(17, &mut big, 0, NoiseInfos { k: 17, sigma: 3.2, bound }, &mut source);
        let r0: i128 = big.at(0, 0)[0];
        let r1: i128 = big.at(0, 0)[1];
        assert!(r0 >= i64::MIN as i128 && r0 <= i64::MAX as i128 && r1 >= i64::MIN as i128 && r1 <= i64::MAX as i128, "C10:no spurious high part");
        finish(old, [r0 as i64, r1 as i64], true);
    }
}


// ------------------------------------------------------------------------------------------------
// C07 — NTT120 scalar conversions (the prime set the backend uses: Primes30), per coefficient (nn = 1), full i64 / u64 domain.
// Loops over k < 4 are constant => fully unwound => complete.
// ------------------------------------------------------------------------------------------------
mod c07 {
    use crate::reference::ntt120::arithmetic::*;
    use crate::reference::ntt120::primes::{PrimeSet, Primes30};

    #[kani::proof]
    #[kani::unwind(6)]
    fn c07_b_from_znx64_residues() {
        let x: i64 = kani::any();
        let mut res = [0u64; 4];
        b_from_znx64_ref::<Primes30>(1, &mut res, &[x]);
        let mut k = 0;
        while k < 4 {
            let q = Primes30::Q[k] as i128;
            assert!((res[k] as i128 - x as i128).rem_euclid(q) == 0, "C07:b_from_znx64: res[k] == x (mod Q[k])");
            assert!(res[k] < (1u64 << 63) + (Primes30::Q[k] as u64), "C07:b_from_znx64: lazy range < 2^63 + Q");
            k += 1;
        }
    }

    #[kani::proof]
    #[kani::unwind(6)]
    fn c07_b_from_znx64_masked_residues() {
        let x: i64 = kani::any();
        let mask: i64 = kani::any();
        let mut res = [0u64; 4];
        b_from_znx64_masked_ref::<Primes30>(1, &mut res, &[x], mask);
        let mut res2 = [0u64; 4];
        b_from_znx64_ref::<Primes30>(1, &mut res2, &[x & mask]);
        assert!(res[0] == res2[0] && res[1] == res2[1] && res[2] == res2[2] && res[3] == res2[3], "C07:masked conversion == conversion of the masked value");
    }

    #[kani::proof]
    #[kani::unwind(6)]
    #[kani::solver(kissat)]
    fn c07_c_from_znx64_residues() {
        let x: i64 = kani::any();
        let mut res = [0u32; 8];
        c_from_znx64_ref::<Primes30>(1, &mut res, &[x]);
        let mut k = 0;
        while k < 4 {
            let q = Primes30::Q[k] as i128;
            let r = (x as i128).rem_euclid(q);
            assert!(res[2 * k] as i128 == r, "C07:c_from_znx64: low word == x mod Q[k]");
            assert!(res[2 * k + 1] as i128 == (r << 32) % q, "C07:c_from_znx64: high word == (x mod Q) * 2^32 mod Q");
            k += 1;
        }
    }

    #[kani::proof]
    #[kani::unwind(6)]
    #[kani::solver(kissat)]
    fn c07_c_from_b_consistent() {
        let xb: [u64; 4] = kani::any();
        let mut res = [0u32; 8];
        c_from_b_ref::<Primes30>(1, &mut res, &xb);
        let mut k = 0;
        while k < 4 {
            let q = Primes30::Q[k] as u64;
            assert!(res[2 * k] as u64 == xb[k] % q && res[2 * k + 1] as u64 == ((xb[k] % q) << 32) % q, "C07:c_from_b residues");
            k += 1;
        }
    }

    #[kani::proof]
    #[kani::unwind(6)]
    #[kani::solver(kissat)]
    fn c07_add_bbb_no_overflow_and_residues() {
        let x: [u64; 4] = kani::any();
        let y: [u64; 4] = kani::any();
        let mut res = [0u64; 4];
        add_bbb_ref::<Primes30>(1, &mut res, &x, &y);
        let mut k = 0;
        while k < 4 {
            let q = Primes30::Q[k] as u128;
            assert!((res[k] as u128) % q == ((x[k] as u128) + (y[k] as u128)) % q, "C07:add_bbb: res == x + y (mod Q[k])");
            k += 1;
        }
    }

    /// CRT: reconstruct(residues(x)) == x for every i64 (symmetric representative) — the 128-bit one (thorough tier)
    #[kani::proof]
    #[kani::unwind(6)]
    #[kani::solver(kissat)]
    fn c07_crt_round_trip_i64() {
        let x: i64 = kani::any();
        let mut b = [0u64; 4];
        b_from_znx64_ref::<Primes30>(1, &mut b, &[x]);
        let mut out = [0i128; 1];
        b_to_znx128_ref::<Primes30>(1, &mut out, &b);
        assert!(out[0] == x as i128, "C07:b_to_znx128(b_from_znx64(x)) == x");
    }
}


// ------------------------------------------------------------------------------------------------
// C19 — decompression regenerates the mask columns from the stored seed in the order the encryption fills them
// (columns 1..=rank, one stream, limb by limb), copies the body, and ignores the receiver's prior contents.
// Bounded: N = 2, rank = 2, size = 2; the ChaCha8 stream is the symbolic tape (every draw independent).
// ------------------------------------------------------------------------------------------------
fn c19_decompress_case<const RANK: usize, const SIZE: usize>() {
    use poulpy_core::layouts::{GLWECompressed, GLWEDecompress, GLWE};
    use poulpy_hal::layouts::{FillUniform, Module, ZnxView, ZnxViewMut};
    use poulpy_hal::source::Source;
    const B: usize = 8;
    let module: Module<crate::FFT64Ref> = Module::new_marker(2);
    let mut comp: GLWECompressed<Vec<u8>> = GLWECompressed::alloc(2u32.into(), (B as u32).into(), ((SIZE * B) as u32).into(), (RANK as u32).into());
    // body <- 4 symbolic draws (FillUniform for GLWECompressed, 63-bit values), so that the harness knows its contents
    let mut s0 = Source::new([1u8; 32]);
    comp.fill_uniform(63, &mut s0);
    unsafe { assert!(DRAWS == 2 * SIZE, "C19:body filled from 4 draws"); }
    let seed: [u8; 32] = kani::any();
    {
        use poulpy_core::layouts::GLWECompressedSeedMut;
        *comp.seed_mut() = seed;
    }
    let mut res: GLWE<Vec<u8>> = GLWE::alloc(2u32.into(), (B as u32).into(), ((SIZE * B) as u32).into(), (RANK as u32).into());
    for x in res.data_mut().raw_mut().iter_mut() {
        *x = kani::any(); // stale receiver contents must not matter
    }
    module.decompress_glwe(&mut res, &comp);
    let half: i64 = 1i64 << (B - 1);
    let mask: u64 = (1u64 << B) - 1;
    unsafe {
        assert!(DRAWS == 2 * SIZE + RANK * SIZE * 2, "C19:mask regeneration consumes exactly rank*size*N draws");
        let mut q = 0;
        while q < 32 {
            assert!(LAST_SEED[q] == seed[q], "C19:the mask stream is seeded by the seed stored in the compressed object");
            q += 1;
        }
        let mut j = 0;
        while j < SIZE {
            let mut k = 0;
            while k < 2 {
                let body = ((TAPE[2 * j + k] << 1) as i64) >> 1;
                assert!(res.data().at(0, j)[k] == body, "C19:column 0 is the stored body");
                let mut i = 1;
                while i <= RANK {
                    let t = 2 * SIZE + ((i - 1) * SIZE + j) * 2 + k; // column-major over mask columns, then limb, then coefficient
                    assert!(res.data().at(i, j)[k] == ((TAPE[t] & mask) as i64) - half, "C19:mask column i, limb j, coeff k == draw (i-1)*size*N + j*N + k");
                    i += 1;
                }
                k += 1;
            }
            j += 1;
        }
    }
}

#[kani::proof]
#[kani::unwind(34)]
#[kani::stub(alloc::fmt::format, fmt_stub)]
#[kani::stub(<rand_chacha::ChaCha8Rng as rand_core::TryRng>::try_next_u64, tape_next_u64)]
#[kani::stub(poulpy_hal::source::Source::new, source_new_stub)]
fn c19_glwe_decompress_mask_order__n2_rank2_size2() {
    c19_decompress_case::<2, 2>();
}

#[kani::proof]
#[kani::unwind(34)]
#[kani::stub(alloc::fmt::format, fmt_stub)]
#[kani::stub(<rand_chacha::ChaCha8Rng as rand_core::TryRng>::try_next_u64, tape_next_u64)]
#[kani::stub(poulpy_hal::source::Source::new, source_new_stub)]
fn c19_glwe_decompress_mask_order__n2_rank3_size1() {
    c19_decompress_case::<3, 1>();
}

// ------------------------------------------------------------------------------------------------
// C02 — noise-free GLWE operations act column-wise exactly as the ring operation (hence commute with the phase map for
// every key).  Real trait default methods of poulpy-core/src/api/operations.rs on a marker module (no DFT handle is used),
// limb contents symbolic within the no-overflow domain; shapes enumerated (bounded): N = 2 or 4, ranks 0..2, sizes 1..2.
// ------------------------------------------------------------------------------------------------
mod c02 {
    use super::fmt_stub;
    use poulpy_core::layouts::GLWE;
    use poulpy_core::{GLWEAdd, GLWECopy, GLWEMulXpMinusOne, GLWENegate, GLWERotate, GLWESub};
    use poulpy_hal::api::{ScratchOwnedAlloc, ScratchOwnedBorrow};
    use poulpy_hal::layouts::{Module, ScratchOwned, ZnxView, ZnxViewMut};
    type BE = crate::FFT64Ref;
    const B2K: u32 = 8;

    fn glwe(n: usize, rank: u32, size: u32, bound: i64) -> GLWE<Vec<u8>> {
        let mut g: GLWE<Vec<u8>> = GLWE::alloc((n as u32).into(), B2K.into(), (B2K * size).into(), rank.into());
        for x in g.data_mut().raw_mut().iter_mut() {
            *x = kani::any();
            kani::assume(*x >= -bound && *x <= bound);
        }
        g
    }
    // coefficient j of X^p * a in Z[X]/(X^n+1)
    fn rot(a: &[i64], p: i64, j: usize) -> i64 {
        let n = a.len() as i128;
        let k = (j as i128 - p as i128).rem_euclid(2 * n);
        if k < n { a[k as usize] } else { -a[(k - n) as usize] }
    }

    /// add / sub with a shorter and lower-rank second operand, garbage in the result
    fn add_sub<const RA: u32, const RB: u32>() {
        const N: usize = 2;
        let module: Module<BE> = Module::new_marker(N as u64);
        let a = glwe(N, RA, 2, 1 << 61);
        let b = glwe(N, RB, 1, 1 << 61);
        let rr = if RA > RB { RA } else { RB };
        let mut r = glwe(N, rr, 2, i64::MAX);
        let mut s = glwe(N, rr, 2, i64::MAX);
        module.glwe_add_into(&mut r, &a, &b);
        module.glwe_sub(&mut s, &a, &b);
        let mut col = 0usize;
        while col <= rr as usize {
            let mut k = 0;
            while k < N {
                let a0 = if col <= RA as usize { a.data().at(col, 0)[k] } else { 0 };
                let a1 = if col <= RA as usize { a.data().at(col, 1)[k] } else { 0 };
                let b0 = if col <= RB as usize { b.data().at(col, 0)[k] } else { 0 };
                assert!(r.data().at(col, 0)[k] == a0 + b0 && r.data().at(col, 1)[k] == a1, "C02:glwe_add_into column-wise, size/rank rule");
                assert!(s.data().at(col, 0)[k] == a0 - b0 && s.data().at(col, 1)[k] == a1, "C02:glwe_sub column-wise, size/rank rule");
                k += 1;
            }
            col += 1;
        }
    }
    #[kani::proof]
    #[kani::unwind(14)]
    #[kani::stub(alloc::fmt::format, fmt_stub)]
    fn c02_glwe_add_sub__ranks_1_1() { add_sub::<1, 1>(); }
    #[kani::proof]
    #[kani::unwind(14)]
    #[kani::stub(alloc::fmt::format, fmt_stub)]
    fn c02_glwe_add_sub__ranks_2_0() { add_sub::<2, 0>(); }
    #[kani::proof]
    #[kani::unwind(14)]
    #[kani::stub(alloc::fmt::format, fmt_stub)]
    fn c02_glwe_add_sub__ranks_0_1() { add_sub::<0, 1>(); }

    /// in-place add/sub, negate, copy
    #[kani::proof]
    #[kani::unwind(14)]
    #[kani::stub(alloc::fmt::format, fmt_stub)]
    fn c02_glwe_assign_negate_copy__rank1() {
        const N: usize = 2;
        let module: Module<BE> = Module::new_marker(N as u64);
        let a = glwe(N, 1, 1, 1 << 61);
        let r0 = glwe(N, 1, 2, 1 << 61);
        let mut r = r0.clone();
        module.glwe_add_assign(&mut r, &a);
        let mut s = r0.clone();
        module.glwe_sub_assign(&mut s, &a);
        let mut ng = glwe(N, 1, 2, i64::MAX);
        module.glwe_negate(&mut ng, &a);
        let mut cp = glwe(N, 1, 2, i64::MAX);
        module.glwe_copy(&mut cp, &a);
        let mut col = 0;
        while col < 2 {
            let mut k = 0;
            while k < N {
                assert!(r.data().at(col, 0)[k] == r0.data().at(col, 0)[k] + a.data().at(col, 0)[k] && r.data().at(col, 1)[k] == r0.data().at(col, 1)[k], "C02:glwe_add_assign");
                assert!(s.data().at(col, 0)[k] == r0.data().at(col, 0)[k] - a.data().at(col, 0)[k] && s.data().at(col, 1)[k] == r0.data().at(col, 1)[k], "C02:glwe_sub_assign");
                assert!(ng.data().at(col, 0)[k] == -a.data().at(col, 0)[k] && ng.data().at(col, 1)[k] == 0, "C02:glwe_negate (extra limbs zero)");
                assert!(cp.data().at(col, 0)[k] == a.data().at(col, 0)[k] && cp.data().at(col, 1)[k] == 0, "C02:glwe_copy (extra limbs zero)");
                k += 1;
            }
            col += 1;
        }
    }

    /// rotation by X^p and multiplication by (X^p - 1), every p in i64, out-of-place and in-place
    #[kani::proof]
    #[kani::unwind(12)]
    #[kani::stub(alloc::fmt::format, fmt_stub)]
    fn c02_glwe_rotate_mul_xp__n4_rank1() {
        const N: usize = 4;
        let module: Module<BE> = Module::new_marker(N as u64);
        let a = glwe(N, 1, 1, 1 << 61);
        let p: i64 = kani::any();
        let mut r = glwe(N, 1, 1, i64::MAX);
        module.glwe_rotate(p, &mut r, &a);
        let mut m = glwe(N, 1, 1, i64::MAX);
        module.glwe_mul_xp_minus_one(p, &mut m, &a);
        let mut ri = a.clone();
        let mut scratch: ScratchOwned<BE> = ScratchOwned::alloc(module.glwe_rotate_tmp_bytes());
        module.glwe_rotate_assign(p, &mut ri, scratch.borrow());
        let mut col = 0;
        while col < 2 {
            let ac = a.data().at(col, 0);
            let mut j = 0;
            while j < N {
                let want = rot(ac, p, j);
                assert!(r.data().at(col, 0)[j] == want, "C02:glwe_rotate == X^p * a on every column");
                assert!(ri.data().at(col, 0)[j] == want, "C02:glwe_rotate_assign == X^p * a on every column");
                assert!(m.data().at(col, 0)[j] == want - ac[j], "C02:glwe_mul_xp_minus_one == (X^p - 1) * a on every column");
                j += 1;
            }
            col += 1;
        }
    }
}

// ------------------------------------------------------------------------------------------------
// C11 (DFT family) — abstract-kernel (AK) two-run harness on the real FFT64Ref backend: the numeric leaf kernels are
// replaced by bit-level mixers (their only contract: a deterministic function of exactly the declared input slice,
// writing exactly the declared output slice); everything above them — limb selection, size rule, zero fill — is the real
// code.  The real operation is run twice from two independent garbage pre-states of the output: the selected column must
// be bit-identical, everything else must keep its own pre-state.  Shapes are constants (bounded); data symbolic.
// ------------------------------------------------------------------------------------------------
mod c11_ak {
    use poulpy_hal::api::{ModuleNew, VecZnxDftAlloc, VecZnxDftApply};
    use poulpy_hal::layouts::{Module, VecZnx, ZnxView, ZnxViewMut};
    use rand_distr::num_traits::{Float, FloatConst};
    use std::fmt::Debug;
    fn fill_stub<R: Float + FloatConst>(_j: R, _omg: &mut [R], pos: usize) -> usize { pos }
    fn fft_stub<R: Float + FloatConst + Debug>(_m: usize, _omg: &[R], _data: &mut [R]) {}
    fn from_znx_stub(res: &mut [f64], a: &[i64]) {
        let mut i = 0;
        while i < res.len() {
            res[i] = f64::from_bits(a[i] as u64);
            i += 1;
        }
    }

    fn dft_apply_two_runs<const A_SIZE: usize, const R_SIZE: usize, const STEP: usize, const OFFSET: usize>() {
        const N: usize = 8;
        let module: Module<crate::FFT64Ref> = Module::<crate::FFT64Ref>::new(N as u64);
        let mut a: VecZnx<Vec<u8>> = VecZnx::alloc(N, 1, A_SIZE);
        for x in a.raw_mut().iter_mut() {
            *x = kani::any();
        }
        let mut r1 = module.vec_znx_dft_alloc(2, R_SIZE);
        let mut r2 = module.vec_znx_dft_alloc(2, R_SIZE);
        for x in r1.raw_mut().iter_mut() {
            *x = f64::from_bits(kani::any());
        }
        for x in r2.raw_mut().iter_mut() {
            *x = f64::from_bits(kani::any());
        }
        let col: usize = kani::any();
        kani::assume(col < 2);
        // pre-state of the other column, to check the frame
        let mut other1 = vec![0u64; N * R_SIZE];
        let mut j = 0;
        while j < R_SIZE {
            let mut k = 0;
            while k < N {
                other1[j * N + k] = r1.at(1 - col, j)[k].to_bits();
                k += 1;
            }
            j += 1;
        }
        module.vec_znx_dft_apply(STEP, OFFSET, &mut r1, col, &a, 0);
        module.vec_znx_dft_apply(STEP, OFFSET, &mut r2, col, &a, 0);
        let mut j = 0;
        while j < R_SIZE {
            let mut k = 0;
            while k < N {
                assert!(r1.at(col, j)[k].to_bits() == r2.at(col, j)[k].to_bits(), "C11:selected output column independent of prior contents (every limb written or zero-filled)");
                assert!(r1.at(1 - col, j)[k].to_bits() == other1[j * N + k], "C11:other column untouched");
                k += 1;
            }
            j += 1;
        }
    }

    macro_rules! ak_dft_apply {
        ($name:ident, $a:expr, $r:expr, $s:expr, $o:expr) => {
            #[kani::proof]
            #[kani::unwind(50)]
            #[kani::stub(alloc::fmt::format, super::fmt_stub)]
            #[kani::stub(crate::reference::fft64::reim::table_fft::fill_fft4_omegas, fill_stub)]
            #[kani::stub(crate::reference::fft64::reim::table_ifft::fill_ifft4_omegas, fill_stub)]
            #[kani::stub(crate::reference::fft64::reim::fft_ref::fft_ref, fft_stub)]
            #[kani::stub(crate::reference::fft64::reim::conversion::reim_from_znx_i64_ref, from_znx_stub)]
            fn $name() {
                dft_apply_two_runs::<$a, $r, $s, $o>();
            }
        };
    }
    ak_dft_apply!(c11_ak_dft_apply__a3_r2_step2_off1, 3, 2, 2, 1);
    ak_dft_apply!(c11_ak_dft_apply__a2_r3_step1_off0, 2, 3, 1, 0);
    ak_dft_apply!(c11_ak_dft_apply__a3_r3_step2_off0, 3, 3, 2, 0);
    ak_dft_apply!(c11_ak_dft_apply__a2_r2_step1_off1, 2, 2, 1, 1);

    // ---- vmp_apply_dft_to_dft with limb_offset: the numeric mat-vec kernels stay concrete (both runs build the same
    // floating-point expression from the same inputs, so equality is structural); pre-states of `res` and scratch differ.
    fn vmp_two_runs<const A_SIZE: usize, const ROWS: usize, const P_SIZE: usize, const R_SIZE: usize, const LIMB_OFFSET: usize>() {
        use poulpy_hal::api::{ScratchOwnedAlloc, ScratchOwnedBorrow, VmpApplyDftToDft, VmpApplyDftToDftTmpBytes, VmpPMatAlloc};
        use poulpy_hal::layouts::ScratchOwned;
        const N: usize = 8;
        let module: Module<crate::FFT64Ref> = Module::<crate::FFT64Ref>::new(N as u64);
        let mut a = module.vec_znx_dft_alloc(1, A_SIZE);
        for x in a.raw_mut().iter_mut() {
            *x = f64::from_bits(kani::any());
        }
        let mut pmat = module.vmp_pmat_alloc(ROWS, 1, 1, P_SIZE);
        for x in pmat.raw_mut().iter_mut() {
            *x = f64::from_bits(kani::any());
        }
        let mut r1 = module.vec_znx_dft_alloc(1, R_SIZE);
        let mut r2 = module.vec_znx_dft_alloc(1, R_SIZE);
        for x in r1.raw_mut().iter_mut() {
            *x = f64::from_bits(kani::any());
        }
        for x in r2.raw_mut().iter_mut() {
            *x = f64::from_bits(kani::any());
        }
        let bytes = module.vmp_apply_dft_to_dft_tmp_bytes(R_SIZE, A_SIZE, ROWS, 1, 1, P_SIZE);
        let mut s1: ScratchOwned<crate::FFT64Ref> = ScratchOwned::alloc(bytes);
        let mut s2: ScratchOwned<crate::FFT64Ref> = ScratchOwned::alloc(bytes);
        s2.data.as_mut().fill(0x41);
        module.vmp_apply_dft_to_dft(&mut r1, &a, &pmat, LIMB_OFFSET, s1.borrow());
        module.vmp_apply_dft_to_dft(&mut r2, &a, &pmat, LIMB_OFFSET, s2.borrow());
        let mut t = 0;
        while t < N * R_SIZE {
            assert!(r1.raw()[t].to_bits() == r2.raw()[t].to_bits(), "C11:vmp output independent of prior contents of res and of scratch (limb_offset)");
            t += 1;
        }
    }
    macro_rules! ak_vmp {
        ($name:ident, $a:expr, $rows:expr, $ps:expr, $r:expr, $lo:expr) => {
            #[kani::proof]
            #[kani::unwind(50)]
            #[kani::stub(alloc::fmt::format, super::fmt_stub)]
            #[kani::stub(crate::reference::fft64::reim::table_fft::fill_fft4_omegas, fill_stub)]
            #[kani::stub(crate::reference::fft64::reim::table_ifft::fill_ifft4_omegas, fill_stub)]
            fn $name() {
                vmp_two_runs::<$a, $rows, $ps, $r, $lo>();
            }
        };
    }
    ak_vmp!(c11_ak_vmp_apply__a2_rows2_p3_r3_lo1, 2, 2, 3, 3, 1);
    ak_vmp!(c11_ak_vmp_apply__a2_rows2_p3_r3_lo2, 2, 2, 3, 3, 2);
    ak_vmp!(c11_ak_vmp_apply__a2_rows2_p3_r3_lo0, 2, 2, 3, 3, 0);
    ak_vmp!(c11_ak_vmp_apply__a3_rows2_p2_r3_lo1, 3, 2, 2, 3, 1);
}

// ------------------------------------------------------------------------------------------------
// C18 — ciphertext wrappers (GLWE, LWE, GLWECompressed): a failed read leaves the metadata unchanged ("updated atomically
// after a successful read"), for every truncation point of a valid stream; a complete stream is accepted and reproduced.
// ------------------------------------------------------------------------------------------------
mod c18_wrappers {
    use super::fmt_stub;
    use poulpy_core::layouts::{GLWECompressed, GLWEInfos, LWEInfos, GLWE, LWE};
    use poulpy_hal::layouts::{ReaderFrom, WriterTo};
    use std::io::Cursor;

    #[kani::proof]
    #[kani::unwind(6)]
    #[kani::stub(alloc::fmt::format, fmt_stub)]
    fn c18_glwe_read_truncated() {
        // stream: base2k (u32 = 9) ++ VecZnx header (n=2, cols=2, size=1, max_size=1, len=32) ++ 32 payload bytes
        let mut bytes = [0u8; 4 + 40 + 32];
        bytes[0] = 9;
        bytes[4] = 2; bytes[12] = 2; bytes[20] = 1; bytes[28] = 1; bytes[36] = 32;
        let mut g: GLWE<Vec<u8>> = GLWE::alloc(2u32.into(), 8u32.into(), 8u32.into(), 1u32.into());
        let total: usize = kani::any();
        kani::assume(total <= bytes.len());
        let mut cur = Cursor::new(&bytes[..total]);
        let r = g.read_from(&mut cur);
        if total < bytes.len() {
            assert!(r.is_err(), "C18:truncated stream rejected");
            assert!(g.base2k().0 == 8 && g.size() == 1 && g.rank().0 == 1, "C18:Err leaves wrapper metadata unchanged");
        } else {
            assert!(r.is_ok() && g.base2k().0 == 9, "C18:complete stream accepted, metadata from the stream");
        }
    }

    #[kani::proof]
    #[kani::unwind(6)]
    #[kani::stub(alloc::fmt::format, fmt_stub)]
    fn c18_lwe_read_truncated() {
        let mut src: LWE<Vec<u8>> = LWE::alloc(2u32.into(), 9u32.into(), 9u32.into());
        let mut stream: Vec<u8> = Vec::new();
        assert!(src.write_to(&mut stream).is_ok());
        let mut l: LWE<Vec<u8>> = LWE::alloc(2u32.into(), 8u32.into(), 8u32.into());
        let total: usize = kani::any();
        kani::assume(total <= stream.len());
        let mut cur = Cursor::new(&stream[..total]);
        let r = l.read_from(&mut cur);
        if total < stream.len() {
            assert!(r.is_err() && l.base2k().0 == 8, "C18:Err leaves wrapper metadata unchanged");
        } else {
            assert!(r.is_ok() && l.base2k().0 == 9, "C18:complete stream accepted");
        }
        let _ = &mut src;
    }

    #[kani::proof]
    #[kani::unwind(40)]
    #[kani::stub(alloc::fmt::format, fmt_stub)]
    fn c18_glwe_compressed_read_truncated() {
        use poulpy_core::layouts::{GLWECompressedSeed, GLWECompressedSeedMut};
        let mut src: GLWECompressed<Vec<u8>> = GLWECompressed::alloc(2u32.into(), 9u32.into(), 9u32.into(), 2u32.into());
        *src.seed_mut() = [7u8; 32];
        let mut stream: Vec<u8> = Vec::new();
        assert!(src.write_to(&mut stream).is_ok());
        let mut c: GLWECompressed<Vec<u8>> = GLWECompressed::alloc(2u32.into(), 8u32.into(), 8u32.into(), 1u32.into());
        let total: usize = kani::any();
        kani::assume(total <= stream.len());
        let mut cur = Cursor::new(&stream[..total]);
        let r = c.read_from(&mut cur);
        if total < stream.len() {
            assert!(r.is_err() && c.base2k().0 == 8 && c.rank().0 == 1 && c.seed()[0] == 0 && c.seed()[31] == 0, "C18:Err leaves wrapper metadata (base2k, rank, seed) unchanged");
        } else {
            assert!(r.is_ok() && c.base2k().0 == 9 && c.rank().0 == 2 && c.seed()[0] == 7, "C18:complete stream accepted");
        }
    }
}

// compound layouts (fix f377c75): every truncation point of a valid stream is rejected and leaves the wrapper's own scalar metadata unchanged
mod c18_compound {
    use super::fmt_stub;
    use poulpy_core::layouts::{
        GGLWE, GGLWECompressed, GGLWECompressedSeed, GGLWECompressedSeedMut, GGLWEInfos, GGSW, GGSWInfos, GLWEAutomorphismKey, GLWEAutomorphismKeyCompressed, GLWEInfos, GLWEPublicKey, GLWESwitchingKey, GLWESwitchingKeyDegrees,
        GLWESwitchingKeyDegreesMut, GetGaloisElement, LWEInfos, SetGaloisElement,
    };
    use poulpy_core::{Distribution, GetDistribution, GetDistributionMut};
    use poulpy_hal::layouts::{ReaderFrom, WriterTo};
    use std::io::Cursor;

    #[kani::proof]
    #[kani::unwind(10)]
    #[kani::stub(alloc::fmt::format, fmt_stub)]
    fn c18_gglwe_read_truncated() {
        // source: base2k 9, dsize 1; receiver: base2k 8, dsize 2 (same buffer shape: n=2, k=27/24 -> 3 limbs, rank 1 -> 1, dnum 1)
        let src: GGLWE<Vec<u8>> = GGLWE::alloc(2u32.into(), 9u32.into(), 27u32.into(), 1u32.into(), 1u32.into(), 1u32.into(), 1u32.into());
        let mut stream: Vec<u8> = Vec::new();
        assert!(src.write_to(&mut stream).is_ok());
        let mut g: GGLWE<Vec<u8>> = GGLWE::alloc(2u32.into(), 8u32.into(), 24u32.into(), 1u32.into(), 1u32.into(), 1u32.into(), 2u32.into());
        let total: usize = kani::any();
        kani::assume(total <= stream.len());
        let mut cur = Cursor::new(&stream[..total]);
        let r = g.read_from(&mut cur);
        if total < stream.len() {
            assert!(r.is_err(), "C18:truncated stream rejected");
            assert!(g.base2k().0 == 8 && g.dsize().0 == 2, "C18:Err leaves wrapper metadata unchanged");
        } else {
            assert!(r.is_ok() && g.base2k().0 == 9 && g.dsize().0 == 1, "C18:complete stream accepted, metadata from the stream");
        }
    }

    #[kani::proof]
    #[kani::unwind(10)]
    #[kani::stub(alloc::fmt::format, fmt_stub)]
    fn c18_ggsw_read_truncated() {
        let src: GGSW<Vec<u8>> = GGSW::alloc(2u32.into(), 9u32.into(), 27u32.into(), 1u32.into(), 1u32.into(), 1u32.into());
        let mut stream: Vec<u8> = Vec::new();
        assert!(src.write_to(&mut stream).is_ok());
        let mut g: GGSW<Vec<u8>> = GGSW::alloc(2u32.into(), 8u32.into(), 24u32.into(), 1u32.into(), 1u32.into(), 2u32.into());
        let total: usize = kani::any();
        kani::assume(total <= stream.len());
        let mut cur = Cursor::new(&stream[..total]);
        let r = g.read_from(&mut cur);
        if total < stream.len() {
            assert!(r.is_err(), "C18:truncated stream rejected");
            assert!(g.base2k().0 == 8 && g.dsize().0 == 2, "C18:Err leaves wrapper metadata unchanged");
        } else {
            assert!(r.is_ok() && g.base2k().0 == 9 && g.dsize().0 == 1, "C18:complete stream accepted, metadata from the stream");
        }
    }

    #[kani::proof]
    #[kani::unwind(10)]
    #[kani::stub(alloc::fmt::format, fmt_stub)]
    fn c18_switching_key_read_truncated() {
        let mut src: GLWESwitchingKey<Vec<u8>> = GLWESwitchingKey::alloc(2u32.into(), 9u32.into(), 27u32.into(), 1u32.into(), 1u32.into(), 1u32.into(), 1u32.into());
        *GLWESwitchingKeyDegreesMut::input_degree(&mut src) = 4u32.into();
        *GLWESwitchingKeyDegreesMut::output_degree(&mut src) = 2u32.into();
        let mut stream: Vec<u8> = Vec::new();
        assert!(src.write_to(&mut stream).is_ok());
        let mut g: GLWESwitchingKey<Vec<u8>> = GLWESwitchingKey::alloc(2u32.into(), 8u32.into(), 24u32.into(), 1u32.into(), 1u32.into(), 1u32.into(), 2u32.into());
        let total: usize = kani::any();
        kani::assume(total <= stream.len());
        let mut cur = Cursor::new(&stream[..total]);
        let r = g.read_from(&mut cur);
        if total < stream.len() {
            assert!(r.is_err(), "C18:truncated stream rejected");
            assert!(GLWESwitchingKeyDegrees::input_degree(&g).0 == 0 && GLWESwitchingKeyDegrees::output_degree(&g).0 == 0 && g.base2k().0 == 8 && g.dsize().0 == 2,
                "C18:Err leaves wrapper metadata unchanged");
        } else {
            assert!(r.is_ok() && GLWESwitchingKeyDegrees::input_degree(&g).0 == 4 && GLWESwitchingKeyDegrees::output_degree(&g).0 == 2 && g.base2k().0 == 9,
                "C18:complete stream accepted, metadata from the stream");
        }
    }

    #[kani::proof]
    #[kani::unwind(10)]
    #[kani::stub(alloc::fmt::format, fmt_stub)]
    fn c18_automorphism_key_read_truncated() {
        let mut src: GLWEAutomorphismKey<Vec<u8>> = GLWEAutomorphismKey::alloc(2u32.into(), 9u32.into(), 27u32.into(), 1u32.into(), 1u32.into(), 1u32.into());
        src.set_p(-3);
        let mut stream: Vec<u8> = Vec::new();
        assert!(src.write_to(&mut stream).is_ok());
        let mut g: GLWEAutomorphismKey<Vec<u8>> = GLWEAutomorphismKey::alloc(2u32.into(), 8u32.into(), 24u32.into(), 1u32.into(), 1u32.into(), 2u32.into());
        g.set_p(5);
        let total: usize = kani::any();
        kani::assume(total <= stream.len());
        let mut cur = Cursor::new(&stream[..total]);
        let r = g.read_from(&mut cur);
        if total < stream.len() {
            assert!(r.is_err(), "C18:truncated stream rejected");
            assert!(g.p() == 5 && g.base2k().0 == 8 && g.dsize().0 == 2, "C18:Err leaves wrapper metadata unchanged");
        } else {
            assert!(r.is_ok() && g.p() == -3 && g.base2k().0 == 9, "C18:complete stream accepted, metadata from the stream");
        }
    }

    // round trip of the signed scalar header of the automorphism keys (standard and seed-compressed): EVERY Galois element p (all of i64) written by write_to is what
    // read_from stores (a narrower or unsigned header word would lose negative elements such as -1, the conjugation / packing key)
    #[kani::proof]
    #[kani::unwind(10)]
    #[kani::stub(alloc::fmt::format, fmt_stub)]
    fn c18_automorphism_key_round_trip_p() {
        let p: i64 = kani::any();
        let mut src: GLWEAutomorphismKey<Vec<u8>> = GLWEAutomorphismKey::alloc(2u32.into(), 9u32.into(), 18u32.into(), 1u32.into(), 1u32.into(), 1u32.into());
        src.set_p(p);
        let mut stream: Vec<u8> = Vec::new();
        assert!(src.write_to(&mut stream).is_ok());
        let mut g: GLWEAutomorphismKey<Vec<u8>> = GLWEAutomorphismKey::alloc(2u32.into(), 9u32.into(), 18u32.into(), 1u32.into(), 1u32.into(), 1u32.into());
        let mut cur = Cursor::new(&stream[..]);
        let r = g.read_from(&mut cur);
        assert!(r.is_ok(), "C18:round trip accepted");
        assert!(g.p() == p, "C18:round trip reproduces the Galois element");
        assert!(cur.position() as usize == stream.len(), "C18:round trip consumes the whole stream");
    }

    #[kani::proof]
    #[kani::unwind(40)]
    #[kani::stub(alloc::fmt::format, fmt_stub)]
    fn c18_automorphism_key_compressed_round_trip_p() {
        let p: i64 = kani::any();
        let mut src: GLWEAutomorphismKeyCompressed<Vec<u8>> = GLWEAutomorphismKeyCompressed::alloc(2u32.into(), 9u32.into(), 18u32.into(), 1u32.into(), 1u32.into(), 1u32.into());
        src.set_p(p);
        let mut stream: Vec<u8> = Vec::new();
        assert!(src.write_to(&mut stream).is_ok());
        let mut g: GLWEAutomorphismKeyCompressed<Vec<u8>> = GLWEAutomorphismKeyCompressed::alloc(2u32.into(), 9u32.into(), 18u32.into(), 1u32.into(), 1u32.into(), 1u32.into());
        let mut cur = Cursor::new(&stream[..]);
        let r = g.read_from(&mut cur);
        assert!(r.is_ok(), "C18:round trip accepted");
        assert!(g.p() == p, "C18:round trip reproduces the Galois element");
        assert!(cur.position() as usize == stream.len(), "C18:round trip consumes the whole stream");
    }

    #[kani::proof]
    #[kani::unwind(10)]
    #[kani::stub(alloc::fmt::format, fmt_stub)]
    fn c18_public_key_read_truncated() {
        let mut src: GLWEPublicKey<Vec<u8>> = GLWEPublicKey::alloc(2u32.into(), 9u32.into(), 9u32.into(), 1u32.into());
        *src.dist_mut() = Distribution::BinaryBlock(3);
        let mut stream: Vec<u8> = Vec::new();
        assert!(src.write_to(&mut stream).is_ok());
        let mut g: GLWEPublicKey<Vec<u8>> = GLWEPublicKey::alloc(2u32.into(), 8u32.into(), 8u32.into(), 1u32.into());
        let total: usize = kani::any();
        kani::assume(total <= stream.len());
        let mut cur = Cursor::new(&stream[..total]);
        let r = g.read_from(&mut cur);
        if total < stream.len() {
            assert!(r.is_err(), "C18:truncated stream rejected");
            assert!(matches!(g.dist(), Distribution::NONE) && g.base2k().0 == 8, "C18:Err leaves wrapper metadata unchanged");
        } else {
            assert!(r.is_ok() && matches!(g.dist(), Distribution::BinaryBlock(3)) && g.base2k().0 == 9, "C18:complete stream accepted, metadata from the stream");
        }
    }

    #[kani::proof]
    #[kani::unwind(40)]
    #[kani::stub(alloc::fmt::format, fmt_stub)]
    fn c18_gglwe_compressed_read_truncated() {
        let src: GGLWECompressed<Vec<u8>> = GGLWECompressed::alloc(2u32.into(), 9u32.into(), 27u32.into(), 1u32.into(), 1u32.into(), 1u32.into(), 1u32.into());
        let mut stream: Vec<u8> = Vec::new();
        assert!(src.write_to(&mut stream).is_ok());
        let mut g: GGLWECompressed<Vec<u8>> = GGLWECompressed::alloc(2u32.into(), 8u32.into(), 24u32.into(), 1u32.into(), 1u32.into(), 1u32.into(), 2u32.into());
        let total: usize = kani::any();
        kani::assume(total <= stream.len());
        let mut cur = Cursor::new(&stream[..total]);
        let r = g.read_from(&mut cur);
        if total < stream.len() {
            assert!(r.is_err(), "C18:truncated stream rejected");
            assert!(g.base2k().0 == 8 && g.dsize().0 == 2 && g.max_k().0 == 24, "C18:Err leaves wrapper metadata unchanged");
        } else {
            assert!(r.is_ok() && g.base2k().0 == 9 && g.dsize().0 == 1 && g.max_k().0 == 27, "C18:complete stream accepted, metadata from the stream");
        }
    }

    // (A variant of the harness above that also pins the receiver's PRNG seeds -- they are committed after the payload like the other metadata -- refutes
    // seed C18-2 in 6 min, but CBMC runs out of memory (> 48 GB) proving it on the unchanged tree, with symbolic or concrete truncation points alike;
    // it is not registered.  See DESIGN.md, seed table.)

    // a seed count above the receiver's is a corrupted header: rejected before anything is allocated from it
    #[kani::proof]
    #[kani::unwind(40)]
    #[kani::stub(alloc::fmt::format, fmt_stub)]
    fn c18_gglwe_compressed_seed_count_rejected() {
        let mut g: GGLWECompressed<Vec<u8>> = GGLWECompressed::alloc(2u32.into(), 8u32.into(), 24u32.into(), 1u32.into(), 1u32.into(), 1u32.into(), 2u32.into());
        let hdr: [u8; 20] = kani::any();
        let seed_len = u32::from_le_bytes([hdr[16], hdr[17], hdr[18], hdr[19]]);
        kani::assume(seed_len > 1);
        let mut cur = Cursor::new(&hdr[..]);
        let r = g.read_from(&mut cur);
        assert!(r.is_err(), "C18:seed count above the receiver's rejected");
        assert!(g.base2k().0 == 8 && g.dsize().0 == 2 && g.max_k().0 == 24, "C18:Err leaves wrapper metadata unchanged");
    }
}

mod c02b {
    use super::fmt_stub;
    use poulpy_core::layouts::GLWE;
    use poulpy_core::GLWESub;
    use poulpy_hal::layouts::{Module, ZnxView, ZnxViewMut};
    type BE = crate::FFT64Ref;

    /// res <- a - res with a of rank 0 and res of rank 1: the column `a` does not have counts as zero, so it is negated
    #[kani::proof]
    #[kani::unwind(8)]
    #[kani::stub(alloc::fmt::format, fmt_stub)]
    fn c02_glwe_sub_negate_assign__ranks_0_1() {
        const N: usize = 2;
        let module: Module<BE> = Module::new_marker(N as u64);
        let mut a: GLWE<Vec<u8>> = GLWE::alloc((N as u32).into(), 8u32.into(), 8u32.into(), 0u32.into());
        let mut r: GLWE<Vec<u8>> = GLWE::alloc((N as u32).into(), 8u32.into(), 8u32.into(), 1u32.into());
        for x in a.data_mut().raw_mut().iter_mut() {
            *x = kani::any();
            kani::assume(*x >= -(1 << 61) && *x <= (1 << 61));
        }
        for x in r.data_mut().raw_mut().iter_mut() {
            *x = kani::any();
            kani::assume(*x >= -(1 << 61) && *x <= (1 << 61));
        }
        let r0 = r.clone();
        module.glwe_sub_negate_assign(&mut r, &a);
        let mut k = 0;
        while k < N {
            assert!(r.data().at(0, 0)[k] == a.data().at(0, 0)[k] - r0.data().at(0, 0)[k], "C02:glwe_sub_negate_assign column 0 == a - res");
            assert!(r.data().at(1, 0)[k] == -r0.data().at(1, 0)[k], "C02:glwe_sub_negate_assign: a column missing in `a` counts as zero (res = -res)");
            k += 1;
        }
    }
}

// ------------------------------------------------------------------------------------------------
// C08 — vec_znx_normalize (same and cross radix, signed bit offset) against the exact torus value (bounded in shape:
// N = 1, sizes <= 2, radices <= 5, offset a constant per harness; limb values symbolic incl. un-normalised ones, stale
// garbage in the result).  Oracle from the property statement:  val(res) == val(a) * 2^offset (mod 1) within one unit
// of res's last limb; for equal radices every output digit is balanced.
// ------------------------------------------------------------------------------------------------
mod c08_norm {
    use super::fmt_stub;
    use crate::reference::vec_znx::vec_znx_normalize;
    use crate::reference::znx::ZnxRef;
    use poulpy_hal::layouts::{VecZnx, ZnxView, ZnxViewMut};

    fn normalize_case<const BA: usize, const BR: usize, const SA: usize, const SR: usize>(off: i64) {
        let mut a: VecZnx<Vec<u8>> = VecZnx::alloc(1, 1, SA);
        let mut r: VecZnx<Vec<u8>> = VecZnx::alloc(1, 1, SR);
        let mut av = [0i64; 2];
        let mut j = 0;
        while j < SA {
            let x: i64 = kani::any();
            kani::assume(x > -(1 << 20) && x < (1 << 20)); // un-normalised inputs, well inside the headroom
            a.at_mut(0, j)[0] = x;
            av[j] = x;
            j += 1;
        }
        j = 0;
        while j < SR {
            r.at_mut(0, j)[0] = kani::any(); // stale garbage
            j += 1;
        }
        let mut carry = [0i64; 3];
        vec_znx_normalize::<_, _, ZnxRef>(&mut r, BR, off, 0, &a, BA, 0, &mut carry);
        // integer numerators
        let mut va: i128 = 0;
        j = 0;
        while j < SA {
            va += (av[j] as i128) << (BA * (SA - 1 - j));
            j += 1;
        }
        let mut vr: i128 = 0;
        j = 0;
        while j < SR {
            let d = r.at(0, j)[0];
            if BA == BR {
                assert!(d >= -(1i64 << (BR - 1)) && d < (1i64 << (BR - 1)), "C08:output digit balanced (equal radices)");
            }
            vr += (d as i128) << (BR * (SR - 1 - j));
            j += 1;
        }
        // compare vr * 2^{-BR*SR} with va * 2^{-BA*SA + off} modulo 1, tolerance one unit of res's last limb
        let neg: u32 = if off < 0 { (-off) as u32 } else { 0 };
        let pos: u32 = if off > 0 { off as u32 } else { 0 };
        let lhs: i128 = vr << ((BA * SA) as u32 + neg);
        let rhs: i128 = va << ((BR * SR) as u32 + pos);
        let m: i128 = 1i128 << ((BA * SA + BR * SR) as u32 + neg);
        let unit: i128 = 1i128 << ((BA * SA) as u32 + neg);
        let e = (lhs - rhs).rem_euclid(m);
        assert!(e <= unit || e >= m - unit, "C08:res represents a * 2^offset on the torus within one unit of its last limb");
    }

    macro_rules! norm_harness {
        ($name:ident, $ba:expr, $br:expr, $sa:expr, $sr:expr, $off:expr) => {
            #[kani::proof]
            #[kani::unwind(8)]
            #[kani::stub(alloc::fmt::format, fmt_stub)]
            fn $name() {
                normalize_case::<$ba, $br, $sa, $sr>($off);
            }
        };
    }
    // same radix
    norm_harness!(c08_normalize__b4_b4_s2_s2_off0, 4, 4, 2, 2, 0);
    norm_harness!(c08_normalize__b4_b4_s2_s2_offm5, 4, 4, 2, 2, -5);
    norm_harness!(c08_normalize__b4_b4_s2_s2_off3, 4, 4, 2, 2, 3);
    norm_harness!(c08_normalize__b4_b4_s2_s1_offm4, 4, 4, 2, 1, -4);
    norm_harness!(c08_normalize__b4_b4_s1_s2_off4, 4, 4, 1, 2, 4);
    norm_harness!(c08_normalize__b4_b4_s2_s2_off9, 4, 4, 2, 2, 9);
    // cross radix
    norm_harness!(c08_normalize__b3_b4_s2_s2_off0, 3, 4, 2, 2, 0);
    norm_harness!(c08_normalize__b4_b3_s2_s2_off0, 4, 3, 2, 2, 0);
    norm_harness!(c08_normalize__b5_b4_s2_s2_offm2, 5, 4, 2, 2, -2);
    norm_harness!(c08_normalize__b4_b5_s2_s1_off1, 4, 5, 2, 1, 1);
    // shifts that move the input entirely below the output with an empty limb in between (DESIGN §6-10)
    norm_harness!(c08_normalize__b4_b4_s1_s1_offm9_gap, 4, 4, 1, 1, -9);
    norm_harness!(c08_normalize__b4_b4_s1_s1_offm5_gap, 4, 4, 1, 1, -5);
}

// C08 — shifts (bounded: N = 1, radix 4, size 2, shift amount constant per harness): lsh / rsh / rsh_assign / lsh_assign
// represent a * 2^(+-k) on the torus within one unit of the last limb, balanced digits, no panic for any amount
// (including amounts larger than the precision).
// C08 (NTT120 family): the FUSED big-accumulator normalisations res <- res +/- normalise(a * 2^offset), i128 accumulators (seed C08-4: the carry of the middle steps)
mod c08_ntt120_fused {
    use super::fmt_stub;
    use crate::ntt120::NTT120Ref;
    use crate::reference::ntt120::vec_znx_big::{ntt120_vec_znx_big_normalize_add_assign, ntt120_vec_znx_big_normalize_sub_assign};
    use poulpy_hal::layouts::{VecZnx, VecZnxBig, ZnxView, ZnxViewMut};
    const B: usize = 4;

    fn fused_case<const SA: usize, const SR: usize>(off: i64, sub: bool) {
        let mut a = VecZnxBig::<_, NTT120Ref>::alloc(1, 1, SA);
        let mut va: i128 = 0;
        let mut j = 0;
        while j < SA {
            let x: i64 = kani::any();
            kani::assume(x > -(1 << 20) && x < (1 << 20)); // un-normalised accumulator limbs
            a.at_mut(0, j)[0] = x as i128;
            va += (x as i128) << (B * (SA - 1 - j));
            j += 1;
        }
        let mut r: VecZnx<Vec<u8>> = VecZnx::alloc(1, 1, SR);
        let mut v0: i128 = 0;
        j = 0;
        while j < SR {
            let d: i64 = kani::any();
            kani::assume(d >= -(1 << (B - 1)) && d < (1 << (B - 1)));
            r.at_mut(0, j)[0] = d;
            v0 += (d as i128) << (B * (SR - 1 - j));
            j += 1;
        }
        let mut carry = [0i128; 8];
        if sub {
            ntt120_vec_znx_big_normalize_sub_assign::<_, _, NTT120Ref>(&mut r, B, off, 0, &a, B, 0, &mut carry);
        } else {
            ntt120_vec_znx_big_normalize_add_assign::<_, _, NTT120Ref>(&mut r, B, off, 0, &a, B, 0, &mut carry);
        }
        let mut vr: i128 = 0;
        j = 0;
        while j < SR {
            vr += (r.at(0, j)[0] as i128) << (B * (SR - 1 - j));
            j += 1;
        }
        let neg: u32 = if off < 0 { (-off) as u32 } else { 0 };
        let pos: u32 = if off > 0 { off as u32 } else { 0 };
        let delta = if sub { v0 - vr } else { vr - v0 };
        let lhs: i128 = delta << ((B * SA) as u32 + neg);
        let rhs: i128 = va << ((B * SR) as u32 + pos);
        let m: i128 = 1i128 << ((B * SA + B * SR) as u32 + neg);
        let unit: i128 = 1i128 << ((B * SA) as u32 + neg);
        let e = (lhs - rhs).rem_euclid(m);
        assert!(e <= unit || e >= m - unit, "C08:fused normalise adds / subtracts a * 2^offset on the torus within one unit of the result's last limb");
    }
    macro_rules! fused_harness {
        ($name:ident, $sa:expr, $sr:expr, $off:expr, $sub:expr) => {
            #[kani::proof]
            #[kani::unwind(10)]
            #[kani::stub(alloc::fmt::format, fmt_stub)]
            fn $name() {
                fused_case::<$sa, $sr>($off, $sub);
            }
        };
    }
    fused_harness!(c08_ntt120_fused_add__b4_sa2_sr3_offm9, 2, 3, -9, false);
    fused_harness!(c08_ntt120_fused_sub__b4_sa2_sr3_offm8, 2, 3, -8, true);
    fused_harness!(c08_ntt120_fused_add__b4_sa2_sr2_off0, 2, 2, 0, false);
    fused_harness!(c08_ntt120_fused_add__b4_sa2_sr3_offm3, 2, 3, -3, false);
}

mod c08_shift {
    use super::fmt_stub;
    use crate::reference::vec_znx::{vec_znx_lsh, vec_znx_lsh_assign, vec_znx_rsh, vec_znx_rsh_assign};
    use crate::reference::znx::ZnxRef;
    use poulpy_hal::layouts::{VecZnx, ZnxView, ZnxViewMut};
    const B: usize = 4;
    const S: usize = 2;

    fn val(v: &VecZnx<Vec<u8>>) -> i128 {
        ((v.at(0, 0)[0] as i128) << B) + v.at(0, 1)[0] as i128
    }
    fn check(res: &VecZnx<Vec<u8>>, va: i128, off: i64, op: u8) {
        let mut j = 0;
        while j < S {
            let d = res.at(0, j)[0];
            assert!(d >= -(1 << (B - 1)) && d < (1 << (B - 1)), "C08:shift output digit balanced");
            j += 1;
        }
        let vr = val(res);
        let neg: u32 = if off < 0 { (-off) as u32 } else { 0 };
        let pos: u32 = if off > 0 { off as u32 } else { 0 };
        let m: i128 = 1i128 << ((B * S) as u32 + neg);
        let unit: i128 = 1i128 << neg;
        let e = ((vr << neg) - (va << pos)).rem_euclid(m);
        let good = e <= unit || e >= m - unit;
        assert!(op != 0 || good, "C08:vec_znx_lsh == a * 2^k on the torus within one unit of the last limb");
        assert!(op != 1 || good, "C08:vec_znx_rsh == a * 2^-k on the torus within one unit of the last limb");
        assert!(op != 2 || good, "C08:vec_znx_lsh_assign == a * 2^k on the torus within one unit of the last limb");
        assert!(op != 3 || good, "C08:vec_znx_rsh_assign == a * 2^-k on the torus within one unit of the last limb");
    }
    fn input() -> (VecZnx<Vec<u8>>, i128) {
        let mut a: VecZnx<Vec<u8>> = VecZnx::alloc(1, 1, S);
        let mut j = 0;
        while j < S {
            let x: i64 = kani::any();
            kani::assume(x > -(1 << 12) && x < (1 << 12)); // inputs need not be normalised
            a.at_mut(0, j)[0] = x;
            j += 1;
        }
        let v = val(&a);
        (a, v)
    }

    fn shift_case(k: usize) {
        let (a, va) = input();
        let mut carry = [0i64; 4];
        let mut r: VecZnx<Vec<u8>> = VecZnx::alloc(1, 1, S);
        r.at_mut(0, 0)[0] = kani::any();
        r.at_mut(0, 1)[0] = kani::any();
        vec_znx_lsh::<_, _, ZnxRef, true>(B, k, &mut r, 0, &a, 0, &mut carry);
        check(&r, va, k as i64, 0);
        if k.div_ceil(B) <= S {
            // (amounts that leave an empty limb position between input and output: separate harness c08_rsh_gap__*, DESIGN §6-10)
            let mut r2: VecZnx<Vec<u8>> = VecZnx::alloc(1, 1, S);
            r2.at_mut(0, 0)[0] = kani::any();
            r2.at_mut(0, 1)[0] = kani::any();
            vec_znx_rsh::<_, _, ZnxRef, true>(B, k, &mut r2, 0, &a, 0, &mut carry);
            check(&r2, va, -(k as i64), 1);
        }
        let mut li = a.clone();
        vec_znx_lsh_assign::<_, ZnxRef>(B, k, &mut li, 0, &mut carry);
        check(&li, va, k as i64, 2);
        let mut ri = a.clone();
        vec_znx_rsh_assign::<_, ZnxRef>(B, k, &mut ri, 0, &mut carry);
        check(&ri, va, -(k as i64), 3);
    }
    fn rsh_gap_case(k: usize) {
        let (a, va) = input();
        let mut carry = [0i64; 4];
        let mut r2: VecZnx<Vec<u8>> = VecZnx::alloc(1, 1, S);
        r2.at_mut(0, 0)[0] = kani::any();
        r2.at_mut(0, 1)[0] = kani::any();
        vec_znx_rsh::<_, _, ZnxRef, true>(B, k, &mut r2, 0, &a, 0, &mut carry);
        check(&r2, va, -(k as i64), 1);
    }
    #[kani::proof]
    #[kani::unwind(8)]
    #[kani::stub(alloc::fmt::format, fmt_stub)]
    fn c08_rsh_gap__b4_s2_k9() {
        rsh_gap_case(9);
    }
    #[kani::proof]
    #[kani::unwind(8)]
    #[kani::stub(alloc::fmt::format, fmt_stub)]
    fn c08_rsh_gap__b4_s2_k13() {
        rsh_gap_case(13);
    }
    // truncating shapes (seed C08-3): a has 2 limbs, the result 1 -- the limbs of a below the result's precision contribute their carry only
    fn check_r(res: &VecZnx<Vec<u8>>, rs: usize, va: i128, off: i64, op: u8) {
        let mut j = 0;
        let mut vr: i128 = 0;
        while j < rs {
            let d = res.at(0, j)[0];
            assert!(d >= -(1 << (B - 1)) && d < (1 << (B - 1)), "C08:shift output digit balanced (truncating shape)");
            vr = (vr << B) + d as i128;
            j += 1;
        }
        let neg: u32 = if off < 0 { (-off) as u32 } else { 0 };
        let pos: u32 = if off > 0 { off as u32 } else { 0 };
        let m: i128 = 1i128 << ((B * S) as u32 + neg);
        let unit: i128 = 1i128 << ((B * (S - rs)) as u32 + neg);
        let e = ((vr << ((B * (S - rs)) as u32 + neg)) - (va << pos)).rem_euclid(m);
        let good = e <= unit || e >= m - unit;
        assert!(op != 0 || good, "C08:vec_znx_lsh into a shorter result == a * 2^k on the torus within one unit of the result's last limb");
        assert!(op != 1 || good, "C08:vec_znx_rsh into a shorter result == a * 2^-k on the torus within one unit of the result's last limb");
    }
    fn trunc_case(k: usize) {
        let (a, va) = input();
        let mut carry = [0i64; 4];
        let mut r: VecZnx<Vec<u8>> = VecZnx::alloc(1, 1, 1);
        r.at_mut(0, 0)[0] = kani::any();
        vec_znx_lsh::<_, _, ZnxRef, true>(B, k, &mut r, 0, &a, 0, &mut carry);
        check_r(&r, 1, va, k as i64, 0);
        if k.div_ceil(B) <= 1 {
            // (more limbs of shift than the result has: known finding DESIGN §6-10, harnesses c08_rsh_gap__*)
            let mut r2: VecZnx<Vec<u8>> = VecZnx::alloc(1, 1, 1);
            r2.at_mut(0, 0)[0] = kani::any();
            vec_znx_rsh::<_, _, ZnxRef, true>(B, k, &mut r2, 0, &a, 0, &mut carry);
            check_r(&r2, 1, va, -(k as i64), 1);
        }
    }
    macro_rules! trunc_harness {
        ($name:ident, $k:expr) => {
            #[kani::proof]
            #[kani::unwind(8)]
            #[kani::stub(alloc::fmt::format, fmt_stub)]
            fn $name() {
                trunc_case($k);
            }
        };
    }
    // accumulating shifts (seed C02-4): res <- res -/+ a * 2^k, for a result as long as the operand or shorter, from a DIRTY carry buffer (it is scratch:
    // its contents must not matter -- a stale carry is subtracted into the last limb otherwise)
    fn acc_case(k: usize, rs: usize, sub: bool) {
        use crate::reference::vec_znx::vec_znx_lsh_sub;
        let (a, va) = input();
        let mut carry: [i64; 4] = [kani::any(), kani::any(), kani::any(), kani::any()];
        kani::assume(carry[0] > -(1 << 20) && carry[0] < (1 << 20));
        let mut r: VecZnx<Vec<u8>> = VecZnx::alloc(1, 1, rs);
        let mut v0: i128 = 0;
        let mut j = 0;
        while j < rs {
            let d: i64 = kani::any();
            kani::assume(d >= -(1 << (B - 1)) && d < (1 << (B - 1)));
            r.at_mut(0, j)[0] = d;
            v0 = (v0 << B) + d as i128;
            j += 1;
        }
        if sub {
            vec_znx_lsh_sub::<_, _, crate::FFT64Ref>(B, k, &mut r, 0, &a, 0, &mut carry);
        } else {
            // (the backend's own kernel set: the helper implementor ZnxRef ignores OVERWRITE in the middle step, DESIGN section 6-7)
            vec_znx_lsh::<_, _, crate::FFT64Ref, false>(B, k, &mut r, 0, &a, 0, &mut carry);
        }
        let mut vr: i128 = 0;
        j = 0;
        while j < rs {
            let d = r.at(0, j)[0];
            vr = (vr << B) + d as i128;
            j += 1;
        }
        let up: u32 = (B * (S - rs)) as u32;
        let m: i128 = 1i128 << ((B * S) as u32);
        let unit: i128 = 1i128 << up;
        let want = if sub { (v0 << up) - (va << k as u32) } else { (v0 << up) + (va << k as u32) };
        let e = ((vr << up) - want).rem_euclid(m);
        assert!(e <= unit || e >= m - unit, "C02:res -/+ a * 2^k on the torus within one unit of the result's last limb, whatever the scratch held");
    }
    macro_rules! acc_harness {
        ($name:ident, $k:expr, $rs:expr, $sub:expr) => {
            #[kani::proof]
            #[kani::unwind(8)]
            #[kani::stub(alloc::fmt::format, fmt_stub)]
            fn $name() {
                acc_case($k, $rs, $sub);
            }
        };
    }
    acc_harness!(c02_lsh_sub__b4_a2_r1_k6, 6, 1, true);
    acc_harness!(c02_lsh_sub__b4_a2_r2_k3, 3, 2, true);
    acc_harness!(c02_lsh_sub__b4_a2_r1_k0, 0, 1, true);
    acc_harness!(c02_lsh_add__b4_a2_r1_k6, 6, 1, false);
    acc_harness!(c02_lsh_add__b4_a2_r2_k3, 3, 2, false);
    trunc_harness!(c08_shift_trunc__b4_a2_r1_k0, 0);
    trunc_harness!(c08_shift_trunc__b4_a2_r1_k3, 3);
    trunc_harness!(c08_shift_trunc__b4_a2_r1_k4, 4);
    trunc_harness!(c08_shift_trunc__b4_a2_r1_k6, 6);
    macro_rules! shift_harness {
        ($name:ident, $k:expr) => {
            #[kani::proof]
            #[kani::unwind(8)]
            #[kani::stub(alloc::fmt::format, fmt_stub)]
            fn $name() {
                shift_case($k);
            }
        };
    }
    shift_harness!(c08_shift__b4_s2_k0, 0);
    shift_harness!(c08_shift__b4_s2_k1, 1);
    shift_harness!(c08_shift__b4_s2_k3, 3);
    shift_harness!(c08_shift__b4_s2_k4, 4);
    shift_harness!(c08_shift__b4_s2_k5, 5);
    shift_harness!(c08_shift__b4_s2_k8, 8);
    shift_harness!(c08_shift__b4_s2_k9, 9);
    shift_harness!(c08_shift__b4_s2_k13, 13);
}

// ------------------------------------------------------------------------------------------------
// C11 — fft64 convolution_apply_dft into a MULTI-COLUMN destination with more limbs than the product populates (seed C11-4): two runs that differ only in the
// previous contents of the destination give the same selected column (every limb written, the tail zero-filled) and leave the other column bit-for-bit alone.
// Operands are the all-zero prepared vectors (the f64 kernels then run on constants); the stale destination is fully symbolic.  Structure-independent complement of the
// unbounded Verus unit cnv_apply_fft64 (undecided when the zero-fill loop is rewritten).
// ------------------------------------------------------------------------------------------------
mod c11_cnv {
    use super::fmt_stub;
    use crate::reference::fft64::convolution::convolution_apply_dft;
    use poulpy_hal::layouts::{CnvPVecL, CnvPVecR, VecZnxDft, ZnxView, ZnxViewMut};
    type BE = crate::FFT64Ref;

    fn run(res_col: usize, stale: &[u64; 48]) -> VecZnxDft<poulpy_hal::layouts::DeviceBuf<BE>, BE> {
        const N: usize = 8;
        let a: CnvPVecL<_, BE> = CnvPVecL::alloc(N, 1, 1);
        let b: CnvPVecR<_, BE> = CnvPVecR::alloc(N, 1, 1);
        let mut res: VecZnxDft<_, BE> = VecZnxDft::alloc(N, 2, 3);
        let mut t = 0;
        while t < 48 {
            res.raw_mut()[t] = f64::from_bits(stale[t]);
            t += 1;
        }
        let mut tmp = [0f64; 16];
        convolution_apply_dft::<_, _, _, BE>(0, &mut res, res_col, &a, 0, &b, 0, &mut tmp);
        res
    }
    #[kani::proof]
    #[kani::unwind(50)]
    #[kani::stub(alloc::fmt::format, fmt_stub)]
    fn c11_cnv_apply_frame__n8_c2_r3() {
        let s1: [u64; 48] = kani::any();
        let s2: [u64; 48] = kani::any();
        let col: usize = kani::any();
        kani::assume(col < 2);
        let r1 = run(col, &s1);
        let r2 = run(col, &s2);
        let mut j = 0;
        while j < 3 {
            let mut k = 0;
            while k < 8 {
                assert!(r1.at(col, j)[k].to_bits() == r2.at(col, j)[k].to_bits(), "C11:cnv_apply_dft selected column independent of prior contents (tail limbs zero-filled)");
                assert!(r1.at(1 - col, j)[k].to_bits() == s1[8 * (j * 2 + (1 - col)) + k], "C11:cnv_apply_dft leaves the other column untouched");
                k += 1;
            }
            j += 1;
        }
    }
}

// ------------------------------------------------------------------------------------------------
// C09 — ring merging against the index-level model (bounded in shape, symbolic limb values, stale result contents):
// coefficient k of part i is coefficient gap*k + i of the merged polynomial, limbs a part does not have read as zero, the other
// column of the result is untouched.  Complements the unbounded Verus unit vec_znx_merge, whose loop anchors are
// lost (undecided) when the loop structure is edited (seed C09-3).
// ------------------------------------------------------------------------------------------------
mod c09_rings {
    use super::fmt_stub;
    use crate::reference::vec_znx::vec_znx_merge_rings;
    use crate::reference::znx::ZnxRef;
    use poulpy_hal::layouts::{VecZnx, ZnxInfos, ZnxView, ZnxViewMut};

    fn part(n: usize, size: usize) -> VecZnx<Vec<u8>> {
        let mut a: VecZnx<Vec<u8>> = VecZnx::alloc(n, 2, size);
        for x in a.raw_mut().iter_mut() {
            *x = kani::any();
        }
        a
    }
    fn merge_case<const G: usize>(n_in: usize, sizes: [usize; G], res_size: usize) {
        let n_out = n_in * G;
        let parts: [VecZnx<Vec<u8>>; G] = core::array::from_fn(|i| part(n_in, sizes[i]));
        let mut res = part(n_out, res_size);
        let before = res.clone();
        let mut tmp = [0i64; 8];
        vec_znx_merge_rings::<_, _, ZnxRef>(&mut res, 1, &parts, 0, &mut tmp[..n_out]);
        let mut j = 0;
        while j < res_size {
            let mut i = 0;
            while i < G {
                let mut k = 0;
                while k < n_in {
                    let want = if j < sizes[i] { parts[i].at(0, j)[k] } else { 0 };
                    assert!(res.at(1, j)[G * k + i] == want, "C09:merge_rings: coefficient gap*k+i of limb j is coefficient k of part i (zero past the part's limbs)");
                    k += 1;
                }
                i += 1;
            }
            let mut t = 0;
            while t < n_out {
                assert!(res.at(0, j)[t] == before.at(0, j)[t], "C09:merge_rings leaves the other column untouched");
                t += 1;
            }
            j += 1;
        }
    }
    // (X^p - 1) * a, out of place, into a LONGER result with stale contents (seed C02-3): limb j < a.size is rot_p(a_j) - a_j, limbs past a.size are ZERO, other column untouched
    fn mul_xp_minus_one_case(p: i64) {
        use crate::reference::vec_znx::vec_znx_mul_xp_minus_one;
        const N: usize = 4;
        let a = part(N, 1);
        let mut u = 0;
        while u < N {
            // no i64 overflow in X^p*a - a (precondition of the limb-wise kernels)
            kani::assume(a.at(0, 0)[u] > -(1i64 << 62) && a.at(0, 0)[u] < (1i64 << 62));
            u += 1;
        }
        let mut res = part(N, 2);
        let before = res.clone();
        vec_znx_mul_xp_minus_one::<_, _, ZnxRef>(p, &mut res, 1, &a, 0);
        let n = N as i64;
        let q = p.rem_euclid(2 * n);
        let mut t = 0;
        while t < N {
            // coefficient t of X^p * a: comes from coefficient s with s + q = t (mod 2N), sign flipped when wrapping past N an odd number of times
            let src = (t as i64 - q).rem_euclid(2 * n);
            let (s_idx, neg) = if src < n { (src as usize, false) } else { ((src - n) as usize, true) };
            let rot = if neg { a.at(0, 0)[s_idx].wrapping_neg() } else { a.at(0, 0)[s_idx] };
            assert!(res.at(1, 0)[t] == rot.wrapping_sub(a.at(0, 0)[t]), "C09:mul_xp_minus_one limb 0 == X^p*a - a");
            assert!(res.at(1, 1)[t] == 0, "C09:mul_xp_minus_one: limbs of the result past the operand's are zero (no stale data)");
            assert!(res.at(0, 0)[t] == before.at(0, 0)[t] && res.at(0, 1)[t] == before.at(0, 1)[t], "C09:mul_xp_minus_one leaves the other column untouched");
            t += 1;
        }
    }
    // Index-level models of the out-of-place column operations into a result with MORE limbs than the operand(s) and stale contents, two columns:
    // limb j of the selected column is op(a_j [, b_j]) with absent operand limbs read as zero, the other column is untouched.  Structure-independent complements of the
    // unbounded Verus units vec_znx_arith / vec_znx_ring (which go undecided when a body is restructured).  N = 4, operand a: 1 limb, b: 2 limbs, result: 3 limbs.
    fn bounded_part(n: usize, size: usize) -> VecZnx<Vec<u8>> {
        let a = part(n, size);
        let mut u = 0;
        while u < n * 2 * size {
            kani::assume(a.raw()[u] > -(1i64 << 61) && a.raw()[u] < (1i64 << 61));
            u += 1;
        }
        a
    }
    fn rot_coeff(a: &VecZnx<Vec<u8>>, col: usize, limb: usize, t: usize, p: i64) -> i64 {
        let n = a.n() as i64;
        let q = p.rem_euclid(2 * n);
        let src = (t as i64 - q).rem_euclid(2 * n);
        if src < n { a.at(col, limb)[src as usize] } else { a.at(col, limb)[(src - n) as usize].wrapping_neg() }
    }
    fn aut_coeff(a: &VecZnx<Vec<u8>>, col: usize, limb: usize, t: usize, p: i64) -> i64 {
        // coefficient t of a(X^p): sum over s with s*p = t (mod 2N) of +-a_s; p odd, so s is unique
        let n = a.n() as i64;
        let mut s = 0i64;
        let mut out = 0i64;
        while s < n {
            let e = (s * p).rem_euclid(2 * n);
            if e == t as i64 { out = a.at(col, limb)[s as usize]; }
            if e == t as i64 + n { out = a.at(col, limb)[s as usize].wrapping_neg(); }
            s += 1;
        }
        out
    }
    fn column_op_case(op: u8, p: i64) {
        use crate::reference::vec_znx::{vec_znx_add_into, vec_znx_automorphism, vec_znx_copy, vec_znx_negate, vec_znx_rotate, vec_znx_sub};
        const N: usize = 4;
        let a = bounded_part(N, 1);
        let b = bounded_part(N, 2);
        let mut res = part(N, 3);
        let before = res.clone();
        match op {
            0 => vec_znx_rotate::<_, _, ZnxRef>(p, &mut res, 1, &a, 0),
            1 => vec_znx_automorphism::<_, _, ZnxRef>(p, &mut res, 1, &a, 0),
            2 => vec_znx_copy::<_, _, ZnxRef>(&mut res, 1, &a, 0),
            3 => vec_znx_negate::<_, _, ZnxRef>(&mut res, 1, &a, 0),
            4 => vec_znx_add_into::<_, _, _, ZnxRef>(&mut res, 1, &a, 0, &b, 1),
            5 => vec_znx_sub::<_, _, _, ZnxRef>(&mut res, 1, &a, 0, &b, 1),
            _ => vec_znx_sub::<_, _, _, ZnxRef>(&mut res, 1, &b, 1, &a, 0),
        }
        let mut j = 0;
        while j < 3 {
            let mut t = 0;
            while t < N {
                let av = if j < 1 { a.at(0, j)[t] } else { 0 };
                let bv = if j < 2 { b.at(1, j)[t] } else { 0 };
                let want = match op {
                    0 => if j < 1 { rot_coeff(&a, 0, j, t, p) } else { 0 },
                    1 => if j < 1 { aut_coeff(&a, 0, j, t, p) } else { 0 },
                    2 => av,
                    3 => av.wrapping_neg(),
                    4 => av.wrapping_add(bv),
                    5 => av.wrapping_sub(bv),
                    _ => bv.wrapping_sub(av),
                };
                assert!(op != 0 || res.at(1, j)[t] == want, "C09:vec_znx_rotate limb j == X^p * a_j, zero past the operand's limbs");
                assert!(op != 1 || res.at(1, j)[t] == want, "C09:vec_znx_automorphism limb j == a_j(X^p), zero past the operand's limbs");
                assert!(op != 2 || res.at(1, j)[t] == want, "C09:vec_znx_copy limb j == a_j, zero past the operand's limbs");
                assert!(op != 3 || res.at(1, j)[t] == want, "C09:vec_znx_negate limb j == -a_j, zero past the operand's limbs");
                assert!(op != 4 || res.at(1, j)[t] == want, "C09:vec_znx_add_into limb j == a_j + b_j with absent limbs read as zero");
                assert!(op != 5 || res.at(1, j)[t] == want, "C09:vec_znx_sub limb j == a_j - b_j with absent limbs read as zero (a shorter)");
                assert!(op != 6 || res.at(1, j)[t] == want, "C09:vec_znx_sub limb j == a_j - b_j with absent limbs read as zero (b shorter)");
                assert!(res.at(0, j)[t] == before.at(0, j)[t], "C09:column operation leaves the other column untouched");
                t += 1;
            }
            j += 1;
        }
    }
    macro_rules! col_harness {
        ($name:ident, $body:expr) => {
            #[kani::proof]
            #[kani::unwind(26)]
            #[kani::stub(alloc::fmt::format, fmt_stub)]
            fn $name() {
                $body;
            }
        };
    }
    macro_rules! rings_harness {
        ($name:ident, $body:expr) => {
            #[kani::proof]
            #[kani::unwind(18)]
            #[kani::stub(alloc::fmt::format, fmt_stub)]
            fn $name() {
                $body;
            }
        };
    }
    rings_harness!(c09_merge_rings__g2_n1_s21_r2, merge_case::<2>(1, [2, 1], 2));
    rings_harness!(c09_merge_rings__g2_n1_s12_r3, merge_case::<2>(1, [1, 2], 3));
    rings_harness!(c09_merge_rings__g2_n2_s21_r2, merge_case::<2>(2, [2, 1], 2));
    col_harness!(c09_col_rotate__n4_p3, column_op_case(0, 3));
    col_harness!(c09_col_rotate__n4_pm5, column_op_case(0, -5));
    col_harness!(c09_col_automorphism__n4_p3, column_op_case(1, 3));
    col_harness!(c09_col_automorphism__n4_pm1, column_op_case(1, -1));
    col_harness!(c09_col_copy__n4, column_op_case(2, 0));
    col_harness!(c09_col_negate__n4, column_op_case(3, 0));
    col_harness!(c09_col_add__n4, column_op_case(4, 0));
    col_harness!(c09_col_sub_a_short__n4, column_op_case(5, 0));
    col_harness!(c09_col_sub_b_short__n4, column_op_case(6, 0));
    rings_harness!(c09_mul_xp_minus_one__n4_a1_r2_p1, mul_xp_minus_one_case(1));
    rings_harness!(c09_mul_xp_minus_one__n4_a1_r2_pm5, mul_xp_minus_one_case(-5));
    // (split_ring in the same shapes exceeds 600 s in CBMC: the reference goes through znx_switch_ring + znx_rotate on a scratch limb; the unbounded Verus unit vec_znx_split stands alone)
}

// C12 — exact-window harnesses through the public HAL traits (real hal_impl glue + real allocator + real reference op):
// a scratch of EXACTLY the companion `*_tmp_bytes` suffices (no allocator panic, Kani pointer checks), also for ring
// degrees whose limb byte size is not a multiple of the 64-byte alignment (N = 2, 4), and the result does not depend on
// the bytes the scratch held.  Bounded in shape (N constant per harness, size 2), symbolic limb values.
// ------------------------------------------------------------------------------------------------
mod c12_window {
    use super::fmt_stub;
    use poulpy_hal::api::{
        ScratchOwnedAlloc, ScratchOwnedBorrow, VecZnxAutomorphismAssign, VecZnxAutomorphismAssignTmpBytes, VecZnxLshAssign, VecZnxLshTmpBytes,
        VecZnxMulXpMinusOneAssign, VecZnxMulXpMinusOneAssignTmpBytes, VecZnxNormalizeAssign, VecZnxNormalizeTmpBytes, VecZnxRotateAssign,
        VecZnxRotateAssignTmpBytes, VecZnxRshAssign, VecZnxRshTmpBytes,
    };
    use poulpy_hal::layouts::{Module, ScratchOwned, VecZnx, ZnxView, ZnxViewMut};
    type BE = crate::FFT64Ref;

    fn input<const N: usize>() -> VecZnx<Vec<u8>> {
        let mut a: VecZnx<Vec<u8>> = VecZnx::alloc(N, 1, 2);
        for x in a.raw_mut().iter_mut() {
            *x = kani::any();
            kani::assume(*x >= -(1 << 7) && *x < (1 << 7));
        }
        a
    }
    fn same(a: &VecZnx<Vec<u8>>, b: &VecZnx<Vec<u8>>) -> bool {
        let mut i = 0;
        while i < a.raw().len() {
            if a.raw()[i] != b.raw()[i] {
                return false;
            }
            i += 1;
        }
        true
    }
    fn windows(bytes: usize) -> (ScratchOwned<BE>, ScratchOwned<BE>) {
        let s1: ScratchOwned<BE> = ScratchOwned::alloc(bytes);
        let mut s2: ScratchOwned<BE> = ScratchOwned::alloc(bytes);
        s2.data.as_mut().fill(0x5a);
        (s1, s2)
    }

    fn op_case<const N: usize>(op: u8) {
        let module: Module<BE> = Module::new_marker(N as u64);
        let a = input::<N>();
        let bytes = match op {
            0 => module.vec_znx_normalize_tmp_bytes(),
            1 => module.vec_znx_rotate_assign_tmp_bytes(),
            2 => module.vec_znx_automorphism_assign_tmp_bytes(),
            3 => module.vec_znx_mul_xp_minus_one_assign_tmp_bytes(),
            4 => module.vec_znx_lsh_tmp_bytes(),
            _ => module.vec_znx_rsh_tmp_bytes(),
        };
        let (mut s1, mut s2) = windows(bytes);
        let (mut x, mut y) = (a.clone(), a.clone());
        match op {
            0 => { module.vec_znx_normalize_assign(8, &mut x, 0, s1.borrow()); module.vec_znx_normalize_assign(8, &mut y, 0, s2.borrow()); }
            1 => { module.vec_znx_rotate_assign(3, &mut x, 0, s1.borrow()); module.vec_znx_rotate_assign(3, &mut y, 0, s2.borrow()); }
            2 => { module.vec_znx_automorphism_assign(-1, &mut x, 0, s1.borrow()); module.vec_znx_automorphism_assign(-1, &mut y, 0, s2.borrow()); }
            3 => { module.vec_znx_mul_xp_minus_one_assign(1, &mut x, 0, s1.borrow()); module.vec_znx_mul_xp_minus_one_assign(1, &mut y, 0, s2.borrow()); }
            4 => { module.vec_znx_lsh_assign(8, 3, &mut x, 0, s1.borrow()); module.vec_znx_lsh_assign(8, 3, &mut y, 0, s2.borrow()); }
            _ => { module.vec_znx_rsh_assign(8, 11, &mut x, 0, s1.borrow()); module.vec_znx_rsh_assign(8, 11, &mut y, 0, s2.borrow()); }
        }
        assert!(same(&x, &y), "C12:exact *_tmp_bytes window suffices and the result is independent of scratch contents");
    }
    macro_rules! window_harness {
        ($name:ident, $n:expr, $op:expr) => {
            #[kani::proof]
            #[kani::unwind(20)]
            #[kani::stub(alloc::fmt::format, fmt_stub)]
            fn $name() {
                op_case::<$n>($op);
            }
        };
    }
    window_harness!(c12_window_normalize_assign__n4, 4, 0);
    window_harness!(c12_window_rotate_assign__n4, 4, 1);
    window_harness!(c12_window_automorphism_assign__n4, 4, 2);
    window_harness!(c12_window_mul_xp_minus_one_assign__n4, 4, 3);
    window_harness!(c12_window_lsh_assign__n4, 4, 4);
    window_harness!(c12_window_rsh_assign__n4, 4, 5);
    window_harness!(c12_window_normalize_assign__n2, 2, 0);
    window_harness!(c12_window_rotate_assign__n2, 2, 1);
    window_harness!(c12_window_rsh_assign__n2, 2, 5);
    window_harness!(c12_window_normalize_assign__n8, 8, 0);
    window_harness!(c12_window_rsh_assign__n8, 8, 5);

}
