// C18 on the real poulpy-hal/src/layouts/scalar_znx.rs (mounted at the end of that file under cfg(kani)).
include!(concat!(env!("POULPY_VERIF_KX"), "/common.rs"));
use super::*;
use std::io::Cursor;
const CAP: usize = 32;
fn le64(b: &[u8], k: usize) -> u64 {
    u64::from_le_bytes([b[8 * k], b[8 * k + 1], b[8 * k + 2], b[8 * k + 3], b[8 * k + 4], b[8 * k + 5], b[8 * k + 6], b[8 * k + 7]])
}
fn fits(n: usize, cols: usize, len: usize) -> bool {
    let a = (n as u128) * (cols as u128);
    a <= len as u128 && a * 8 <= len as u128
}

#[kani::proof]
#[kani::unwind(4)]
#[kani::stub(alloc::fmt::format, fmt_stub)]
fn c18_scalar_znx_read_header() {
    let (n0, c0) = (2usize, 1usize);
    let mut v: ScalarZnx<Vec<u8>> = ScalarZnx { data: vec![0u8; CAP], n: n0, cols: c0 };
    let hdr: [u8; 24] = kani::any();
    let mut bytes = [0u8; 24 + CAP];
    bytes[..24].copy_from_slice(&hdr);
    let mut cur = Cursor::new(&bytes[..]);
    let r = v.read_from(&mut cur);
    kani::cover!(r.is_ok() && v.n == 4, "C18:ok path reachable");
    kani::cover!(r.is_err(), "C18:err path reachable");
    match r {
        Ok(()) => {
            assert!(v.data.len() == CAP && fits(v.n, v.cols, CAP), "C18:Ok implies n*cols*8 within the buffer");
            assert!(v.n as u64 == le64(&hdr, 0) && v.cols as u64 == le64(&hdr, 1), "C18:Ok implies fields equal header");
        }
        Err(_) => assert!(v.n == n0 && v.cols == c0 && v.data.len() == CAP, "C18:Err leaves metadata unchanged"),
    }
}

#[kani::proof]
#[kani::unwind(4)]
#[kani::stub(alloc::fmt::format, fmt_stub)]
fn c18_scalar_znx_read_truncated() {
    let (n0, c0): (usize, usize) = (kani::any(), kani::any());
    kani::assume(n0 <= 8 && c0 <= 8 && fits(n0, c0, CAP));
    let mut v: ScalarZnx<Vec<u8>> = ScalarZnx { data: vec![0u8; CAP], n: n0, cols: c0 };
    let mut bytes = [0u8; 24 + 16];
    bytes[0] = 2; bytes[8] = 1; bytes[16] = 16; // n=2, cols=1, len=16
    let total: usize = kani::any();
    kani::assume(total <= 24 + 16);
    let mut cur = Cursor::new(&bytes[..total]);
    let r = v.read_from(&mut cur);
    if total < 24 + 16 {
        assert!(r.is_err() && v.n == n0 && v.cols == c0, "C18:truncated stream rejected, metadata unchanged");
    } else {
        assert!(r.is_ok() && v.n == 2 && v.cols == 1, "C18:complete stream accepted");
    }
}
