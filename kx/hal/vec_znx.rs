// Harnesses on the real poulpy-hal/src/layouts/vec_znx.rs (mounted at the end of that file under cfg(kani)).
include!(concat!(env!("POULPY_VERIF_KX"), "/common.rs"));
use super::*;
use std::io::Cursor;

const CAP: usize = 32;

fn wf(n: usize, cols: usize, size: usize, max_size: usize, len: usize) -> bool {
    // n*cols*max_size*8 <= len, evaluated without overflow (len is a small buffer length)
    let fits = |s: usize| -> bool {
        let a = (n as u128) * (cols as u128);
        if a == 0 || s == 0 {
            return true;
        }
        if a > len as u128 || s > len {
            return false;
        }
        a * (s as u128) * 8 <= len as u128
    };
    size <= max_size && fits(max_size)
}

fn le64(b: &[u8], k: usize) -> u64 {
    u64::from_le_bytes([b[8 * k], b[8 * k + 1], b[8 * k + 2], b[8 * k + 3], b[8 * k + 4], b[8 * k + 5], b[8 * k + 6], b[8 * k + 7]])
}

/// C18 reject-or-consistent, part A: the 40 header bytes are fully symbolic (2^320 headers), full-length stream,
/// receiver of capacity CAP bytes.  No panic / overflow / OOB on any path (Kani's built-in checks).
#[kani::proof]
#[kani::unwind(4)]
#[kani::stub(alloc::fmt::format, fmt_stub)]
fn c18_vec_znx_read_header() {
    let (n0, c0, s0, m0) = (2usize, 1usize, 1usize, 2usize);
    let mut v: VecZnx<Vec<u8>> = VecZnx { data: vec![0u8; CAP], n: n0, cols: c0, size: s0, max_size: m0 };
    let hdr: [u8; 40] = kani::any();
    let mut bytes = [0u8; 40 + CAP];
    bytes[..40].copy_from_slice(&hdr);
    let mut cur = Cursor::new(&bytes[..]);
    let r = v.read_from(&mut cur);
    kani::cover!(r.is_ok() && v.n == 2 && v.size == 2, "C18:ok path reachable");
    kani::cover!(r.is_err(), "C18:err path reachable");
    match r {
        Ok(()) => {
            assert!(v.data.len() == CAP, "C18:buffer length unchanged");
            assert!(wf(v.n, v.cols, v.size, v.max_size, v.data.len()), "C18:Ok implies dimensions consistent with buffer");
            assert!(v.n as u64 == le64(&hdr, 0) && v.cols as u64 == le64(&hdr, 1) && v.size as u64 == le64(&hdr, 2), "C18:Ok implies fields equal header");
            assert!(v.max_size as u64 <= le64(&hdr, 3), "C18:max_size never exceeds the writer's");
        }
        Err(_) => {
            assert!(v.n == n0 && v.cols == c0 && v.size == s0 && v.max_size == m0 && v.data.len() == CAP, "C18:Err leaves metadata unchanged");
        }
    }
}

/// C18 reject-or-consistent, part B: every truncation point of a valid stream, symbolic prior metadata.
#[kani::proof]
#[kani::unwind(4)]
#[kani::stub(alloc::fmt::format, fmt_stub)]
fn c18_vec_znx_read_truncated() {
    let (n0, c0, s0, m0): (usize, usize, usize, usize) = (kani::any(), kani::any(), kani::any(), kani::any());
    kani::assume(n0 <= 8 && c0 <= 8 && m0 <= 8 && wf(n0, c0, s0, m0, CAP));
    let mut v: VecZnx<Vec<u8>> = VecZnx { data: vec![0u8; CAP], n: n0, cols: c0, size: s0, max_size: m0 };
    let mut bytes = [0u8; 40 + 32];
    bytes[0] = 2; bytes[8] = 1; bytes[16] = 2; bytes[24] = 2; bytes[32] = 32; // n=2, cols=1, size=2, max_size=2, len=32
    let total: usize = kani::any();
    kani::assume(total <= 40 + 32);
    let mut cur = Cursor::new(&bytes[..total]);
    let r = v.read_from(&mut cur);
    if total < 40 + 32 {
        assert!(r.is_err(), "C18:truncated stream is rejected");
        assert!(v.n == n0 && v.cols == c0 && v.size == s0 && v.max_size == m0 && v.data.len() == CAP, "C18:Err leaves metadata unchanged");
    } else {
        assert!(r.is_ok(), "C18:complete stream accepted");
        assert!(v.n == 2 && v.cols == 1 && v.size == 2 && wf(v.n, v.cols, v.size, v.max_size, CAP), "C18:Ok implies consistent");
    }
}

/// C18 round trip (bounded in shape: n*cols*size <= 4 coefficients, contents symbolic).
#[kani::proof]
#[kani::unwind(36)]
#[kani::stub(alloc::fmt::format, fmt_stub)]
fn c18_vec_znx_round_trip__coeffs4() {
    let (n, cols, size): (usize, usize, usize) = (kani::any(), kani::any(), kani::any());
    kani::assume(n >= 1 && n <= 4 && cols >= 1 && cols <= 2 && size >= 1 && size <= 2 && n * cols * size <= 4);
    let mut a: VecZnx<Vec<u8>> = VecZnx::from_data(vec![0u8; CAP], n, cols, size);
    let content: [u8; CAP] = kani::any();
    a.data.copy_from_slice(&content);
    let mut stream: Vec<u8> = Vec::new();
    assert!(a.write_to(&mut stream).is_ok(), "C18:write succeeds");
    assert!(stream.len() == 40 + n * cols * size * 8, "C18:stream length");
    // receiver of larger capacity and different prior shape
    let mut b: VecZnx<Vec<u8>> = VecZnx::from_data(vec![0xAAu8; 2 * CAP], 1, 1, 3);
    let mut cur = Cursor::new(&stream[..]);
    assert!(b.read_from(&mut cur).is_ok(), "C18:read back succeeds");
    assert!(b.n == n && b.cols == cols && b.size == size, "C18:dimensions reproduced");
    assert!(wf(b.n, b.cols, b.size, b.max_size, b.data.len()), "C18:receiver consistent");
    let used = n * cols * size * 8;
    let mut i = 0;
    while i < CAP {
        if i < used {
            assert!(b.data[i] == content[i], "C18:active limbs reproduced");
        }
        i += 1;
    }
}

// ------------------------------------------------------------------------------------------------
// C17 — trusted interface I-LAYOUT of the Verus units, checked on the real unsafe accessors (ZnxView::at / at_mut / raw):
// for every well-formed shape in a 64-byte buffer and every (col, limb) in range, the returned slice is exactly the block
// [8*n*(j*cols+i), +8*n) of the buffer; Kani's pointer checks (out-of-bounds, misaligned, dangling) are on.
// ------------------------------------------------------------------------------------------------
#[kani::proof]
#[kani::unwind(10)]
#[kani::stub(alloc::fmt::format, fmt_stub)]
fn c17_vec_znx_accessors_layout() {
    const BYTES: usize = 64;
    let (n, cols, size, max_size): (usize, usize, usize, usize) = (kani::any(), kani::any(), kani::any(), kani::any());
    kani::assume(n >= 1 && n <= 8 && cols >= 1 && cols <= 8 && max_size <= 8 && size <= max_size && n * cols * max_size * 8 <= BYTES);
    let mut v: VecZnx<Vec<u8>> = VecZnx { data: crate::alloc_aligned::<u8>(BYTES), n, cols, size, max_size };
    let (i, j): (usize, usize) = (kani::any(), kani::any());
    kani::assume(i < cols && j < size);
    let base = v.data.as_ptr() as usize;
    {
        let s: &[i64] = v.at(i, j);
        assert!(s.len() == n, "C17:at() length == n");
        assert!(s.as_ptr() as usize == base + 8 * n * (j * cols + i), "C17:at() offset == 8*n*(j*cols+i)");
        assert!(8 * n * (j * cols + i) + 8 * n <= n * cols * size * 8, "C17:block inside the active region");
    }
    assert!(v.raw().len() == n * cols * size, "C17:raw() covers exactly the active limbs");
    let val: i64 = kani::any();
    let k: usize = kani::any();
    kani::assume(k < n);
    v.at_mut(i, j)[k] = val;
    assert!(v.raw()[n * (j * cols + i) + k] == val, "C17:at_mut writes through to the buffer at the same offset");
    kani::cover!(i == 1 && j == 1 && n == 2, "C17:reachable");
}

// ------------------------------------------------------------------------------------------------
// C17 — representation invariant of an OWNED VecZnx across size changes (seed C17-3): after alloc, set_size (within capacity) and
// reallocate_limbs (grow or shrink) the capacity the header advertises is backed by the buffer:
//     size <= max_size  and  n * cols * max_size * 8 <= data.len()
// (ZnxView::at / at_mut / raw build their slices from these fields without consulting data.len()), and the limbs kept by a
// reallocation keep their contents.  Shapes n, cols <= 2 and limb counts <= 3, all symbolic: bounded in shape.
// ------------------------------------------------------------------------------------------------
#[kani::proof]
#[kani::unwind(50)]
#[kani::stub(alloc::fmt::format, fmt_stub)]
fn c17_vec_znx_reallocate_limbs_invariant() {
    let (n, cols, s0, s1, new_size): (usize, usize, usize, usize, usize) = (kani::any(), kani::any(), kani::any(), kani::any(), kani::any());
    kani::assume(n >= 1 && n <= 2 && cols >= 1 && cols <= 2 && s0 <= 3 && s1 <= s0 && new_size <= 3);
    let mut v: VecZnx<Vec<u8>> = VecZnx::alloc(n, cols, s0);
    let mut t = 0;
    while t < n * cols * s0 {
        v.raw_mut()[t] = kani::any();
        t += 1;
    }
    v.set_size(s1);
    assert!(wf(v.n, v.cols, v.size, v.max_size, v.data.len()), "C17:set_size within capacity keeps the capacity backed by the buffer");
    let keep = if s1 < new_size { s1 } else { new_size };
    let probe: usize = kani::any();
    kani::assume(probe < n * cols * keep);
    let before = v.raw()[probe];
    v.reallocate_limbs(new_size);
    assert!(v.size == new_size, "C17:reallocate_limbs sets the limb count");
    assert!(wf(v.n, v.cols, v.size, v.max_size, v.data.len()), "C17:reallocate_limbs leaves max_size backed by the buffer (n*cols*max_size*8 <= data.len())");
    assert!(v.raw()[probe] == before, "C17:reallocate_limbs keeps the contents of the limbs that remain");
    // whatever limb count is accepted afterwards is really there
    let s2: usize = kani::any();
    kani::assume(s2 <= v.max_size);
    v.set_size(s2);
    assert!(v.n * v.cols * v.size * 8 <= v.data.len(), "C17:every accepted limb count is backed by the buffer");
    kani::cover!(new_size < s1 && s1 < s0, "C17:shrink after shrink reachable");
    kani::cover!(new_size > s0, "C17:grow reachable");
}
