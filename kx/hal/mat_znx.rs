// C18 on the real poulpy-hal/src/layouts/mat_znx.rs (mounted at the end of that file under cfg(kani); fields are private).
include!(concat!(env!("POULPY_VERIF_KX"), "/common.rs"));
use super::*;
use std::io::Cursor;
const CAP: usize = 32;
fn le64(b: &[u8], k: usize) -> u64 {
    u64::from_le_bytes([b[8 * k], b[8 * k + 1], b[8 * k + 2], b[8 * k + 3], b[8 * k + 4], b[8 * k + 5], b[8 * k + 6], b[8 * k + 7]])
}
fn fits(m: &MatZnx<Vec<u8>>, len: usize) -> bool {
    // rows*cols_in*n*cols_out*size*8 <= len, without overflow
    let dims = [m.rows, m.cols_in, m.n, m.cols_out, m.size];
    let mut acc: u128 = 8;
    let mut i = 0;
    while i < 5 {
        if dims[i] == 0 {
            return true;
        }
        i += 1;
    }
    i = 0;
    while i < 5 {
        if dims[i] as u128 > len as u128 {
            return false;
        }
        acc *= dims[i] as u128;
        if acc > len as u128 {
            return false;
        }
        i += 1;
    }
    true
}

#[kani::proof]
#[kani::unwind(7)]
#[kani::stub(alloc::fmt::format, fmt_stub)]
fn c18_mat_znx_read_header() {
    let mut v: MatZnx<Vec<u8>> = MatZnx { data: vec![0u8; CAP], n: 2, size: 1, rows: 1, cols_in: 1, cols_out: 1 };
    let hdr: [u8; 48] = kani::any();
    let mut bytes = [0u8; 48 + CAP];
    bytes[..48].copy_from_slice(&hdr);
    let mut cur = Cursor::new(&bytes[..]);
    let r = v.read_from(&mut cur);
    kani::cover!(r.is_ok() && v.n == 2 && v.rows == 2, "C18:ok path reachable");
    kani::cover!(r.is_err(), "C18:err path reachable");
    match r {
        Ok(()) => {
            assert!(v.data.len() == CAP && fits(&v, CAP), "C18:Ok implies rows*cols_in*n*cols_out*size*8 within the buffer");
            assert!(v.n as u64 == le64(&hdr, 0) && v.size as u64 == le64(&hdr, 1) && v.rows as u64 == le64(&hdr, 2)
                && v.cols_in as u64 == le64(&hdr, 3) && v.cols_out as u64 == le64(&hdr, 4), "C18:Ok implies fields equal header");
        }
        Err(_) => assert!(v.n == 2 && v.size == 1 && v.rows == 1 && v.cols_in == 1 && v.cols_out == 1 && v.data.len() == CAP, "C18:Err leaves metadata unchanged"),
    }
}
