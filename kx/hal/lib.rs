// Harnesses mounted at the end of poulpy-hal/src/lib.rs (cfg(kani)).
include!(concat!(env!("POULPY_VERIF_KX"), "/common.rs"));
use crate::layouts::{FillUniform, VecZnx, ZnxView, ZnxViewMut};
use crate::source::Source;

// ------------------------------------------------------------------------------------------------
// C06 — uniform mask sampling: Source::next_u64n and VecZnx::fill_uniform, with the ChaCha8 stream abstracted to a symbolic tape
//   (every u64 drawn is an independent symbolic value; the harness observes how many were drawn and how they are used)
// ------------------------------------------------------------------------------------------------
static mut TAPE: [u64; 8] = [0; 8];
static mut DRAWS: usize = 0;
static mut LAST_SEED: [u8; 32] = [0; 32];
// Source::new runs CPU-feature detection (inline asm cpuid: unsupported by Kani); the generator state is irrelevant once the
// stream is the symbolic tape, so construction is abstracted to "remember the seed".
fn source_new_stub(seed: [u8; 32]) -> Source {
    unsafe {
        LAST_SEED = seed;
        core::mem::zeroed()
    }
}
fn tape_next_u64(_rng: &mut rand_chacha::ChaCha8Rng) -> Result<u64, core::convert::Infallible> {
    unsafe {
        let v: u64 = kani::any();
        if DRAWS < 8 {
            TAPE[DRAWS] = v;
        }
        DRAWS += 1;
        Ok(v)
    }
}

#[kani::proof]
#[kani::unwind(4)]
#[kani::stub(<rand_chacha::ChaCha8Rng as rand_core::TryRng>::try_next_u64, tape_next_u64)]
#[kani::stub(crate::source::Source::new, source_new_stub)]
fn c06_next_u64n_power_of_two() {
    let mut s = Source::new([0u8; 32]);
    let b: u32 = kani::any();
    kani::assume(b >= 1 && b <= 63);
    let max: u64 = 1u64 << b;
    let mask: u64 = max - 1;
    let x = s.next_u64n(max, mask);
    unsafe {
        assert!(DRAWS == 1, "C06:exactly one draw when max = mask + 1 (no rejection)");
        assert!(x == TAPE[0] & mask && x < max, "C06:result is the low b bits of the draw");
    }
}

#[kani::proof]
#[kani::unwind(6)]
#[kani::stub(<rand_chacha::ChaCha8Rng as rand_core::TryRng>::try_next_u64, tape_next_u64)]
#[kani::stub(crate::source::Source::new, source_new_stub)]
fn c06_vec_znx_fill_uniform__n2_size2() {
    let mut s = Source::new([0u8; 32]);
    let mut v: VecZnx<Vec<u8>> = VecZnx::alloc(2, 1, 2);
    let lb: usize = kani::any();
    kani::assume(lb >= 1 && lb <= 63);
    v.fill_uniform(lb, &mut s);
    let half: i64 = 1i64 << (lb - 1);
    let mask: u64 = (1u64 << lb) - 1;
    unsafe {
        assert!(DRAWS == 4, "C06:one draw per coefficient");
        let mut i = 0;
        while i < 4 {
            let x = v.raw()[i];
            assert!(x >= -half && x < half, "C06:uniform limb range [-2^(b-1), 2^(b-1))");
            // two's complement reinterpretation of the low b bits: a bijection from the b low bits of the draw onto the range
            assert!((x as u64) & mask == TAPE[i] & mask, "C06:digit determined by exactly the low b bits of draw i");
            i += 1;
        }
    }
}
