// Harnesses mounted at the end of poulpy-hal/src/layouts/encoding.rs (cfg(kani)).
include!(concat!(env!("POULPY_VERIF_KX"), "/common.rs"));
use super::*;
use crate::layouts::{VecZnx, ZnxView, ZnxViewMut};

// ------------------------------------------------------------------------------------------------
// C08 — integer encoding (poulpy-hal/src/layouts/encoding.rs): encode places the value at precision k on balanced digits,
//   decode inverts it.  Bounded in shape (N = 2, 3 limbs, radix B per harness); complete in k, the value and the index.
// ------------------------------------------------------------------------------------------------

fn balanced_and_value<const B: usize>(v: &VecZnx<Vec<u8>>, idx: usize, k: usize, data: i64) {
    let size = k.div_ceil(B);
    let half: i64 = 1i64 << (B - 1);
    let mut acc: i128 = 0;
    let mut j = 0;
    while j < 3 {
        let d = v.at(0, j)[idx];
        if j < size {
            assert!(d >= -half && d < half, "C08:encode leaves balanced digits");
            acc = (acc << B) + d as i128;
        } else {
            assert!(d == 0, "C08:limbs past ceil(k/b) are zero after encode");
        }
        j += 1;
    }
    // sum_j limb[j] * 2^((size-1-j)*B) == data * 2^(size*B - k)   (same torus element data * 2^-k)
    // (the torus is R/Z: equality modulo 2^(size*B); the top digit wraps when the balanced expansion does not fit)
    let m: i128 = 1i128 << (size * B);
    assert!((acc - ((data as i128) << (size * B - k))).rem_euclid(m) == 0, "C08:encoded torus value == data * 2^-k (mod 1)");
    if k >= 2 && data > -(1i64 << (k - 2)) && data < (1i64 << (k - 2)) {
        assert!(acc == (data as i128) << (size * B - k), "C08:encoding is exact (no wrap) for |v| < 2^(k-2)");
    }
}

fn coeff_case<const B: usize>(k: usize) {
    let mut v: VecZnx<Vec<u8>> = VecZnx::alloc(2, 1, 3);
    // stale receiver contents must not matter
    let stale: [i64; 6] = kani::any();
    let mut q = 0;
    while q < 6 {
        v.raw_mut()[q] = stale[q];
        q += 1;
    }
    assert!(k >= 1 && k <= 3 * B);
    let idx: usize = kani::any();
    kani::assume(idx < 2);
    let data: i64 = kani::any();
    kani::assume(data >= -(1i64 << (k - 1)) && data < (1i64 << (k - 1)));
    v.encode_coeff_i64(B, 0, k, idx, data);
    balanced_and_value::<B>(&v, idx, k, data);
    // the other coefficient keeps its (stale) content: encode_coeff touches only index idx
    let mut j = 0;
    while j < 3 {
        assert!(v.at(0, j)[1 - idx] == stale[2 * j + (1 - idx)], "C08:encode_coeff_i64 leaves the other coefficients alone");
        j += 1;
    }
    let back = v.decode_coeff_i64(B, 0, k, idx);
    assert!((back as i128 - data as i128).rem_euclid(1i128 << k) == 0, "C08:decode_coeff_i64(encode_coeff_i64(x)) == x mod 2^k");
    if k >= 2 && data > -(1i64 << (k - 2)) && data < (1i64 << (k - 2)) {
        assert!(back == data, "C08:decode_coeff_i64(encode_coeff_i64(x)) == x exactly for |x| < 2^(k-2)");
    }
    kani::cover!(data < 0, "C08:reachable, negative value");
}

fn vec_case<const B: usize>(k: usize) {
    let mut v: VecZnx<Vec<u8>> = VecZnx::alloc(2, 1, 3);
    let stale: [i64; 6] = kani::any();
    let mut q = 0;
    while q < 6 {
        v.raw_mut()[q] = stale[q];
        q += 1;
    }
    assert!(k >= 1 && k <= 3 * B);
    let data: [i64; 2] = kani::any();
    kani::assume(data[0] >= -(1i64 << (k - 1)) && data[0] < (1i64 << (k - 1)));
    kani::assume(data[1] >= -(1i64 << (k - 1)) && data[1] < (1i64 << (k - 1)));
    v.encode_vec_i64(B, 0, k, &data);
    balanced_and_value::<B>(&v, 0, k, data[0]);
    balanced_and_value::<B>(&v, 1, k, data[1]);
    let mut back = [0i64; 2];
    v.decode_vec_i64(B, 0, k, &mut back);
    let mut c = 0;
    while c < 2 {
        assert!((back[c] as i128 - data[c] as i128).rem_euclid(1i128 << k) == 0, "C08:decode_vec_i64(encode_vec_i64(x)) == x mod 2^k");
        if k >= 2 && data[c] > -(1i64 << (k - 2)) && data[c] < (1i64 << (k - 2)) {
            assert!(back[c] == data[c], "C08:decode_vec_i64(encode_vec_i64(x)) == x exactly for |x| < 2^(k-2)");
        }
        c += 1;
    }
    kani::cover!(data[1] < 0, "C08:reachable, negative value");
}

fn vec128_case<const B: usize>(k: usize) {
    let mut v: VecZnx<Vec<u8>> = VecZnx::alloc(2, 1, 3);
    let stale: [i64; 6] = kani::any();
    let mut q = 0;
    while q < 6 {
        v.raw_mut()[q] = stale[q];
        q += 1;
    }
    assert!(k >= 1 && k <= 3 * B);
    let d0: i64 = kani::any();
    let d1: i64 = kani::any();
    kani::assume(d0 >= -(1i64 << (k - 1)) && d0 < (1i64 << (k - 1)));
    kani::assume(d1 >= -(1i64 << (k - 1)) && d1 < (1i64 << (k - 1)));
    let data: [i128; 2] = [d0 as i128, d1 as i128];
    v.encode_vec_i128(B, 0, k, &data);
    balanced_and_value::<B>(&v, 0, k, d0);
    balanced_and_value::<B>(&v, 1, k, d1);
    let mut back = [0i128; 2];
    v.decode_vec_i128(B, 0, k, &mut back);
    let mut c = 0;
    while c < 2 {
        assert!((back[c] - data[c]).rem_euclid(1i128 << k) == 0, "C08:decode_vec_i128(encode_vec_i128(x)) == x mod 2^k");
        if k >= 2 && data[c] > -(1i128 << (k - 2)) && data[c] < (1i128 << (k - 2)) {
            assert!(back[c] == data[c], "C08:decode_vec_i128(encode_vec_i128(x)) == x exactly for |x| < 2^(k-2)");
        }
        c += 1;
    }
}

// one harness per (radix, precision): k is a constant so that limb counts and shift amounts fold; value and index stay symbolic
macro_rules! enc_harness {
    ($name:ident, $b:expr, $k:expr) => {
        #[kani::proof]
        #[kani::unwind(8)]
        #[kani::stub(alloc::fmt::format, fmt_stub)]
        fn $name() {
            coeff_case::<$b>($k);
            vec_case::<$b>($k);
            vec128_case::<$b>($k);
        }
    };
}
enc_harness!(c08_encode_round_trip__b3_k1, 3, 1);
enc_harness!(c08_encode_round_trip__b3_k2, 3, 2);
enc_harness!(c08_encode_round_trip__b3_k3, 3, 3);
enc_harness!(c08_encode_round_trip__b3_k4, 3, 4);
enc_harness!(c08_encode_round_trip__b3_k5, 3, 5);
enc_harness!(c08_encode_round_trip__b3_k6, 3, 6);
enc_harness!(c08_encode_round_trip__b3_k7, 3, 7);
enc_harness!(c08_encode_round_trip__b3_k8, 3, 8);
enc_harness!(c08_encode_round_trip__b3_k9, 3, 9);
enc_harness!(c08_encode_round_trip__b16_k1, 16, 1);
enc_harness!(c08_encode_round_trip__b16_k15, 16, 15);
enc_harness!(c08_encode_round_trip__b16_k16, 16, 16);
enc_harness!(c08_encode_round_trip__b16_k17, 16, 17);
enc_harness!(c08_encode_round_trip__b16_k32, 16, 32);
enc_harness!(c08_encode_round_trip__b16_k33, 16, 33);
enc_harness!(c08_encode_round_trip__b16_k47, 16, 47);
enc_harness!(c08_encode_round_trip__b16_k48, 16, 48);

// div_round: nearest integer, ties away from zero, for every dividend and every power-of-two divisor used by decode
#[kani::proof]
fn c08_div_round_i64_pow2() {
    let a: i64 = kani::any();
    let s: u32 = kani::any();
    kani::assume(s <= 61);
    let b: i64 = 1i64 << s;
    kani::assume(a > i64::MIN + b && a < i64::MAX - b);
    let r = div_round_i64(a, b);
    // |a - r*b| <= b/2, and on a tie the result is the one further from zero
    let diff: i128 = a as i128 - (r as i128) * (b as i128);
    assert!(2 * diff.abs() <= b as i128, "C08:div_round_i64 is a nearest integer");
    if 2 * diff.abs() == b as i128 && s > 0 {
        assert!((a >= 0) == (diff < 0), "C08:div_round_i64 rounds ties away from zero");
    }
}

