// C10 — AVX2 kernels are bit-identical to the reference kernels: both REAL functions run on the same symbolic inputs.
// Mounted in poulpy-cpu-avx/src/lib.rs under cfg(kani) (the crate's `znx_avx` module is mounted there too because the
// `enable-avx` feature cannot be switched on under cargo-kani).  Lengths are constants (bounded), values full domain.
include!(concat!(env!("POULPY_VERIF_KX"), "/common.rs"));
#[allow(unused_imports)]
use crate::znx_avx::*;
#[allow(unused_imports)]
use poulpy_cpu_ref::reference::znx::*;
use std::arch::x86_64::__m256i;

// ---- lane-wise models of the four intrinsics Kani cannot interpret (Intel SDM semantics) — trusted base ----
fn lanes(x: __m256i) -> [u64; 4] { unsafe { std::mem::transmute(x) } }
fn pack(x: [u64; 4]) -> __m256i { unsafe { std::mem::transmute(x) } }
fn srlv_stub(a: __m256i, c: __m256i) -> __m256i { let (a, c) = (lanes(a), lanes(c)); let mut r = [0u64; 4]; let mut i = 0; while i < 4 { r[i] = if c[i] < 64 { a[i] >> c[i] } else { 0 }; i += 1; } pack(r) }
fn sllv_stub(a: __m256i, c: __m256i) -> __m256i { let (a, c) = (lanes(a), lanes(c)); let mut r = [0u64; 4]; let mut i = 0; while i < 4 { r[i] = if c[i] < 64 { a[i] << c[i] } else { 0 }; i += 1; } pack(r) }
fn add_stub(a: __m256i, b: __m256i) -> __m256i { let (a, b) = (lanes(a), lanes(b)); let mut r = [0u64; 4]; let mut i = 0; while i < 4 { r[i] = a[i].wrapping_add(b[i]); i += 1; } pack(r) }
fn sub_stub(a: __m256i, b: __m256i) -> __m256i { let (a, b) = (lanes(a), lanes(b)); let mut r = [0u64; 4]; let mut i = 0; while i < 4 { r[i] = a[i].wrapping_sub(b[i]); i += 1; } pack(r) }

// _mm256_sll_epi64 / _mm256_srl_epi64: all lanes shifted by the low 64 bits of the count register (0 when count > 63)
fn sll_stub(a: __m256i, count: std::arch::x86_64::__m128i) -> __m256i {
    let c: [u64; 2] = unsafe { std::mem::transmute(count) };
    let a = lanes(a);
    let mut r = [0u64; 4];
    let mut i = 0;
    while i < 4 { r[i] = if c[0] < 64 { a[i] << c[0] } else { 0 }; i += 1; }
    pack(r)
}
fn srl_stub(a: __m256i, count: std::arch::x86_64::__m128i) -> __m256i {
    let c: [u64; 2] = unsafe { std::mem::transmute(count) };
    let a = lanes(a);
    let mut r = [0u64; 4];
    let mut i = 0;
    while i < 4 { r[i] = if c[0] < 64 { a[i] >> c[0] } else { 0 }; i += 1; }
    pack(r)
}
// _mm256_i64gather_epi64::<SCALE>(base, idx): four loads base + idx[i]*SCALE bytes (the harness' pointer checks apply)
unsafe fn gather_stub<const SCALE: i32>(base: *const i64, idx: __m256i) -> __m256i {
    let ix: [i64; 4] = unsafe { std::mem::transmute(idx) };
    let mut r = [0u64; 4];
    let mut i = 0;
    while i < 4 {
        r[i] = unsafe { *((base as *const u8).offset((ix[i] as isize) * (SCALE as isize)) as *const i64) } as u64;
        i += 1;
    }
    pack(r)
}
fn eq<const L: usize>(a: &[i64; L], b: &[i64; L]) -> bool {
    let mut i = 0;
    while i < L {
        if a[i] != b[i] {
            return false;
        }
        i += 1;
    }
    true
}

const H62: i64 = 1i64 << 62;
const H61: i64 = 1i64 << 61;
fn arr<const L: usize>(h: i64) -> [i64; L] {
    let a: [i64; L] = kani::any();
    let mut q = 0;
    while q < L {
        kani::assume(a[q] >= -h && a[q] <= h);
        q += 1;
    }
    a
}

macro_rules! avx_harness {
    ($name:ident, $body:expr) => {
        #[kani::proof]
        #[kani::unwind(20)]
        #[kani::stub(alloc::fmt::format, fmt_stub)]
        #[kani::stub(std::arch::x86_64::_mm256_srlv_epi64, srlv_stub)]
        #[kani::stub(std::arch::x86_64::_mm256_sllv_epi64, sllv_stub)]
        #[kani::stub(std::arch::x86_64::_mm256_add_epi64, add_stub)]
        #[kani::stub(std::arch::x86_64::_mm256_sub_epi64, sub_stub)]
        #[kani::stub(std::arch::x86_64::_mm256_sll_epi64, sll_stub)]
        #[kani::stub(std::arch::x86_64::_mm256_srl_epi64, srl_stub)]
        #[kani::stub(std::arch::x86_64::_mm256_i64gather_epi64, gather_stub)]
        fn $name() {
            $body
        }
    };
}

// ---- add / sub / negate families: lengths 5 (one SIMD block + tail) and 9 (two blocks + tail) ----
fn add_family<const L: usize>() {
    let (a, b, r0): ([i64; L], [i64; L], [i64; L]) = (arr::<L>(H61), arr::<L>(H61), arr::<L>(H61));
    let (mut x, mut y) = ([0i64; L], [0i64; L]);
    unsafe { znx_add_avx(&mut x, &a, &b) };
    znx_add_ref(&mut y, &a, &b);
    assert!(eq(&x, &y), "C10:znx_add");
    unsafe { znx_sub_avx(&mut x, &a, &b) };
    znx_sub_ref(&mut y, &a, &b);
    assert!(eq(&x, &y), "C10:znx_sub");
    let (mut x, mut y) = (r0, r0);
    unsafe { znx_add_assign_avx(&mut x, &a) };
    znx_add_assign_ref(&mut y, &a);
    assert!(eq(&x, &y), "C10:znx_add_assign");
    let (mut x, mut y) = (r0, r0);
    unsafe { znx_sub_assign_avx(&mut x, &a) };
    znx_sub_assign_ref(&mut y, &a);
    assert!(eq(&x, &y), "C10:znx_sub_assign");
    let (mut x, mut y) = (r0, r0);
    unsafe { znx_sub_negate_assign_avx(&mut x, &a) };
    znx_sub_negate_assign_ref(&mut y, &a);
    assert!(eq(&x, &y), "C10:znx_sub_negate_assign");
    let (mut x, mut y) = ([0i64; L], [0i64; L]);
    unsafe { znx_negate_avx(&mut x, &a) };
    znx_negate_ref(&mut y, &a);
    assert!(eq(&x, &y), "C10:znx_negate");
    let (mut x, mut y) = (a, a);
    unsafe { znx_negate_assign_avx(&mut x) };
    znx_negate_assign_ref(&mut y);
    assert!(eq(&x, &y), "C10:znx_negate_assign");
}
avx_harness!(c10_add_family__len5, add_family::<5>());
avx_harness!(c10_add_family__len9, add_family::<9>());
avx_harness!(c10_add_family__len3, add_family::<3>());

// ---- multiplication by a power of two (round-half-up division for k < 0) ----
fn mul_pow2_family<const L: usize>() {
    let k: i64 = kani::any();
    kani::assume(k >= -62 && k <= 20);
    let a: [i64; L] = arr::<L>(1i64 << 40);
    let r0: [i64; L] = arr::<L>(H61);
    let (mut x, mut y) = ([0i64; L], [0i64; L]);
    unsafe { znx_mul_power_of_two_avx(k, &mut x, &a) };
    znx_mul_power_of_two_ref(k, &mut y, &a);
    assert!(eq(&x, &y), "C10:znx_mul_power_of_two");
    let (mut x, mut y) = (a, a);
    unsafe { znx_mul_power_of_two_assign_avx(k, &mut x) };
    znx_mul_power_of_two_assign_ref(k, &mut y);
    assert!(eq(&x, &y), "C10:znx_mul_power_of_two_assign");
    let (mut x, mut y) = (r0, r0);
    unsafe { znx_mul_add_power_of_two_avx(k, &mut x, &a) };
    znx_mul_add_power_of_two_ref(k, &mut y, &a);
    assert!(eq(&x, &y), "C10:znx_mul_add_power_of_two");
}
avx_harness!(c10_mul_pow2__len5, mul_pow2_family::<5>());

// ---- ring switch ----
fn switch_ring_pair<const LI: usize, const LO: usize>() {
    let a: [i64; LI] = kani::any();
    let r0: [i64; LO] = kani::any();
    let (mut x, mut y) = (r0, r0);
    unsafe { znx_switch_ring_avx(&mut x, &a) };
    znx_switch_ring_ref(&mut y, &a);
    assert!(eq(&x, &y), "C10:znx_switch_ring");
}
avx_harness!(c10_switch_ring__8_to_8, switch_ring_pair::<8, 8>());
avx_harness!(c10_switch_ring__16_to_8, switch_ring_pair::<16, 8>());
avx_harness!(c10_switch_ring__8_to_16, switch_ring_pair::<8, 16>());
avx_harness!(c10_switch_ring__4_to_16, switch_ring_pair::<4, 16>());

// ---- normalisation step kernels: radix constant, lsh symbolic, length 5 ----
fn norm_first<const L: usize>(b: usize) {
    let lsh: usize = kani::any();
    kani::assume(lsh < b);
    let a: [i64; L] = arr::<L>(H62);
    let c0: [i64; L] = arr::<L>(H61);
    let x0: [i64; L] = arr::<L>(H61);
    macro_rules! cmp2 { ($avx:expr, $rf:expr, $msg:expr) => {{
        let (mut x1, mut c1) = (x0, c0);
        let (mut x2, mut c2) = (x0, c0);
        #[allow(unused_unsafe)]
        unsafe { $avx(&mut x1, &mut c1) };
        $rf(&mut x2, &mut c2);
        assert!(eq(&x1, &x2) && eq(&c1, &c2), $msg);
    }}; }
    cmp2!(|x: &mut [i64; L], c: &mut [i64; L]| znx_normalize_first_step_carry_only_avx(b, lsh, &a, c), |x: &mut [i64; L], c: &mut [i64; L]| znx_normalize_first_step_carry_only_ref(b, lsh, &a, c), "C10:first_step_carry_only");
    cmp2!(|x: &mut [i64; L], c: &mut [i64; L]| { *x = a; znx_normalize_first_step_assign_avx(b, lsh, x, c) }, |x: &mut [i64; L], c: &mut [i64; L]| { *x = a; znx_normalize_first_step_assign_ref(b, lsh, x, c) }, "C10:first_step_assign");
    cmp2!(|x: &mut [i64; L], c: &mut [i64; L]| znx_normalize_first_step_avx::<true>(b, lsh, x, &a, c), |x: &mut [i64; L], c: &mut [i64; L]| znx_normalize_first_step_ref::<true>(b, lsh, x, &a, c), "C10:first_step<true>");
    cmp2!(|x: &mut [i64; L], c: &mut [i64; L]| znx_normalize_first_step_avx::<false>(b, lsh, x, &a, c), |x: &mut [i64; L], c: &mut [i64; L]| znx_normalize_first_step_ref::<false>(b, lsh, x, &a, c), "C10:first_step<false>");
}

fn norm_middle<const L: usize>(b: usize) {
    let lsh: usize = kani::any();
    kani::assume(lsh < b);
    let a: [i64; L] = arr::<L>(H62);
    let c0: [i64; L] = arr::<L>(H61);
    let x0: [i64; L] = arr::<L>(H61);
    macro_rules! cmp2 { ($avx:expr, $rf:expr, $msg:expr) => {{
        let (mut x1, mut c1) = (x0, c0);
        let (mut x2, mut c2) = (x0, c0);
        #[allow(unused_unsafe)]
        unsafe { $avx(&mut x1, &mut c1) };
        $rf(&mut x2, &mut c2);
        assert!(eq(&x1, &x2) && eq(&c1, &c2), $msg);
    }}; }
    cmp2!(|x: &mut [i64; L], c: &mut [i64; L]| znx_normalize_middle_step_carry_only_avx(b, lsh, &a, c), |x: &mut [i64; L], c: &mut [i64; L]| znx_normalize_middle_step_carry_only_ref(b, lsh, &a, c), "C10:middle_step_carry_only");
    cmp2!(|x: &mut [i64; L], c: &mut [i64; L]| { *x = a; znx_normalize_middle_step_assign_avx(b, lsh, x, c) }, |x: &mut [i64; L], c: &mut [i64; L]| { *x = a; znx_normalize_middle_step_assign_ref(b, lsh, x, c) }, "C10:middle_step_assign");
    cmp2!(|x: &mut [i64; L], c: &mut [i64; L]| znx_normalize_middle_step_avx::<true>(b, lsh, x, &a, c), |x: &mut [i64; L], c: &mut [i64; L]| znx_normalize_middle_step_ref::<true>(b, lsh, x, &a, c), "C10:middle_step<true>");
    cmp2!(|x: &mut [i64; L], c: &mut [i64; L]| znx_normalize_middle_step_avx::<false>(b, lsh, x, &a, c), |x: &mut [i64; L], c: &mut [i64; L]| znx_normalize_middle_step_ref::<false>(b, lsh, x, &a, c), "C10:middle_step<false>");
    cmp2!(|x: &mut [i64; L], c: &mut [i64; L]| znx_normalize_middle_step_sub_avx(b, lsh, x, &a, c), |x: &mut [i64; L], c: &mut [i64; L]| znx_normalize_middle_step_sub_ref(b, lsh, x, &a, c), "C10:middle_step_sub");
}

fn norm_final<const L: usize>(b: usize) {
    let lsh: usize = kani::any();
    kani::assume(lsh < b);
    let a: [i64; L] = arr::<L>(H62);
    let c0: [i64; L] = arr::<L>(H61);
    let x0: [i64; L] = arr::<L>(H61);
    macro_rules! cmp2 { ($avx:expr, $rf:expr, $msg:expr) => {{
        let (mut x1, mut c1) = (x0, c0);
        let (mut x2, mut c2) = (x0, c0);
        #[allow(unused_unsafe)]
        unsafe { $avx(&mut x1, &mut c1) };
        $rf(&mut x2, &mut c2);
        assert!(eq(&x1, &x2) && eq(&c1, &c2), $msg);
    }}; }
    cmp2!(|x: &mut [i64; L], c: &mut [i64; L]| { *x = a; znx_normalize_final_step_assign_avx(b, lsh, x, c) }, |x: &mut [i64; L], c: &mut [i64; L]| { *x = a; znx_normalize_final_step_assign_ref(b, lsh, x, c) }, "C10:final_step_assign");
    cmp2!(|x: &mut [i64; L], c: &mut [i64; L]| znx_normalize_final_step_avx::<true>(b, lsh, x, &a, c), |x: &mut [i64; L], c: &mut [i64; L]| znx_normalize_final_step_ref::<true>(b, lsh, x, &a, c), "C10:final_step<true>");
    cmp2!(|x: &mut [i64; L], c: &mut [i64; L]| znx_normalize_final_step_avx::<false>(b, lsh, x, &a, c), |x: &mut [i64; L], c: &mut [i64; L]| znx_normalize_final_step_ref::<false>(b, lsh, x, &a, c), "C10:final_step<false>");
    cmp2!(|x: &mut [i64; L], c: &mut [i64; L]| znx_normalize_final_step_sub_avx(b, lsh, x, &a, c), |x: &mut [i64; L], c: &mut [i64; L]| znx_normalize_final_step_sub_ref(b, lsh, x, &a, c), "C10:final_step_sub");
}

avx_harness!(c10_norm_first__b17_len5, norm_first::<5>(17));
avx_harness!(c10_norm_middle__b17_len5, norm_middle::<5>(17));
avx_harness!(c10_norm_final__b17_len5, norm_final::<5>(17));

avx_harness!(c10_norm_first__b1_len5, norm_first::<5>(1));
avx_harness!(c10_norm_middle__b1_len5, norm_middle::<5>(1));
avx_harness!(c10_norm_final__b1_len5, norm_final::<5>(1));

avx_harness!(c10_norm_first__b52_len5, norm_first::<5>(52));
avx_harness!(c10_norm_middle__b52_len5, norm_middle::<5>(52));
avx_harness!(c10_norm_final__b52_len5, norm_final::<5>(52));

avx_harness!(c10_norm_first__b62_len5, norm_first::<5>(62));
avx_harness!(c10_norm_middle__b62_len5, norm_middle::<5>(62));
avx_harness!(c10_norm_final__b62_len5, norm_final::<5>(62));


fn digit_family<const L: usize>(b: usize) {
    let sh: usize = kani::any();
    kani::assume(sh <= 62 && sh + b <= 62);
    let r0: [i64; L] = arr::<L>(H61);
    let s0: [i64; L] = arr::<L>(H62);
    let (mut r1, mut s1) = (r0, s0);
    let (mut r2, mut s2) = (r0, s0);
    unsafe { znx_extract_digit_addmul_avx(b, sh, &mut r1, &mut s1) };
    znx_extract_digit_addmul_ref(b, sh, &mut r2, &mut s2);
    assert!(eq(&r1, &r2) && eq(&s1, &s2), "C10:extract_digit_addmul");
    let (mut r1, mut s1) = (s0, r0);
    let (mut r2, mut s2) = (s0, r0);
    unsafe { znx_normalize_digit_avx(b, &mut r1, &mut s1) };
    znx_normalize_digit_ref(b, &mut r2, &mut s2);
    assert!(eq(&r1, &r2) && eq(&s1, &s2), "C10:normalize_digit");
}
avx_harness!(c10_digit__b17_len5, digit_family::<5>(17));
avx_harness!(c10_digit__b52_len5, digit_family::<5>(52));
