// C10 — AVX2 kernels are bit-identical to the reference kernels: both REAL functions run on the same symbolic inputs.
// Mounted in poulpy-cpu-avx/src/lib.rs under cfg(kani) (the crate's `znx_avx` module is mounted there too because the
// `enable-avx` feature cannot be switched on under cargo-kani).  Lengths are constants (bounded), values full domain.
include!(concat!(env!("POULPY_VERIF_KX"), "/common.rs"));
#[allow(unused_imports)]
use crate::znx_avx::*;
#[allow(unused_imports)]
use poulpy_cpu_ref::reference::znx::*;
use std::arch::x86_64::__m256i;

// ---- lane-wise models of the four intrinsics Kani cannot interpret (Intel SDM semantics) — trusted base ----
fn lanes(x: __m256i) -> [u64; 4] { unsafe { std::mem::transmute(x) } }
fn pack(x: [u64; 4]) -> __m256i { unsafe { std::mem::transmute(x) } }
fn srlv_stub(a: __m256i, c: __m256i) -> __m256i { let (a, c) = (lanes(a), lanes(c)); let mut r = [0u64; 4]; let mut i = 0; while i < 4 { r[i] = if c[i] < 64 { a[i] >> c[i] } else { 0 }; i += 1; } pack(r) }
fn sllv_stub(a: __m256i, c: __m256i) -> __m256i { let (a, c) = (lanes(a), lanes(c)); let mut r = [0u64; 4]; let mut i = 0; while i < 4 { r[i] = if c[i] < 64 { a[i] << c[i] } else { 0 }; i += 1; } pack(r) }
fn add_stub(a: __m256i, b: __m256i) -> __m256i { let (a, b) = (lanes(a), lanes(b)); let mut r = [0u64; 4]; let mut i = 0; while i < 4 { r[i] = a[i].wrapping_add(b[i]); i += 1; } pack(r) }
fn sub_stub(a: __m256i, b: __m256i) -> __m256i { let (a, b) = (lanes(a), lanes(b)); let mut r = [0u64; 4]; let mut i = 0; while i < 4 { r[i] = a[i].wrapping_sub(b[i]); i += 1; } pack(r) }

// _mm256_sll_epi64 / _mm256_srl_epi64: all lanes shifted by the low 64 bits of the count register (0 when count > 63)
fn sll_stub(a: __m256i, count: std::arch::x86_64::__m128i) -> __m256i {
    let c: [u64; 2] = unsafe { std::mem::transmute(count) };
    let a = lanes(a);
    let mut r = [0u64; 4];
    let mut i = 0;
    while i < 4 { r[i] = if c[0] < 64 { a[i] << c[0] } else { 0 }; i += 1; }
    pack(r)
}
fn srl_stub(a: __m256i, count: std::arch::x86_64::__m128i) -> __m256i {
    let c: [u64; 2] = unsafe { std::mem::transmute(count) };
    let a = lanes(a);
    let mut r = [0u64; 4];
    let mut i = 0;
    while i < 4 { r[i] = if c[0] < 64 { a[i] >> c[0] } else { 0 }; i += 1; }
    pack(r)
}
// _mm256_i64gather_epi64::<SCALE>(base, idx): four loads base + idx[i]*SCALE bytes (the harness' pointer checks apply)
unsafe fn gather_stub<const SCALE: i32>(base: *const i64, idx: __m256i) -> __m256i {
    let ix: [i64; 4] = unsafe { std::mem::transmute(idx) };
    let mut r = [0u64; 4];
    let mut i = 0;
    while i < 4 {
        r[i] = unsafe { *((base as *const u8).offset((ix[i] as isize) * (SCALE as isize)) as *const i64) } as u64;
        i += 1;
    }
    pack(r)
}

// _mm256_mul_epi32: signed product of the LOW 32 bits of each 64-bit lane (pmuldq)
fn mul_epi32_stub(a: __m256i, b: __m256i) -> __m256i {
    let (a, b) = (lanes(a), lanes(b));
    let mut r = [0u64; 4];
    let mut i = 0;
    while i < 4 { r[i] = ((a[i] as u32 as i32 as i64).wrapping_mul(b[i] as u32 as i32 as i64)) as u64; i += 1; }
    pack(r)
}
// _mm256_set1_epi32: the 32-bit value in all eight 32-bit lanes
fn set1_epi32_stub(x: i32) -> __m256i { let w = x as u32 as u64; let v = w | (w << 32); pack([v, v, v, v]) }
fn eq<const L: usize>(a: &[i64; L], b: &[i64; L]) -> bool {
    let mut i = 0;
    while i < L {
        if a[i] != b[i] {
            return false;
        }
        i += 1;
    }
    true
}

const H62: i64 = 1i64 << 62;
const H61: i64 = 1i64 << 61;
fn arr<const L: usize>(h: i64) -> [i64; L] {
    let a: [i64; L] = kani::any();
    let mut q = 0;
    while q < L {
        kani::assume(a[q] >= -h && a[q] <= h);
        q += 1;
    }
    a
}

macro_rules! avx_harness {
    ($name:ident, $body:expr) => {
        #[kani::proof]
        #[kani::unwind(20)]
        #[kani::stub(alloc::fmt::format, fmt_stub)]
        #[kani::stub(std::arch::x86_64::_mm256_srlv_epi64, srlv_stub)]
        #[kani::stub(std::arch::x86_64::_mm256_sllv_epi64, sllv_stub)]
        #[kani::stub(std::arch::x86_64::_mm256_add_epi64, add_stub)]
        #[kani::stub(std::arch::x86_64::_mm256_sub_epi64, sub_stub)]
        #[kani::stub(std::arch::x86_64::_mm256_sll_epi64, sll_stub)]
        #[kani::stub(std::arch::x86_64::_mm256_srl_epi64, srl_stub)]
        #[kani::stub(std::arch::x86_64::_mm256_i64gather_epi64, gather_stub)]
        #[kani::stub(std::arch::x86_64::_mm256_mul_epi32, mul_epi32_stub)]
        #[kani::stub(std::arch::x86_64::_mm256_set1_epi32, set1_epi32_stub)]
        fn $name() {
            $body
        }
    };
}

macro_rules! avx_harness_u80 {
    ($name:ident, $body:expr) => {
        #[kani::proof]
        #[kani::unwind(100)]
        #[kani::stub(alloc::fmt::format, fmt_stub)]
        #[kani::stub(std::arch::x86_64::_mm256_srlv_epi64, srlv_stub)]
        #[kani::stub(std::arch::x86_64::_mm256_sllv_epi64, sllv_stub)]
        #[kani::stub(std::arch::x86_64::_mm256_add_epi64, add_stub)]
        #[kani::stub(std::arch::x86_64::_mm256_sub_epi64, sub_stub)]
        #[kani::stub(std::arch::x86_64::_mm256_sll_epi64, sll_stub)]
        #[kani::stub(std::arch::x86_64::_mm256_srl_epi64, srl_stub)]
        #[kani::stub(std::arch::x86_64::_mm256_i64gather_epi64, gather_stub)]
        #[kani::stub(std::arch::x86_64::_mm256_mul_epi32, mul_epi32_stub)]
        #[kani::stub(std::arch::x86_64::_mm256_set1_epi32, set1_epi32_stub)]
        fn $name() {
            $body
        }
    };
}

// ---- add / sub / negate families: lengths 5 (one SIMD block + tail) and 9 (two blocks + tail) ----
fn add_family<const L: usize>() {
    let (a, b, r0): ([i64; L], [i64; L], [i64; L]) = (arr::<L>(H61), arr::<L>(H61), arr::<L>(H61));
    let (mut x, mut y) = ([0i64; L], [0i64; L]);
    unsafe { znx_add_avx(&mut x, &a, &b) };
    znx_add_ref(&mut y, &a, &b);
    assert!(eq(&x, &y), "C10:znx_add");
    unsafe { znx_sub_avx(&mut x, &a, &b) };
    znx_sub_ref(&mut y, &a, &b);
    assert!(eq(&x, &y), "C10:znx_sub");
    let (mut x, mut y) = (r0, r0);
    unsafe { znx_add_assign_avx(&mut x, &a) };
    znx_add_assign_ref(&mut y, &a);
    assert!(eq(&x, &y), "C10:znx_add_assign");
    let (mut x, mut y) = (r0, r0);
    unsafe { znx_sub_assign_avx(&mut x, &a) };
    znx_sub_assign_ref(&mut y, &a);
    assert!(eq(&x, &y), "C10:znx_sub_assign");
    let (mut x, mut y) = (r0, r0);
    unsafe { znx_sub_negate_assign_avx(&mut x, &a) };
    znx_sub_negate_assign_ref(&mut y, &a);
    assert!(eq(&x, &y), "C10:znx_sub_negate_assign");
    let (mut x, mut y) = ([0i64; L], [0i64; L]);
    unsafe { znx_negate_avx(&mut x, &a) };
    znx_negate_ref(&mut y, &a);
    assert!(eq(&x, &y), "C10:znx_negate");
    let (mut x, mut y) = (a, a);
    unsafe { znx_negate_assign_avx(&mut x) };
    znx_negate_assign_ref(&mut y);
    assert!(eq(&x, &y), "C10:znx_negate_assign");
}
avx_harness!(c10_add_family__len5, add_family::<5>());
avx_harness!(c10_add_family__len9, add_family::<9>());
avx_harness!(c10_add_family__len3, add_family::<3>());

// ---- multiplication by a power of two (round-half-up division for k < 0) ----
fn mul_pow2_family<const L: usize>() {
    let k: i64 = kani::any();
    kani::assume(k >= -62 && k <= 20);
    let a: [i64; L] = arr::<L>(1i64 << 40);
    let r0: [i64; L] = arr::<L>(H61);
    let (mut x, mut y) = ([0i64; L], [0i64; L]);
    unsafe { znx_mul_power_of_two_avx(k, &mut x, &a) };
    znx_mul_power_of_two_ref(k, &mut y, &a);
    assert!(eq(&x, &y), "C10:znx_mul_power_of_two");
    let (mut x, mut y) = (a, a);
    unsafe { znx_mul_power_of_two_assign_avx(k, &mut x) };
    znx_mul_power_of_two_assign_ref(k, &mut y);
    assert!(eq(&x, &y), "C10:znx_mul_power_of_two_assign");
    let (mut x, mut y) = (r0, r0);
    unsafe { znx_mul_add_power_of_two_avx(k, &mut x, &a) };
    znx_mul_add_power_of_two_ref(k, &mut y, &a);
    assert!(eq(&x, &y), "C10:znx_mul_add_power_of_two");
}
avx_harness!(c10_mul_pow2__len5, mul_pow2_family::<5>());

// ---- ring switch ----
fn switch_ring_pair<const LI: usize, const LO: usize>() {
    let a: [i64; LI] = kani::any();
    let r0: [i64; LO] = kani::any();
    let (mut x, mut y) = (r0, r0);
    unsafe { znx_switch_ring_avx(&mut x, &a) };
    znx_switch_ring_ref(&mut y, &a);
    assert!(eq(&x, &y), "C10:znx_switch_ring");
}
avx_harness!(c10_switch_ring__8_to_8, switch_ring_pair::<8, 8>());
avx_harness!(c10_switch_ring__16_to_8, switch_ring_pair::<16, 8>());
avx_harness!(c10_switch_ring__8_to_16, switch_ring_pair::<8, 16>());
avx_harness!(c10_switch_ring__4_to_16, switch_ring_pair::<4, 16>());

// ---- normalisation step kernels: radix constant, lsh symbolic, length 5 ----
fn norm_first<const L: usize>(b: usize) {
    let lsh: usize = kani::any();
    kani::assume(lsh < b);
    let a: [i64; L] = arr::<L>(H62);
    let c0: [i64; L] = arr::<L>(H61);
    let x0: [i64; L] = arr::<L>(H61);
    macro_rules! cmp2 { ($avx:expr, $rf:expr, $msg:expr) => {{
        let (mut x1, mut c1) = (x0, c0);
        let (mut x2, mut c2) = (x0, c0);
        #[allow(unused_unsafe)]
        unsafe { $avx(&mut x1, &mut c1) };
        $rf(&mut x2, &mut c2);
        assert!(eq(&x1, &x2) && eq(&c1, &c2), $msg);
    }}; }
    cmp2!(|x: &mut [i64; L], c: &mut [i64; L]| znx_normalize_first_step_carry_only_avx(b, lsh, &a, c), |x: &mut [i64; L], c: &mut [i64; L]| znx_normalize_first_step_carry_only_ref(b, lsh, &a, c), "C10:first_step_carry_only");
    cmp2!(|x: &mut [i64; L], c: &mut [i64; L]| { *x = a; znx_normalize_first_step_assign_avx(b, lsh, x, c) }, |x: &mut [i64; L], c: &mut [i64; L]| { *x = a; znx_normalize_first_step_assign_ref(b, lsh, x, c) }, "C10:first_step_assign");
    cmp2!(|x: &mut [i64; L], c: &mut [i64; L]| znx_normalize_first_step_avx::<true>(b, lsh, x, &a, c), |x: &mut [i64; L], c: &mut [i64; L]| znx_normalize_first_step_ref::<true>(b, lsh, x, &a, c), "C10:first_step<true>");
    cmp2!(|x: &mut [i64; L], c: &mut [i64; L]| znx_normalize_first_step_avx::<false>(b, lsh, x, &a, c), |x: &mut [i64; L], c: &mut [i64; L]| znx_normalize_first_step_ref::<false>(b, lsh, x, &a, c), "C10:first_step<false>");
}

fn norm_middle<const L: usize>(b: usize) {
    let lsh: usize = kani::any();
    kani::assume(lsh < b);
    let a: [i64; L] = arr::<L>(H62);
    let c0: [i64; L] = arr::<L>(H61);
    let x0: [i64; L] = arr::<L>(H61);
    macro_rules! cmp2 { ($avx:expr, $rf:expr, $msg:expr) => {{
        let (mut x1, mut c1) = (x0, c0);
        let (mut x2, mut c2) = (x0, c0);
        #[allow(unused_unsafe)]
        unsafe { $avx(&mut x1, &mut c1) };
        $rf(&mut x2, &mut c2);
        assert!(eq(&x1, &x2) && eq(&c1, &c2), $msg);
    }}; }
    cmp2!(|x: &mut [i64; L], c: &mut [i64; L]| znx_normalize_middle_step_carry_only_avx(b, lsh, &a, c), |x: &mut [i64; L], c: &mut [i64; L]| znx_normalize_middle_step_carry_only_ref(b, lsh, &a, c), "C10:middle_step_carry_only");
    cmp2!(|x: &mut [i64; L], c: &mut [i64; L]| { *x = a; znx_normalize_middle_step_assign_avx(b, lsh, x, c) }, |x: &mut [i64; L], c: &mut [i64; L]| { *x = a; znx_normalize_middle_step_assign_ref(b, lsh, x, c) }, "C10:middle_step_assign");
    cmp2!(|x: &mut [i64; L], c: &mut [i64; L]| znx_normalize_middle_step_avx::<true>(b, lsh, x, &a, c), |x: &mut [i64; L], c: &mut [i64; L]| znx_normalize_middle_step_ref::<true>(b, lsh, x, &a, c), "C10:middle_step<true>");
    cmp2!(|x: &mut [i64; L], c: &mut [i64; L]| znx_normalize_middle_step_avx::<false>(b, lsh, x, &a, c), |x: &mut [i64; L], c: &mut [i64; L]| znx_normalize_middle_step_ref::<false>(b, lsh, x, &a, c), "C10:middle_step<false>");
    cmp2!(|x: &mut [i64; L], c: &mut [i64; L]| znx_normalize_middle_step_sub_avx(b, lsh, x, &a, c), |x: &mut [i64; L], c: &mut [i64; L]| znx_normalize_middle_step_sub_ref(b, lsh, x, &a, c), "C10:middle_step_sub");
}

fn norm_final<const L: usize>(b: usize) {
    let lsh: usize = kani::any();
    kani::assume(lsh < b);
    let a: [i64; L] = arr::<L>(H62);
    let c0: [i64; L] = arr::<L>(H61);
    let x0: [i64; L] = arr::<L>(H61);
    macro_rules! cmp2 { ($avx:expr, $rf:expr, $msg:expr) => {{
        let (mut x1, mut c1) = (x0, c0);
        let (mut x2, mut c2) = (x0, c0);
        #[allow(unused_unsafe)]
        unsafe { $avx(&mut x1, &mut c1) };
        $rf(&mut x2, &mut c2);
        assert!(eq(&x1, &x2) && eq(&c1, &c2), $msg);
    }}; }
    cmp2!(|x: &mut [i64; L], c: &mut [i64; L]| { *x = a; znx_normalize_final_step_assign_avx(b, lsh, x, c) }, |x: &mut [i64; L], c: &mut [i64; L]| { *x = a; znx_normalize_final_step_assign_ref(b, lsh, x, c) }, "C10:final_step_assign");
    cmp2!(|x: &mut [i64; L], c: &mut [i64; L]| znx_normalize_final_step_avx::<true>(b, lsh, x, &a, c), |x: &mut [i64; L], c: &mut [i64; L]| znx_normalize_final_step_ref::<true>(b, lsh, x, &a, c), "C10:final_step<true>");
    cmp2!(|x: &mut [i64; L], c: &mut [i64; L]| znx_normalize_final_step_avx::<false>(b, lsh, x, &a, c), |x: &mut [i64; L], c: &mut [i64; L]| znx_normalize_final_step_ref::<false>(b, lsh, x, &a, c), "C10:final_step<false>");
    cmp2!(|x: &mut [i64; L], c: &mut [i64; L]| znx_normalize_final_step_sub_avx(b, lsh, x, &a, c), |x: &mut [i64; L], c: &mut [i64; L]| znx_normalize_final_step_sub_ref(b, lsh, x, &a, c), "C10:final_step_sub");
}

// the subtracting middle step alone, one SIMD vector (no scalar tail), shift constant per harness: small enough to be decided quickly in both directions (seed C10-5: the
// symbolic-shift family above exhausts its time limit on a tree where this kernel differs)
fn norm_middle_sub<const L: usize>(b: usize, lsh: usize) {
    let a: [i64; L] = arr::<L>(H62);
    let c0: [i64; L] = arr::<L>(H61);
    let x0: [i64; L] = arr::<L>(H61);
    let (mut x1, mut c1) = (x0, c0);
    let (mut x2, mut c2) = (x0, c0);
    unsafe { znx_normalize_middle_step_sub_avx(b, lsh, &mut x1, &a, &mut c1) };
    znx_normalize_middle_step_sub_ref(b, lsh, &mut x2, &a, &mut c2);
    assert!(eq(&x1, &x2) && eq(&c1, &c2), "C10:middle_step_sub (constant shift)");
}
avx_harness!(c10_norm_middle_sub__b52_lsh20_len4, norm_middle_sub::<4>(52, 20));
avx_harness!(c10_norm_middle_sub__b17_lsh5_len4, norm_middle_sub::<4>(17, 5));
avx_harness!(c10_norm_first__b17_len5, norm_first::<5>(17));
avx_harness!(c10_norm_middle__b17_len5, norm_middle::<5>(17));
avx_harness!(c10_norm_final__b17_len5, norm_final::<5>(17));

avx_harness!(c10_norm_first__b1_len5, norm_first::<5>(1));
avx_harness!(c10_norm_middle__b1_len5, norm_middle::<5>(1));
avx_harness!(c10_norm_final__b1_len5, norm_final::<5>(1));

avx_harness!(c10_norm_first__b52_len5, norm_first::<5>(52));
avx_harness!(c10_norm_middle__b52_len5, norm_middle::<5>(52));
avx_harness!(c10_norm_final__b52_len5, norm_final::<5>(52));

avx_harness!(c10_norm_first__b62_len5, norm_first::<5>(62));
avx_harness!(c10_norm_middle__b62_len5, norm_middle::<5>(62));
avx_harness!(c10_norm_final__b62_len5, norm_final::<5>(62));


fn digit_family<const L: usize>(b: usize) {
    let sh: usize = kani::any();
    kani::assume(sh <= 62 && sh + b <= 62);
    let r0: [i64; L] = arr::<L>(H61);
    let s0: [i64; L] = arr::<L>(H62);
    let (mut r1, mut s1) = (r0, s0);
    let (mut r2, mut s2) = (r0, s0);
    unsafe { znx_extract_digit_addmul_avx(b, sh, &mut r1, &mut s1) };
    znx_extract_digit_addmul_ref(b, sh, &mut r2, &mut s2);
    assert!(eq(&r1, &r2) && eq(&s1, &s2), "C10:extract_digit_addmul");
    let (mut r1, mut s1) = (s0, r0);
    let (mut r2, mut s2) = (s0, r0);
    unsafe { znx_normalize_digit_avx(b, &mut r1, &mut s1) };
    znx_normalize_digit_ref(b, &mut r2, &mut s2);
    assert!(eq(&r1, &r2) && eq(&s1, &s2), "C10:normalize_digit");
}
avx_harness!(c10_digit__b17_len5, digit_family::<5>(17));
avx_harness!(c10_digit__b52_len5, digit_family::<5>(52));

// ---- FFT64 by-constant convolution kernels (fft64/convolution.rs, mounted under cfg(kani)): every output limb index k, values in the documented i32 domain ----
// The operands are windows of larger buffers (8 spare coefficients on each side): the AVX loops advance their cursors once more after the last
// term (a pointer one block before the first limb / one row past the last is formed but never dereferenced), which Kani's pointer-offset check
// would flag on an exact-size allocation although no access happens -- an observation recorded in DESIGN.md, not a property violation.
use crate::fft64_convolution_avx::{i64_convolution_by_const_1coeff_avx, i64_convolution_by_real_const_2coeffs_avx, i64_extract_1blk_contiguous_avx, i64_save_1blk_contiguous_avx};
use poulpy_cpu_ref::reference::fft64::convolution::{i64_convolution_by_const_1coeff_ref, i64_convolution_by_const_2coeffs_ref, i64_extract_1blk_contiguous_ref, i64_save_1blk_contiguous_ref};
const I32H: i64 = i32::MAX as i64;
// a: A limbs of 8 coefficients, b: B scalars; k symbolic over 0..=A+B (one past the last produced limb)
fn cnv_const_1coeff<const A: usize, const A8P: usize, const B: usize>() {
    let abuf: [i64; A8P] = arr::<A8P>(I32H);
    let a: &[i64] = &abuf[8..8 + 8 * A];
    let bbuf: [i64; 8] = arr::<8>(I32H);
    let b: &[i64] = &bbuf[2..2 + B];
    // every output limb index, one past the last produced limb included (concrete per iteration: the kernels do pointer arithmetic in k)
    let mut k: usize = 0;
    while k <= A + B {
        let (mut x, mut y) = ([1i64; 8], [1i64; 8]);
        unsafe { i64_convolution_by_const_1coeff_avx(k, &mut x, a, A, b) };
        i64_convolution_by_const_1coeff_ref(k, &mut y, a, A, b);
        assert!(eq(&x, &y), "C10:i64_convolution_by_const_1coeff");
        k += 1;
    }
}
fn cnv_const_2coeffs<const A: usize, const A8P: usize, const B: usize>() {
    let abuf: [i64; A8P] = arr::<A8P>(I32H);
    let a: &[i64] = &abuf[8..8 + 8 * A];
    let bbuf: [i64; 8] = arr::<8>(I32H);
    let b: &[i64] = &bbuf[2..2 + B];
    let mut k: usize = 0;
    while k <= A + B {
        let (mut x, mut y) = ([1i64; 16], [1i64; 16]);
        unsafe { i64_convolution_by_real_const_2coeffs_avx(k, &mut x, a, A, b) };
        i64_convolution_by_const_2coeffs_ref(k, &mut y, a, A, b);
        assert!(eq(&x, &y), "C10:i64_convolution_by_const_2coeffs");
        k += 1;
    }
}
avx_harness_u80!(c10_cnv_const_1coeff__a2_b2, cnv_const_1coeff::<2, 32, 2>());
avx_harness_u80!(c10_cnv_const_1coeff__a1_b3, cnv_const_1coeff::<1, 24, 3>());
avx_harness_u80!(c10_cnv_const_1coeff__a3_b1, cnv_const_1coeff::<3, 40, 1>());
avx_harness_u80!(c10_cnv_const_2coeffs__a2_b2, cnv_const_2coeffs::<2, 32, 2>());
avx_harness_u80!(c10_cnv_const_2coeffs__a1_b3, cnv_const_2coeffs::<1, 24, 3>());
// block moves: n = 16 (two 8-blocks per row), 2 rows x 2 columns, symbolic block and column
fn cnv_blk_moves() {
    const N: usize = 16; const ROWS: usize = 2; const COLS: usize = 2; const TOT: usize = N * ROWS * COLS;
    let sbuf: [i64; TOT + 32] = kani::any();
    let vbuf: [i64; 8 * ROWS + 8] = kani::any();
    let d0: [i64; TOT + 32] = kani::any();
    let mut blk = 0;
    while blk < N / 8 {
        let mut col = 0;
        while col < COLS {
            // rows are spaced by N*COLS in the real caller, the column offset is col*N
            let (mut xb, mut y) = ([0i64; 8 * ROWS + 8], [0i64; 8 * ROWS]);
            unsafe { i64_extract_1blk_contiguous_avx(N * COLS, col * N, ROWS, blk, &mut xb[..8 * ROWS], &sbuf[..TOT]) };
            i64_extract_1blk_contiguous_ref(N * COLS, col * N, ROWS, blk, &mut y, &sbuf[..TOT]);
            let mut i = 0;
            while i < 8 * ROWS { assert!(xb[i] == y[i], "C10:i64_extract_1blk_contiguous"); i += 1; }
            let (mut p, mut q) = (d0, d0);
            unsafe { i64_save_1blk_contiguous_avx(N * COLS, col * N, ROWS, blk, &mut p[..TOT], &vbuf[..8 * ROWS]) };
            i64_save_1blk_contiguous_ref(N * COLS, col * N, ROWS, blk, &mut q[..TOT], &vbuf[..8 * ROWS]);
            let mut i = 0;
            while i < TOT + 32 { assert!(p[i] == q[i], "C10:i64_save_1blk_contiguous"); i += 1; }
            col += 1;
        }
        blk += 1;
    }
}
avx_harness_u80!(c10_cnv_blk_moves, cnv_blk_moves());
