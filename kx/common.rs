// Shared by every Kani harness module (included first).
#[allow(dead_code)]
pub(crate) fn fmt_stub(_args: std::fmt::Arguments<'_>) -> String {
    String::new()
}
