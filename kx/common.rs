// Shared by every Kani harness module (included first).
#[allow(dead_code)]
pub(crate) fn fmt_stub(_args: std::fmt::Arguments<'_>) -> String {
    String::new()
}

/// Executable form of the contract of `znx_switch_ring_ref` (spec `switch_spec`, proved for the real function in Verus unit
/// `znx`): used as a verified stub where the std `step_by().zip()` iterator machinery makes symbolic execution explode.
#[allow(dead_code)]
pub(crate) fn switch_ring_contract(res: &mut [i64], a: &[i64]) {
    let (n_in, n_out) = (a.len(), res.len());
    assert!(n_in >= 1 && n_out >= 1 && n_in.max(n_out) % n_in.min(n_out) == 0);
    let mut i = 0;
    while i < n_out {
        res[i] = if n_in == n_out {
            a[i]
        } else if n_in > n_out {
            a[i * (n_in / n_out)]
        } else if i % (n_out / n_in) == 0 {
            a[i / (n_out / n_in)]
        } else {
            0
        };
        i += 1;
    }
}
