#!/usr/bin/env python3
"""Regenerate DESIGN.md §0d (what each registered check runs) from lib/registry.py."""
import os, re, sys
sys.path.insert(0, os.path.dirname(__file__))
import registry
ROOT = os.path.dirname(os.path.dirname(os.path.abspath(__file__)))

def cell(units, tier):
    out = []
    for u in units:
        if u.get('tier', 'quick') != tier:
            continue
        if u['kind'] == 'verus':
            out.append(f"Verus `{u['unit']}`")
        else:
            out.append(f"Kani {u['crate'].replace('poulpy-', '')} ×{len(u['harnesses'])} ({u.get('cls', 'complete')})")
    return '; '.join(out) if out else '—'

rows = ['| id | level | quick tier | thorough tier adds | undecided remainder |', '|----|-------|-----------|--------------------|---------------------|']
for pid in sorted(registry.PROPS):
    P = registry.PROPS[pid]
    rows.append(f"| {pid} | {P['level']} | {cell(P['units'], 'quick')} | {cell(P['units'], 'thorough')} | {P['remainder']} |")
for na in registry.NOT_APPLICABLE:
    rows.append(f"| {na['property_id']} | not applicable | — | — | {na['reason']} |")
table = '\n'.join(rows)
p = os.path.join(ROOT, 'DESIGN.md')
s = open(p).read()
a = s.index('## 0d. As built: what each registered check runs')
a2 = s.index('\n', a) + 1
b = s.index('`level: proof` = at least one complete obligation chain', a)
s = s[:a2] + '\n' + table + '\n\n' + s[b:]
open(p, 'w').write(s)
print('DESIGN.md §0d regenerated:', len(rows) - 2, 'rows')
