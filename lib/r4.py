"""R4 / R7 — iterator desugaring and tuple assignment splitting (closed list of shapes, token level).

Shapes (anything else is left untouched):
  S1  CHAIN.for_each(|PAT| BODY);                  CHAIN := SRC | SRC.zip(CHAIN) | izip!(SRC, SRC, ...)
  S2  for PAT in CHAIN { BODY }                    SRC   := E.iter() | E.iter_mut() [.step_by(G)] [.take(N)] [.skip(K)] | E.chunks_exact(G) | E.chunks_exact_mut(G)
  S3  for j in (LO..HI).rev() { BODY }             (countdown while)
  S4  for v in IDENT { BODY }                      (IDENT a bare identifier: `&mut [T]` parameter);  S4b  for v in &PATH / &mut PATH { BODY }
  S5  (LO..HI).for_each(|i| BODY);
  S8  for (P, Q) in (LO..HI).enumerate() { BODY }   (P counts from 0, Q = LO + P)
  S7  for (P, Q) in (A..B).zip(C..D) { BODY }      (two counters advancing together over the shorter range)
  R7  (x, y) = (e1, e2);   /  let (x, y): (T, U);

Each S1/S2/S4 loop becomes
    { let n__K: usize = <min of source lengths>; let mut i__K: usize = 0;
      while i__K < n__K { let p = &mut A[IDX]; ...; BODY; i__K += 1; } }
with BODY copied verbatim; a closure parameter that shadows a source expression identifier is renamed p -> p__e.
"""
import re
from rx import lex, Tok, match_close, next_code, prev_code, split_top_commas, text_of, ExtractError, OPEN, CLOSE

def _code(toks):
    return [t for t in toks if t.kind not in ('ws', 'lcomment', 'bcomment', 'doc')]

class Src:
    def __init__(self, expr, mutable, step=None, take=None, skip=None):
        self.expr, self.mutable, self.step, self.take, self.skip = expr, mutable, step, take, skip
        self.enumerate = False
        self.chunk = None      # E.chunks_exact(G) / E.chunks_exact_mut(G): element k is the sub-slice E[k*G .. k*G + G], E.len() / G of them (the remainder is not visited)

def _parse_method_chain(toks):
    """toks: code tokens of an expression `E.m1(args).m2(args)...` -> (base_tokens, [(name, args_tokens)])
    splits at top-level `.ident(`"""
    # find top-level dots followed by ident and '('
    depth = 0
    cuts = []
    for k, t in enumerate(toks):
        if t.kind == 'p':
            if t.text in OPEN: depth += 1
            elif t.text in CLOSE: depth -= 1
            elif t.text == '.' and depth == 0 and k + 2 < len(toks) and toks[k + 1].kind == 'id' and toks[k + 2].kind == 'p' and toks[k + 2].text == '(':
                cuts.append(k)
    if not cuts:
        return toks, []
    base = toks[:cuts[0]]
    calls = []
    for ci, k in enumerate(cuts):
        name = toks[k + 1].text
        close = match_close(toks, k + 2)
        end = cuts[ci + 1] if ci + 1 < len(cuts) else len(toks)
        if close + 1 != end:
            return None, None  # something between calls (e.g. field access / `?`): not our shape
        calls.append((name, toks[k + 3:close]))
    return base, calls

def _parse_chain(toks):
    """-> list[Src] or None"""
    toks = _code(toks)
    if not toks:
        return None
    # izip!(a, b, c)
    if len(toks) >= 4 and toks[0].kind == 'id' and toks[0].text == 'izip' and toks[1].text == '!' and toks[2].text == '(':
        close = match_close(toks, 2)
        if close != len(toks) - 1:
            return None
        srcs = []
        for part in split_top_commas(toks[3:close]):
            s = _parse_chain(part)
            if s is None or len(s) != 1:
                return None
            srcs.extend(s)
        return srcs
    base, calls = _parse_method_chain(toks)
    if base is None or not calls:
        return None
    # locate iter / iter_mut
    names = [c[0] for c in calls]
    if names[0] in ('chunks_exact', 'chunks_exact_mut') and calls[0][1] and len(calls) == 1:
        base_txt = ''.join(t.text if t.kind != 'ws' else ' ' for t in base)
        src = Src(base_txt, names[0] == 'chunks_exact_mut')
        src.chunk = text_of(calls[0][1]).strip()
        return [src]
    if names[0] not in ('iter', 'iter_mut') or calls[0][1]:
        # maybe E itself has method calls before iter: find first iter/iter_mut
        idx = None
        for k, nm in enumerate(names):
            if nm in ('iter', 'iter_mut') and not calls[k][1]:
                idx = k; break
        if idx is None:
            return None
        # rebuild base text including the earlier calls
        pre = list(base)
        for nm, args in calls[:idx]:
            pre += [Tok('p', '.', 0, 0), Tok('id', nm, 0, 0), Tok('p', '(', 0, 0)] + list(args) + [Tok('p', ')', 0, 0)]
        base = pre
        calls = calls[idx:]
        names = names[idx:]
    base_txt = ''.join(t.text if t.kind != 'ws' else ' ' for t in base)
    src = Src(base_txt, names[0] == 'iter_mut')
    mrange = re.match(r'^(.*)\[\s*([^\[\]]+?)\s*\.\.\s*\]$', base_txt.strip())
    if mrange:
        # E[LO..].iter()  ==  E.iter().skip(LO)
        src.expr = mrange.group(1).strip()
        src.skip = mrange.group(2).strip()
    rest = []
    k = 1
    while k < len(calls):
        nm, args = calls[k]
        if nm == 'step_by' and src.step is None and src.take is None and src.skip is None:
            src.step = text_of(args).strip()
        elif nm == 'take' and src.take is None and src.skip is None and src.step is None:
            src.take = text_of(args).strip()
        elif nm == 'skip' and src.skip is None and src.step is None:
            src.skip = text_of(args).strip()
        elif nm == 'enumerate' and not args and k == len(calls) - 1:
            src.enumerate = True
        elif nm == 'zip':
            other = _parse_chain(args)
            if other is None:
                return None
            if k != len(calls) - 1:
                return None
            return [src] + other
        else:
            return None
        k += 1
    return [src]

def _parse_pattern(toks):
    """|(p, q)| or |p| -> list of names; None if unsupported"""
    toks = _code(toks)
    if len(toks) == 1 and toks[0].kind == 'id':
        return [toks[0].text]
    if toks and toks[0].text == '(' and toks[-1].text == ')':
        names = []
        for part in split_top_commas(toks[1:-1]):
            part = _code(part)
            if len(part) == 1 and part[0].kind == 'id':
                names.append(part[0].text)
            else:
                return None
        return names
    return None

def _rename(body_text, old, new):
    toks = lex(body_text)
    out = []
    for k, t in enumerate(toks):
        if t.kind == 'id' and t.text == old:
            p = prev_code(toks, k)
            if p >= 0 and toks[p].kind == 'p' and toks[p].text == '.' and not (p > 0 and toks[p - 1].kind == 'p' and toks[p - 1].text == '.'):
                out.append(t.text)  # field / method name
            else:
                out.append(new)
        else:
            out.append(t.text)
    return ''.join(out)

_BINOPS = set('+-*/%&|^')
def _deref_ops(body_text, name):
    """R4-deref: an element bound by SHARED reference (`let x = &A[i];`) that is used directly as an operand of an arithmetic / bit operator is written `(*x)`: for the integer
    types the std `impl Op<T> for &T` forwards to the value, and the installed Verus has no operator support on references (front-end panic on `&i64 & i64`).  Anything else
    (a type whose reference operators differ, a non-Copy element) no longer compiles -> undecided, never an alarm."""
    toks = lex(body_text)
    out = []
    n = len(toks)
    for k, t in enumerate(toks):
        if t.kind == 'id' and t.text == name:
            p = prev_code(toks, k)
            q = next_code(toks, k)
            pt = toks[p].text if p >= 0 else ''
            qt = toks[q].text if q < n else ''
            q2 = next_code(toks, q) if q < n else n
            q2t = toks[q2].text if q2 < n else ''
            logical = (qt in '&|' and q2t == qt and q < n and q2 < n and toks[q2].start == toks[q].end)
            compound = (q2t == '=' and q < n and q2 < n and toks[q2].start == toks[q].end)
            if pt not in ('.', '*', '&') and len(qt) == 1 and qt in _BINOPS and not logical and not compound and not (qt == '&' and False):
                out.append('(*' + name + ')')
                continue
        out.append(t.text)
    return ''.join(out)

class Ctx:
    def __init__(self):
        self.k = 0

def _exit_rewrite(body_text, kind, K):
    """control transfers in an inlined iteration body: a closure's `return;` ends THIS iteration, a `for` body's `continue;` must still advance the generated counter.
    kind: 'closure-gen' (closure inlined into a generated while loop), 'closure-for' (closure inlined into a native for loop), 'for-gen' (for body moved into a generated while loop).
    Anything beyond the plain unit forms (a value-carrying return, nested loops / closures around the transfer) is refused: ExtractError -> undecided."""
    word = 'return' if kind.startswith('closure') else 'continue'
    if not re.search(r'\b' + word + r'\b', body_text):
        return body_text
    if re.search(r'\b' + word + r'\b\s*[^;\s]', body_text):
        raise ExtractError(f'R4: `{word}` with a value / label inside an inlined iteration body is not supported')
    if re.search(r'\b(for|while|loop)\b', body_text) or re.search(r'\|[^|]*\|\s*[{(\w]', body_text):
        raise ExtractError(f'R4: `{word}` inside an iteration body that itself contains loops or closures is not supported')
    if kind == 'closure-for':
        return re.sub(r'\breturn\s*;', 'continue;', body_text)
    return re.sub(r'\b' + word + r'\s*;', '{ i__%d += 1; continue; }' % K, body_text)

def _gen_loop(ctx, srcs, names, body_text, fired, kind='for-gen'):
    ctx.k += 1
    K = ctx.k
    enum_name = None
    if len(srcs) == 1 and srcs[0].enumerate:
        if len(names) != 2:
            return None
        enum_name, names = names[0], [names[1]]
    if len(names) != len(srcs):
        return None
    # renaming of shadowing parameters
    src_idents = set()
    for s in srcs:
        for t in lex(s.expr):
            if t.kind == 'id':
                src_idents.add(t.text)
        for e in (s.step, s.take, s.skip, s.chunk):
            if e:
                for t in lex(e):
                    if t.kind == 'id':
                        src_idents.add(t.text)
    binds = []
    for nm, s in zip(names, srcs):
        new = nm
        if nm in src_idents:
            new = nm + '__e'
            body_text = _rename(body_text, nm, new)
            fired.add('R4-rename')
        binds.append((new, s))
    lens = []
    pre = []
    for si, s in enumerate(srcs):
        L = f'({s.expr}).len()'
        if s.chunk is not None:
            pre.append(f'if ({s.chunk}) == 0 {{ vpanic(); }}')
            L = f'{L} / ({s.chunk})'
        if s.take is not None:
            L = f'vmin({L}, {s.take})'
        if s.skip is not None:
            L = f'vsub_sat({L}, {s.skip})'
        if s.step is not None:
            pre.append(f'if ({s.step}) == 0 {{ vpanic(); }}')
            L = f'vdiv_ceil({L}, {s.step})'
        lens.append(L)
    n_expr = lens[0]
    for L in lens[1:]:
        n_expr = f'vmin({n_expr}, {L})'
    lines = [';{']      # the empty statement keeps a preceding `for .. invariant .. { }` loop from being parsed together with this block
    lines += pre
    lines.append(f'let n__{K}: usize = {n_expr};')
    lines.append(f'let mut i__{K}: usize = 0;')
    lines.append(f'while i__{K} < n__{K}')
    lines.append('{')
    if enum_name is not None:
        lines.append(f'let {enum_name}: usize = i__{K};')
    for new, s in binds:
        idx = f'i__{K}'
        if s.step is not None:
            idx = f'{idx} * ({s.step})'
        if s.skip is not None:
            idx = f'{idx} + ({s.skip})'
        amp = '&mut ' if s.mutable else '&'
        if s.chunk is not None:
            lines.append(f'let {new} = {amp}{s.expr}[{idx} * ({s.chunk})..{idx} * ({s.chunk}) + ({s.chunk})];')
            continue
        lines.append(f'let {new} = {amp}{s.expr}[{idx}];')
    for new, s_ in binds:
        if not s_.mutable and s_.chunk is None:
            nb = _deref_ops(body_text, new)
            if nb != body_text:
                fired.add('R4-deref')
                body_text = nb
    bt = _exit_rewrite(body_text, kind, K).strip()
    lines.append(bt if bt.endswith('}') or bt.endswith(';') else bt + ';')
    lines.append(f'i__{K} += 1;')
    lines.append('}')
    lines.append('}')
    fired.add('R4')
    return '\n'.join(lines)

_INT_T = ('i8', 'i16', 'i32', 'i64', 'i128', 'isize', 'u8', 'u16', 'u32', 'u64', 'u128', 'usize')
def _boolcast(body, fired):
    """R4-boolcast: `(A cmp B) as <int type>` (a bool cast to an integer, which this Verus does not accept) becomes `(if A cmp B { 1 as T } else { 0 as T })`.  Only a parenthesised
    operand whose TOP-LEVEL tokens contain a comparison (== != <= >= < >) or a logical connective and no turbofish is rewritten; everything else is left as it is."""
    out = body
    guard = 0
    while True:
        guard += 1
        if guard > 50: break
        toks = lex(out)
        done = False
        for k, t in enumerate(toks):
            if t.kind == 'id' and t.text == 'as':
                p = prev_code(toks, k); o = next_code(toks, k)
                if p < 0 or o >= len(toks) or toks[p].text != ')' or toks[o].text not in _INT_T:
                    continue
                # matching '('
                depth = 0; q = p
                while q >= 0:
                    if toks[q].kind == 'p' and toks[q].text == ')': depth += 1
                    elif toks[q].kind == 'p' and toks[q].text == '(':
                        depth -= 1
                        if depth == 0: break
                    q -= 1
                if q < 0: continue
                pq = prev_code(toks, q)
                if pq >= 0 and (toks[pq].kind == 'id' and toks[pq].text not in ('return', 'in', 'if', 'while', 'match', 'else') or toks[pq].text in (')', ']')):
                    continue    # a call `f(..) as T`, not a parenthesised expression
                inner = toks[q + 1:p]
                d = 0; cmpseen = False; bad = False
                for j, u in enumerate(inner):
                    if u.kind == 'p' and u.text in '([{': d += 1
                    elif u.kind == 'p' and u.text in ')]}': d -= 1
                    elif d == 0 and u.kind == 'p' and u.text in ('<', '>', '=', '!', '&', '|'):
                        txt = out[u.start:u.start + 2]
                        if txt in ('==', '!=', '<=', '>=', '&&', '||') or (u.text in '<>' and out[u.start - 1:u.start] == ' ' and out[u.end:u.end + 1] in (' ', '=')):
                            cmpseen = True
                    if u.kind == 'p' and u.text == ':' and out[u.start:u.start + 3] == '::<':
                        bad = True
                if not cmpseen or bad: continue
                T = toks[o].text
                cond = out[toks[q].end:toks[p].start]
                out = out[:toks[q].start] + '(if ' + cond.strip() + ' { 1 as ' + T + ' } else { 0 as ' + T + ' })' + out[toks[o].end:]
                fired.add('R4')
                done = True
                break
        if not done: break
    return out

def apply(body, fired):
    body = _boolcast(body, fired)
    body = _s6(body, fired)
    body = _s7(body, fired)
    ctx = Ctx()
    changed = True
    guard = 0
    while changed:
        guard += 1
        if guard > 200:
            raise ExtractError('R4 does not terminate')
        changed = False
        toks = lex(body)
        n = len(toks)
        for k, t in enumerate(toks):
            # ---- S1 / S5: `.for_each(` at statement level
            if t.kind == 'id' and t.text == 'for_each':
                p = prev_code(toks, k)
                o = next_code(toks, k)
                if p < 0 or toks[p].text != '.' or o >= n or toks[o].text != '(':
                    continue
                close = match_close(toks, o)
                semi = next_code(toks, close)
                # statement start: walk back to previous ';' '{' '}' at depth 0
                s = p
                depth = 0
                while s > 0:
                    s -= 1
                    tt = toks[s]
                    if tt.kind == 'p':
                        if tt.text == '}' and depth == 0: break
                        if tt.text in CLOSE: depth += 1
                        elif tt.text in OPEN:
                            if depth == 0: break
                            depth -= 1
                        elif tt.text == ';' and depth == 0: break
                else:
                    s = -1
                start = s + 1
                while start < p and toks[start].kind in ('ws', 'lcomment', 'bcomment', 'doc'):
                    start += 1
                recv = toks[start:p]
                inner = toks[o + 1:close]
                ci = _code(inner)
                if not ci or ci[0].text != '|':
                    continue
                # closure params up to the second '|'
                second = None
                for q in range(1, len(ci)):
                    if ci[q].kind == 'p' and ci[q].text == '|':
                        second = q; break
                if second is None:
                    continue
                names = _parse_pattern(ci[1:second])
                if names is None:
                    continue
                body_start = ci[second + 1].start if second + 1 < len(ci) else None
                if body_start is None:
                    continue
                closure_body = body[body_start:toks[close].start]
                rc = _code(recv)
                # S5: (lo..hi).for_each(|i| BODY)
                if rc and rc[0].text == '(' and rc[-1].text == ')' and '..' in text_of(rc) and len(names) == 1:
                    rng = text_of(recv).strip()[1:-1]
                    cb_ = _exit_rewrite(closure_body, 'closure-for', 0)
                    rep = f'for {names[0]} in {rng} {{\n{cb_.strip()}{"" if cb_.strip().endswith(("}", ";")) else ";"}\n}}'
                    fired.add('R4')
                else:
                    srcs = _parse_chain(recv)
                    if srcs is None:
                        continue
                    rep = _gen_loop(ctx, srcs, names, closure_body, fired, kind='closure-gen')
                    if rep is None:
                        continue
                end = toks[semi].end if semi < n and toks[semi].text == ';' else toks[close].end
                body = body[:toks[start].start] + rep + body[end:]
                changed = True
                break
            # ---- S2 / S3 / S4: for PAT in EXPR {
            if t.kind == 'id' and t.text == 'for':
                p = prev_code(toks, k)
                if p >= 0 and toks[p].text == '.':
                    continue
                # find `in` at depth 0
                j = k + 1
                depth = 0
                kin = None
                while j < n:
                    tt = toks[j]
                    if tt.kind == 'p':
                        if tt.text in OPEN:
                            if tt.text == '{' and depth == 0: break
                            depth += 1
                        elif tt.text in CLOSE: depth -= 1
                    elif tt.kind == 'id' and tt.text == 'in' and depth == 0:
                        kin = j; break
                    j += 1
                if kin is None:
                    continue
                # body brace
                j = kin + 1
                depth = 0
                kb = None
                while j < n:
                    tt = toks[j]
                    if tt.kind == 'p':
                        if tt.text in '([': depth += 1
                        elif tt.text in ')]': depth -= 1
                        elif tt.text == '{' and depth == 0:
                            kb = j; break
                    j += 1
                if kb is None:
                    continue
                kc = match_close(toks, kb)
                pat = toks[k + 1:kin]
                it = toks[kin + 1:kb]
                itc = _code(it)
                loop_body = body[toks[kb].end:toks[kc].start]
                names = _parse_pattern(pat)
                rep = None
                # S3: (lo..hi).rev()
                s3 = None
                if names and len(names) == 1 and len(itc) >= 7 and itc[0].text == '(':
                    c0 = match_close(itc, 0)
                    tail = ''.join(x.text for x in itc[c0 + 1:])
                    if tail == '.rev()':
                        rng_toks = itc[1:c0]
                        d = None
                        dep = 0
                        for q in range(len(rng_toks) - 1):
                            if rng_toks[q].kind == 'p' and rng_toks[q].text in OPEN: dep += 1
                            elif rng_toks[q].kind == 'p' and rng_toks[q].text in CLOSE: dep -= 1
                            elif dep == 0 and rng_toks[q].text == '.' and rng_toks[q + 1].text == '.':
                                d = q; break
                        if d is not None and d + 2 < len(rng_toks) and rng_toks[d + 2].text != '=':
                            lo_t = body[rng_toks[0].start:rng_toks[d].start].strip() if d > 0 else '0'
                            hi_t = body[rng_toks[d + 2].start:rng_toks[-1].end].strip()
                            s3 = (lo_t, hi_t)
                s8 = None
                if names and len(names) == 2 and len(itc) >= 7 and itc[0].text == '(':
                    c0 = match_close(itc, 0)
                    tail = ''.join(x.text for x in itc[c0 + 1:])
                    if tail == '.enumerate()':
                        rng_toks = itc[1:c0]
                        d = None
                        dep = 0
                        for q in range(len(rng_toks) - 1):
                            if rng_toks[q].kind == 'p' and rng_toks[q].text in OPEN: dep += 1
                            elif rng_toks[q].kind == 'p' and rng_toks[q].text in CLOSE: dep -= 1
                            elif dep == 0 and rng_toks[q].text == '.' and rng_toks[q + 1].text == '.':
                                d = q; break
                        if d is not None and d > 0 and d + 2 < len(rng_toks) and rng_toks[d + 2].text != '=':
                            s8 = (body[rng_toks[0].start:rng_toks[d].start].strip(), body[rng_toks[d + 2].start:rng_toks[-1].end].strip())
                if s8 is not None and not re.search(r'\b(continue|break)\b', loop_body):
                    # S8: for (P, Q) in (LO..HI).enumerate() { BODY }: P counts from 0, Q runs over the range
                    ctx.k += 1
                    K = ctx.k
                    rep = (f';{{\nlet lo__{K}: usize = {s8[0]};\nlet n__{K}: usize = vsub_sat({s8[1]}, lo__{K});\nlet mut i__{K}: usize = 0;\n'
                           f'while i__{K} < n__{K}\n{{\nlet {names[0]}: usize = i__{K};\nlet {names[1]}: usize = lo__{K} + i__{K};\n{loop_body.strip()}\ni__{K} += 1;\n}}\n}}')
                    fired.add('R4')
                elif s3 is not None:
                    ctx.k += 1
                    K = ctx.k
                    j_ = names[0]
                    rep = (f'{{\nlet lo__{K}: usize = {s3[0]};\nlet mut c__{K}: usize = {s3[1]};\n'
                           f'while c__{K} > lo__{K}\n{{\nc__{K} -= 1;\nlet {j_} = c__{K};\n{loop_body.strip()}\n}}\n}}')
                    fired.add('R4')
                elif (names is not None and len(names) == 1 and len(itc) == 1 and itc[0].kind == 'id' and not re.search(r'\b(continue|break)\b', loop_body)
                      and re.search(r'\blet\s+(mut\s+)?' + re.escape(itc[0].text) + r'\s*:\s*Vec<\s*(i8|i16|i32|i64|u8|u16|u32|u64|usize|isize|bool)\s*>', body)):
                    # S4v: for v in V where `let V: Vec<prim>` is declared in this body: the Vec is consumed element by element, each element by value (primitive, Copy)
                    ctx.k += 1
                    K = ctx.k
                    V_ = itc[0].text
                    rep = (f';{{\nlet n__{K}: usize = ({V_}).len();\nlet mut i__{K}: usize = 0;\nwhile i__{K} < n__{K}\n{{\nlet {names[0]} = {V_}[i__{K}];\n{loop_body.strip()}\ni__{K} += 1;\n}}\n}}')
                    fired.add('R4')
                elif (len(_code(pat)) == 6 and [x.text for x in _code(pat)][:2] == ['(', '&'] and _code(pat)[2].kind == 'id' and _code(pat)[3].text == ',' and _code(pat)[4].kind == 'id' and _code(pat)[5].text == ')'
                      and len(itc) >= 5 and ''.join(x.text for x in itc[-4:]) == '.iter_mut()' and all(x.kind == 'id' or x.text == '.' for x in itc[:-4])
                      and not re.search(r'\b(continue|break)\b', loop_body)):
                    # S9: for (&K, V) in MAP.iter_mut() { BODY }  (a `(&k, v)` pattern only fits a MAP's iter_mut): each key once, in an order the map does not specify
                    # (`map_iter_order`, stated by the unit: a duplicate-free sequence of exactly the keys, order unconstrained), the value looked up by key (I-MAP)
                    ctx.k += 1
                    K = ctx.k
                    M_ = ''.join(x.text for x in itc[:-4])
                    kn = _code(pat)[2].text; vn = _code(pat)[4].text
                    rep = (f';{{\nlet ord__{K} = map_iter_order(&{M_});\nlet n__{K}: usize = ord__{K}.len();\nlet mut i__{K}: usize = 0;\nwhile i__{K} < n__{K}\n{{\nlet {kn} = ord__{K}[i__{K}];\n'
                           f'let {vn} = {M_}.get_mut(&{kn}).unwrap();\n{loop_body.strip()}\ni__{K} += 1;\n}}\n}}')
                    fired.add('R4')
                elif names is not None and len(itc) == 1 and itc[0].kind == 'id':
                    # S4: for v in S
                    srcs = [Src(itc[0].text, True)]
                    rep = _gen_loop(ctx, srcs, names, loop_body, fired)
                elif names is not None and len(names) == 1 and len(itc) >= 6 and itc[0].text == '&' and itc[-1].text == ']' and any(x.text == '[' for x in itc):
                    # S4c: for v in &PATH[..HI] / &mut PATH[..HI]: the first HI elements (slicing panics if HI exceeds the length: kept as an obligation)
                    mut_ = itc[1].kind == 'id' and itc[1].text == 'mut'
                    ob = next(ix for ix, x in enumerate(itc) if x.text == '[')
                    pth = itc[(2 if mut_ else 1):ob]
                    inner = itc[ob + 1:-1]
                    if pth and all(x.kind == 'id' or x.text == '.' for x in pth) and len(inner) >= 3 and inner[0].text == '.' and inner[1].text == '.' and match_close(itc, ob) == len(itc) - 1:
                        path = ''.join(x.text for x in pth)
                        hi = body[inner[2].start:inner[-1].end].strip()
                        ctx_pre = f'if ({hi}) > ({path}).len() {{ vpanic(); }}'
                        srcs = [Src(path, mut_, take=hi)]
                        rep = _gen_loop(ctx, srcs, names, loop_body, fired)
                        if rep is not None:
                            rep = rep.replace(';{', ';{\n' + ctx_pre, 1)
                elif names is not None and len(names) == 1 and len(itc) >= 2 and itc[0].text == '&' and all(x.kind == 'id' or x.text == '.' for x in itc[1:]) and itc[-1].kind == 'id' and itc[-1].text != 'mut':
                    # S4b: for v in &PATH / &mut PATH   (PATH: identifiers joined by `.`): elements by shared / mutable reference
                    mut_ = itc[1].kind == 'id' and itc[1].text == 'mut'
                    path = ''.join(x.text for x in itc[(2 if mut_ else 1):])
                    if path:
                        srcs = [Src(path, mut_)]
                        rep = _gen_loop(ctx, srcs, names, loop_body, fired)
                elif names is not None:
                    srcs = _parse_chain(it)
                    if srcs is not None:
                        rep = _gen_loop(ctx, srcs, names, loop_body, fired)
                if rep is None:
                    continue
                body = body[:t.start] + rep + body[toks[kc].end:]
                changed = True
                break
    body = _r7(body, fired)
    return body

_S6 = re.compile(r'for\s*\(\s*(\w+)\s*,\s*(\w+)\s*\)\s*in\s*\(\s*([^()]+?)\s*\.\.\s*\)\s*\.step_by\(\s*([^()]+?)\s*\)\s*\.zip\(\s*\(\s*([^()]+?)\s*\.\.\s*([^()]+?)\s*\)\s*\.step_by\(\s*([^()]+?)\s*\)\s*\)\s*\{')
def _s6(body, fired):
    """S6  for (P, Q) in (A..).step_by(S).zip((B..C).step_by(T)) { BODY }
         -> { let mut P: usize = A; let mut Q: usize = B; while Q < C { BODY P += S; Q += T; } }
    (the unbounded first range never ends the zip; bounds must not mention P or Q; BODY must not `continue`)"""
    guard = 0
    while True:
        guard += 1
        if guard > 50:
            raise ExtractError('R4/S6 does not terminate')
        m = _S6.search(body)
        if not m:
            return body
        P, Q, A, S, B, C, T = m.groups()
        # matching close brace of the loop body
        toks = lex(body)
        ob = next(ix for ix, t in enumerate(toks) if t.start == m.end() - 1)
        cb = match_close(toks, ob)
        inner = body[toks[ob].end:toks[cb].start]
        if re.search(r'\bcontinue\b', inner) or re.search(r'\b(%s|%s)\b' % (P, Q), A + S + B + C + T):
            raise ExtractError('R4/S6: unsupported loop body / bounds')
        new = ('{ let mut %s: usize = %s; let mut %s: usize = %s; while %s < %s {' % (P, A, Q, B, Q, C)
               + inner + ' %s += %s; %s += %s; } }' % (P, S, Q, T))
        body = body[:m.start()] + new + body[toks[cb].end:]
        fired.add('R4')

_S7 = re.compile(r'for\s*\(\s*(\w+)\s*,\s*(\w+)\s*\)\s*in\s*\(\s*([^()]+?)\s*\.\.\s*([^()]+?)\s*\)\s*\.zip\(\s*([^()]+?)\s*\.\.\s*([^()]+?)\s*\)\s*\{')
def _s7(body, fired):
    """S7  for (P, Q) in (A..B).zip(C..D) { BODY }
         -> { let a: usize = A; let c: usize = C; let n: usize = vmin(vsub_sat(B, a), vsub_sat(D, c)); let mut z = 0; while z < n { let P = a + z; let Q = c + z; BODY z += 1; } }
    (bounds are evaluated once, before the loop, in source order; they must not mention P or Q; BODY must not `continue` / `break`)"""
    guard = 0
    k7 = 0      # numbering of the generated variables: LOCAL to this call (units are built concurrently by bin/check: a module-level counter raced and shifted the numbers)
    while True:
        guard += 1
        if guard > 50:
            raise ExtractError('R4/S7 does not terminate')
        m = _S7.search(body)
        if not m:
            return body
        P, Q, A, B, C, D = m.groups()
        toks = lex(body)
        ob = next(ix for ix, t in enumerate(toks) if t.start == m.end() - 1)
        cb = match_close(toks, ob)
        inner = body[toks[ob].end:toks[cb].start]
        if re.search(r'\b(continue|break)\b', inner) or re.search(r'\b(%s|%s)\b' % (P, Q), A + B + C + D):
            raise ExtractError('R4/S7: unsupported loop body / bounds')
        k7 += 1
        K = k7
        new = (';{ let za__%d: usize = %s; let zb__%d: usize = %s; let zc__%d: usize = %s; let zd__%d: usize = %s; let zn__%d: usize = vmin(vsub_sat(zb__%d, za__%d), vsub_sat(zd__%d, zc__%d)); let mut z__%d: usize = 0;\nwhile z__%d < zn__%d\n{ let %s: usize = za__%d + z__%d; let %s: usize = zc__%d + z__%d;'
               % (K, A, K, B, K, C, K, D, K, K, K, K, K, K, K, K, P, K, K, Q, K, K)
               + inner + ' z__%d += 1; } }' % K)
        body = body[:m.start()] + new + body[toks[cb].end:]
        fired.add('R4')

def _r7(body, fired):
    """(x, y) = (e1, e2);  ->  x = e1; y = e2;      let (x, y): (T, U);  ->  let x: T; let y: U;"""
    # tuple assignment, token based
    changed = True
    while changed:
        changed = False
        toks = lex(body)
        n = len(toks)
        for k, t in enumerate(toks):
            if not (t.kind == 'p' and t.text == '('):
                continue
            p = prev_code(toks, k)
            if p >= 0 and (toks[p].kind in ('id', 'num') or toks[p].text in (')', ']', '!', '|', '<', '>', ',', ':', '&', '.')):
                continue
            c = match_close(toks, k)
            lhs_parts = split_top_commas(toks[k + 1:c])
            lhs = []
            ok = len(lhs_parts) >= 2
            for part in lhs_parts:
                pc = _code(part)
                if len(pc) == 1 and pc[0].kind == 'id':
                    lhs.append(pc[0].text)
                else:
                    ok = False
            if not ok:
                continue
            e = next_code(toks, c)
            if not (e < n and toks[e].text == '='):
                continue
            e2 = next_code(toks, e)
            if e2 < n and toks[e2].text == '=':
                continue
            if not (e2 < n and toks[e2].text == '('):
                continue
            c2 = match_close(toks, e2)
            parts = [text_of(x).strip() for x in split_top_commas(toks[e2 + 1:c2])]
            if len(parts) != len(lhs):
                continue
            bad = False
            for ex in parts:
                for tt in lex(ex):
                    if tt.kind == 'id' and tt.text in lhs:
                        bad = True
            if bad:
                continue
            after = next_code(toks, c2)
            end = toks[after].end if after < n and toks[after].text == ';' else toks[c2].end
            if not (after >= n or toks[after].text in (';', '}')):
                continue
            fired.add('R7')
            body = body[:t.start] + ' '.join(f'{l} = {ex};' for l, ex in zip(lhs, parts)) + body[end:]
            changed = True
            break
    def rep_let_tuple(m):
        names = [x.strip() for x in m.group(1).split(',')]
        toks = lex(m.group(2))
        parts = [text_of(p).strip() for p in split_top_commas(toks)]
        if len(names) != len(parts):
            return m.group(0)
        for e in parts:
            for t in lex(e):
                if t.kind == 'id' and t.text in names:
                    return m.group(0)
        fired.add('R7')
        return ' '.join(f'let {l} = {e};' for l, e in zip(names, parts))
    body = re.sub(r'\blet\s*\(\s*([A-Za-z_]\w*(?:\s*,\s*[A-Za-z_]\w*)+)\s*\)\s*=\s*\(([^;]*)\)\s*;', rep_let_tuple, body)
    def rep_let(m):
        names = [s.strip() for s in m.group(1).split(',')]
        tys = [s.strip() for s in m.group(2).split(',')]
        if len(names) != len(tys):
            return m.group(0)
        fired.add('R7')
        return ' '.join(f'let {n}: {t};' for n, t in zip(names, tys))
    body = re.sub(r'\blet\s*\(\s*([A-Za-z_]\w*(?:\s*,\s*[A-Za-z_]\w*)+)\s*\)\s*:\s*\(([^()]*)\)\s*;', rep_let, body)
    return body
