"""vx — Verus units: build one Verus file from a .vx template + functions extracted from /repo, run verus, map
diagnostics back to obligations."""
import threading
import os, re, json, subprocess, time, shlex
from rx import (ExtractError, extract_fn, extract_item, name_return, rule_R1_R3, find_loops, find_stmt, norm_ws)
import r4

VERIF = os.environ.get('POULPY_VERIF_ROOT') or os.path.dirname(os.path.dirname(os.path.abspath(__file__)))
REPO = os.environ.get('POULPY_REPO', '/repo')

class Unit:
    def __init__(self, name):
        self.name = name
        self.lines = []          # output lines
        self.origin = []         # per line: (kind, fn, detail)
        self.functions = []      # dict(name, path, line, sha, rules, out_first, out_last)
        self.props = []
        self.trusted = []        # text lines with external_body / assume_specification etc.
        self.lost = []           # (obligation name, message): extracted functions skipped because one of THEIR anchors is gone (the rest of the unit is still decided)

def _parse_args(s):
    """key=value / key="v w" pairs"""
    out = {}
    for m in re.finditer(r'(\w+)=("([^"]*)"|\S+)', s):
        out[m.group(1)] = m.group(3) if m.group(3) is not None else m.group(2)
    return out

def _read_template(path, seen=None):
    """resolve //@include recursively -> list of (line_text, srcfile, lineno)"""
    seen = seen or set()
    out = []
    base = os.path.join(VERIF, 'vx')
    with open(path) as f:
        for no, line in enumerate(f.read().split('\n'), 1):
            m = re.match(r'\s*//@include\s+(\S+)', line)
            if m:
                inc = os.path.join(base, m.group(1))
                if inc in seen:
                    continue
                seen.add(inc)
                out.extend(_read_template(inc, seen))
            else:
                out.append((line, os.path.relpath(path, VERIF), no))
    return out

def _expand_macros(tl):
    """`//@macro NAME` .. `//@endmacro` records template lines (directives included); `//@use NAME{old=>new}..` replays them, so that
    sibling functions with the same structure (e.g. the add / sub / sub-negate forms of one routine) share one annotation text"""
    macros = {}; out = []; i = 0
    while i < len(tl):
        line, sf, no = tl[i]
        m = re.match(r'\s*//@macro\s+(\w+)\s*$', line)
        if m:
            buf = []; i += 1
            while i < len(tl) and not re.match(r'\s*//@endmacro', tl[i][0]):
                buf.append(tl[i]); i += 1
            if i >= len(tl):
                raise ExtractError(f'{sf}:{no}: //@macro without //@endmacro')
            macros[m.group(1)] = buf; i += 1
            continue
        m = re.match(r'\s*//@use\s+(\w+)\s*(.*)$', line)
        if m:
            if m.group(1) not in macros:
                raise ExtractError(f'{sf}:{no}: //@use of unknown macro {m.group(1)}')
            pairs = re.findall(r'\{([^{}]*?)=>([^{}]*?)\}', m.group(2) or '')
            body = macros[m.group(1)]
            for a, b in pairs:
                if not any(a in l[0] for l in body):
                    raise ExtractError(f'{sf}:{no}: //@use {m.group(1)}: text to replace not found: {a}')
            for l, f2, n2 in body:
                for a, b in pairs:
                    l = l.replace(a, b)
                out.append((l, f2, n2))
            i += 1
            continue
        out.append(tl[i]); i += 1
    return out

def build_unit(name, probe=False):
    path = os.path.join(VERIF, 'vx', 'units', name + '.vx')
    tl = _expand_macros(_read_template(path))
    u = Unit(name)
    u.probe = probe
    defs = {}
    def subst(s):
        for _ in range(4):
            # `$NAME{old=>new}`: the bundle with one literal replacement (e.g. a slice-length clause restated for a scratch arena)
            def _sub1(m):
                t = defs.get(m.group(1))
                if t is None:
                    return m.group(0)
                for g in re.findall(r'\{([^{}]*?)=>([^{}]*?)\}', m.group(2) or ''):
                    if g[0] not in t:
                        raise ExtractError(f'bundle ${m.group(1)}: text to replace not found: {g[0]}')
                    t = t.replace(g[0], g[1])
                return t
            s2 = re.sub(r'\$([A-Z][A-Z0-9_]*)((?:\{[^{}]*?=>[^{}]*?\})*)', _sub1, s)
            if s2 == s: break
            s = s2
        return s
    i = 0
    def emit(text, origin):
        for ln in text.split('\n'):
            u.lines.append(ln); u.origin.append(origin)
    while i < len(tl):
        line, sf, no = tl[i]
        m = re.match(r'\s*//@(\w+)\s*(.*)$', line)
        if not m:
            emit(subst(line), ('template', None, f'{sf}:{no}'))
            i += 1
            continue
        d, rest = m.group(1), m.group(2)
        if d == 'unit':
            i += 1; continue
        if d == 'props':
            u.props = rest.split(); i += 1; continue
        if d == 'def':
            nm = rest.strip()
            buf = []
            i += 1
            while i < len(tl) and not re.match(r'\s*//@enddef', tl[i][0]):
                buf.append(tl[i][0]); i += 1
            i += 1
            defs[nm] = subst('\n'.join(buf))
            continue
        if d == 'extract':
            # collect the directive block until //@end
            target = rest.split()[0]
            args = _parse_args(rest[len(target):])
            block = []
            i += 1
            while i < len(tl) and not re.match(r'\s*//@end\s*$', tl[i][0]):
                block.append(tl[i]); i += 1
            if i >= len(tl):
                raise ExtractError(f'{sf}:{no}: //@extract without //@end')
            i += 1
            try:
                _emit_extracted(u, target, args, block, subst, emit)
            except ExtractError as e:
                # a lost anchor concerns THIS function only: it is left out (its obligation is reported undecided) and the other functions of the unit are still decided.
                # (If something else in the unit calls it, the generated file does not compile and the whole unit is undecided, as before.)
                if 'lost anchor' not in str(e):
                    raise
                u.lost.append((_obl_name(target, args), str(e)))
            continue
        if d == 'slice':
            # expression slicing: copy named statements / call arguments of a real function verbatim (everything else of the
            # function is dropped — the unit states which function the slice comes from; a missing statement is a lost anchor)
            target = rest.split()[0]
            args = _parse_args(rest[len(target):])
            relpath, fname = target.split('::', 1)
            ft = extract_fn(REPO, relpath, fname, impl=args.get('impl'), nth=int(args['nth']) if 'nth' in args else None)
            subst_pairs = [x.split('=>') for x in args.get('subst', '').split('|') if '=>' in x]
            body = ft.body
            i += 1
            emit(f'// ---- slice of {relpath}:{ft.start_line} `{fname}` sha={ft.sha}', ('marker', fname, ''))
            while i < len(tl) and not re.match(r'\s*//@end\s*$', tl[i][0]):
                ln = tl[i][0].strip()
                i += 1
                if not ln:
                    continue
                m2 = re.match(r'stmt\s+"(.*)"$', ln)
                m3 = re.match(r'arg\s+(\w+)(?:#(\d+))?\s+(\d+)\s+"(.*)"$', ln)
                m4 = re.match(r'tail\s+"(.*)"$', ln)
                m5 = re.match(r'index\s+(\w+)(?:#(\d+))?(?:\s+then=(\w+))?\s+"(.*)"$', ln)
                m6 = re.match(r'range\s+(\w+)(?:#(\d+))?\s+"(.*)"$', ln)
                m7 = re.match(r'cond(?:\s+#(\d+))?\s+"(.*)"$', ln)
                if m4:
                    # trailing expression of the body (after the last `;` / `}` at nesting depth 1; the whole body if there is none)
                    from rx import lex as _lexT
                    toksT = _lexT(body)
                    depth = 0; last = 1
                    for t in toksT:
                        if t.kind == 'p':
                            if t.text in '([{':
                                depth += 1
                            elif t.text in ')]}':
                                depth -= 1
                                if depth == 1 and t.text == '}':
                                    last = t.end
                            elif t.text == ';' and depth == 1:
                                last = t.end
                    expr = body[last:body.rstrip().rfind('}')].strip()
                    if not expr:
                        raise ExtractError(f'lost anchor: no trailing expression in {relpath}::{fname}')
                    text = m4.group(1).replace('{}', expr)
                elif m5:
                    from rx import lex as _lexI, match_close as _mcI, next_code as _ncI
                    toksI = _lexI(body)
                    text = None; seen = 0; want = int(m5.group(2) or 1)
                    for k, t in enumerate(toksI):
                        if t.kind == 'id' and t.text == m5.group(1):
                            o = _ncI(toksI, k)
                            if o < len(toksI) and toksI[o].text == '[':
                                c = _mcI(toksI, o)
                                if m5.group(3):
                                    # only the occurrence followed by `.<then>` (e.g. the slice handed to `.chunks_mut(..)`)
                                    d1 = _ncI(toksI, c)
                                    d2 = _ncI(toksI, d1) if d1 < len(toksI) else d1
                                    if not (d2 < len(toksI) and toksI[d1].text == '.' and toksI[d2].text == m5.group(3)):
                                        continue
                                seen += 1
                                if seen == want:
                                    text = m5.group(4).replace('{}', body[toksI[o].end:toksI[c].start].strip())
                                    break
                    if text is None:
                        raise ExtractError(f'lost anchor: index expression `{m5.group(1)}[..]` #{want} not found in {relpath}::{fname}')
                elif m6:
                    # bounds of the `for NAME in LO..HI` / `LO..=HI` loop (#k-th loop over that variable): template placeholders {lo} and {hi} (exclusive upper bound)
                    want = int(m6.group(2) or 1); seen = 0; text = None
                    for mm in re.finditer(r'\bfor\s+' + re.escape(m6.group(1)) + r'\s+in\s+', body):
                        seen += 1
                        if seen < want:
                            continue
                        rest_ = body[mm.end():]
                        depth = 0; endp = None
                        for ci, ch in enumerate(rest_):
                            if ch in '([':
                                depth += 1
                            elif ch in ')]':
                                depth -= 1
                            elif ch == '{' and depth == 0:
                                endp = ci; break
                        if endp is None:
                            break
                        hdr = rest_[:endp].strip()
                        # top-level `..` / `..=`
                        depth = 0; cut = None
                        for ci in range(len(hdr) - 1):
                            ch = hdr[ci]
                            if ch in '([':
                                depth += 1
                            elif ch in ')]':
                                depth -= 1
                            elif ch == '.' and hdr[ci + 1] == '.' and depth == 0:
                                cut = ci; break
                        if cut is None:
                            break
                        lo_ = hdr[:cut].strip(); hi_ = hdr[cut + 2:].strip()
                        if hi_.startswith('='):
                            hi_ = '(' + hi_[1:].strip() + ') + 1'
                        if lo_.startswith('(') and not hi_:
                            break
                        text = m6.group(3).replace('{lo}', lo_).replace('{hi}', hi_)
                        break
                    if text is None:
                        raise ExtractError(f'lost anchor: range loop over `{m6.group(1)}` #{want} not found in {relpath}::{fname}')
                elif m7:
                    # condition of the k-th `if` / `else if` of the body, in source order (`if let` is not counted): template placeholder {}
                    from rx import lex as _lexC
                    toksC = [t for t in _lexC(body) if t.kind not in ('ws', 'lcomment', 'bcomment', 'doc')]
                    want = int(m7.group(1) or 1); seen = 0; text = None
                    for k, t in enumerate(toksC):
                        if t.kind == 'id' and t.text == 'if' and not (k + 1 < len(toksC) and toksC[k + 1].kind == 'id' and toksC[k + 1].text == 'let'):
                            seen += 1
                            if seen < want:
                                continue
                            depth = 0; endk = None
                            for k2 in range(k + 1, len(toksC)):
                                tt = toksC[k2]
                                if tt.kind == 'p':
                                    if tt.text in '([':
                                        depth += 1
                                    elif tt.text in ')]':
                                        depth -= 1
                                    elif tt.text == '{' and depth == 0:
                                        endk = k2; break
                            if endk is not None:
                                text = m7.group(2).replace('{}', body[toksC[k + 1].start:toksC[endk].start].strip())
                            break
                    if text is None:
                        raise ExtractError(f'lost anchor: `if` #{want} not found in {relpath}::{fname}')
                elif m2:
                    pos = find_stmt(body, m2.group(1))
                    if pos is None:
                        raise ExtractError(f'lost anchor: statement `{m2.group(1)}` not found in {relpath}::{fname}')
                    end = body.find(';', pos[0])
                    text = body[pos[0]:end + 1]
                elif m3:
                    from rx import lex as _lex, match_close as _mc, split_top_commas as _sp, text_of as _to, next_code as _nc
                    toks = _lex(body)
                    text = None; seen = 0; want = int(m3.group(2) or 1)
                    for k, t in enumerate(toks):
                        if t.kind == 'id' and t.text == m3.group(1):
                            o = _nc(toks, k)
                            if o < len(toks) and toks[o].text == '(':
                                seen += 1
                                if seen < want:
                                    continue
                                c = _mc(toks, o)
                                parts = _sp(toks[o + 1:c])
                                ai = int(m3.group(3))
                                if ai < len(parts):
                                    text = m3.group(4).replace('{}', _to(parts[ai]).strip())
                                break
                    if text is None:
                        raise ExtractError(f'lost anchor: call `{m3.group(1)}` #{want} argument {m3.group(3)} not found in {relpath}::{fname}')
                else:
                    raise ExtractError(f'bad slice line: {ln}')
                for a_, b_ in subst_pairs:
                    text = text.replace(a_, b_)
                emit(text, ('real', None, relpath))
            i += 1
            u.functions.append(dict(name=fname + '#slice', src_name=fname + ' (sliced statements)', path=relpath, line=ft.start_line, sha=ft.sha,
                                    rules=['slice'], out_first=0, out_last=0, loops=0, item=True))
            continue
        if d == 'extract_item':
            target = rest.split()[0]
            relpath, nm = target.split('::', 1)
            kind, nm = nm.split(':') if ':' in nm else ('struct', nm)
            text, ln, sha = extract_item(REPO, relpath, kind, nm)
            emit(f'// ---- extracted item from {relpath}:{ln} `{kind} {nm}` sha={sha}', ('marker', nm, ''))
            emit(text, ('real', nm, relpath))
            u.functions.append(dict(name=nm, src_name=f'{kind} {nm}', path=relpath, line=ln, sha=sha, rules=['R1'], out_first=0, out_last=0, loops=0, item=True))
            i += 1
            continue
        raise ExtractError(f'{sf}:{no}: unknown directive @{d}')
    return u

def _in_trait_impl(lines):
    """is the current emission point of the unit inside an `impl Trait for Type { .. }` block (the template decides where an extracted function is placed)"""
    text = '\n'.join(lines)
    text = re.sub(r'//[^\n]*', '', text)
    text = re.sub(r'"(?:[^"\\]|\\.)*"', '""', text)
    stack = []; start = 0
    for i, ch in enumerate(text):
        if ch == '{':
            stack.append(text[start:i]); start = i + 1
        elif ch == '}':
            if stack: stack.pop()
            start = i + 1
        elif ch == ';':
            start = i + 1
    for h in reversed(stack):
        h = h.strip()
        if re.search(r'(^|\s)impl\b', h):
            return bool(re.search(r'\sfor\s', re.sub(r'\bwhere\b.*', '', h, flags=re.S)))
        if re.search(r'(^|\s)trait\s+\w+', h):
            return False
    return False

def rule_R9(body, fired):
    """R9 — let chains (`if let PAT = E && COND { B }`, no else branch) are nested: `if let PAT = E { if COND { B } }`.  Verus does not support let chains; the two forms
    are the same program when there is no else branch (anything else is left untouched and Verus reports the unsupported construct: undecided)."""
    from rx import lex as _lex, match_close as _mc
    while True:
        toks = _lex(body)
        code = [k for k, t in enumerate(toks) if t.kind not in ('ws', 'comment', 'doc')]
        done = True
        for ci, k in enumerate(code):
            t = toks[k]
            if not (t.kind == 'id' and t.text == 'if' and ci + 1 < len(code) and toks[code[ci + 1]].kind == 'id' and toks[code[ci + 1]].text == 'let'):
                continue
            # scan the header to the block's `{` at depth 0, remembering the first top-level `&&`
            depth = 0; amp = None; brace = None
            cj = ci + 2
            while cj < len(code):
                tt = toks[code[cj]]
                if tt.kind == 'p':
                    if tt.text in '([':
                        depth += 1
                    elif tt.text in ')]':
                        depth -= 1
                    elif tt.text == '{' and depth == 0:
                        brace = code[cj]; break
                    elif tt.text == '&' and depth == 0 and amp is None and cj + 1 < len(code) and toks[code[cj + 1]].kind == 'p' and toks[code[cj + 1]].text == '&' and toks[code[cj + 1]].start == tt.end:
                        amp = cj
                    elif tt.text == '&&' and depth == 0 and amp is None:
                        amp = cj
                cj += 1
            if brace is None or amp is None:
                continue
            close = _mc(toks, brace)
            # no else branch
            nx = [q for q in code if q > close]
            if nx and toks[nx[0]].kind == 'id' and toks[nx[0]].text == 'else':
                continue
            amp_tok = toks[code[amp]]
            amp_end = amp_tok.end if amp_tok.text == '&&' else toks[code[amp + 1]].end
            head = body[t.start:amp_tok.start].rstrip()
            cond = body[amp_end:toks[brace].start].strip()
            blk = body[toks[brace].start:toks[close].end]
            body = body[:t.start] + head + ' { if ' + cond + ' ' + blk + ' }' + body[toks[close].end:]
            fired.add('R9')
            done = False
            break
        if done:
            return body

def _obl_name(target, args):
    """the obligation name _emit_extracted would have registered for this block"""
    relpath, fname = target.split('::', 1)
    if args.get('impl'):
        fname = fname + '@' + re.sub(r'[^A-Za-z0-9_]', '', args['impl'].split(' for ')[-1].split('<')[0]) if ' for ' in args['impl'] else fname + '@' + re.sub(r'[^A-Za-z0-9_]+', '_', args['impl'])[:40]
    if 'tail_after' in args: fname = args.get('as', fname + '__tail')
    if 'block_in' in args: fname = args.get('as', fname + '__block')
    if 'only_stmt' in args: fname = args.get('as', fname + '__stmt')
    return args.get('rename', fname)

def _emit_extracted(u, target, args, block, subst, emit):
    relpath, fname = target.split('::', 1)
    ft = extract_fn(REPO, relpath, fname, impl=args.get('impl'), nth=int(args['nth']) if 'nth' in args else None)
    src_fname = fname
    if args.get('impl'):
        # unique obligation name for trait-impl methods: <method>@<implementor>
        fname = fname + '@' + re.sub(r'[^A-Za-z0-9_]', '', args['impl'].split(' for ')[-1].split('<')[0]) if ' for ' in args['impl'] else fname + '@' + re.sub(r'[^A-Za-z0-9_]+', '_', args['impl'])[:40]
    fired = set()
    if 'tail_after' in args:
        # tail extraction: the generated function's body is everything that FOLLOWS one statement of the real function (found by its leading text) up to the end of the
        # body; the free variables are the parameters of the signature the unit states (`sig=`)
        if 'sig' not in args:
            raise ExtractError(f'tail_after= needs sig= ({relpath}::{fname})')
        from rx import lex as _lexS, match_close as _mcS
        pos = find_stmt(ft.body, args['tail_after'], int(args.get('stmt_nth', 1)) - 1)
        if pos is None:
            raise ExtractError(f'lost anchor: statement `{args["tail_after"]}` not found in {relpath}::{fname}')
        toksS = _lexS(ft.body)
        k = next(k for k, t in enumerate(toksS) if t.start >= pos[0] and t.kind not in ('ws', 'lcomment', 'bcomment', 'doc'))
        endS = None
        while k < len(toksS):
            t = toksS[k]
            if t.kind == 'p':
                if t.text in '([{':
                    k = _mcS(toksS, k) + 1; continue
                if t.text == ';':
                    endS = t.end; break
            k += 1
        if endS is None:
            raise ExtractError(f'lost anchor: end of statement `{args["tail_after"]}` not found in {relpath}::{fname}')
        ft.body = '{\n' + ft.body[endS:ft.body.rstrip().rfind('}')] + '\n}'
        ft.sig = args['sig']
        fname = args.get('as', fname + '__tail')
        fired.add('tail_after[' + args['tail_after'] + ']')
    if 'block_in' in args:
        # closure-body extraction: the generated function's body is the FIRST brace block inside one statement of the real function (found by the statement's leading text),
        # e.g. the body of the closure in `scope.spawn(move || { .. });`; its free variables become the parameters of the signature the unit states (`sig=`)
        if 'sig' not in args:
            raise ExtractError(f'block_in= needs sig= ({relpath}::{fname})')
        from rx import lex as _lexS, match_close as _mcS
        pos = find_stmt(ft.body, args['block_in'], int(args.get('stmt_nth', 1)) - 1)
        if pos is None:
            raise ExtractError(f'lost anchor: statement `{args["block_in"]}` not found in {relpath}::{fname}')
        toksS = _lexS(ft.body)
        kb = next((k for k, t in enumerate(toksS) if t.start >= pos[0] and t.kind == 'p' and t.text == '{'), None)
        if kb is None:
            raise ExtractError(f'lost anchor: no block in statement `{args["block_in"]}` of {relpath}::{fname}')
        cb = _mcS(toksS, kb)
        ft.body = ft.body[toksS[kb].start:toksS[cb].end]
        ft.sig = args['sig']
        fname = args.get('as', fname + '__block')
        fired.add('block_in[' + args['block_in'] + ']')
    if 'only_stmt' in args:
        # statement extraction: the generated function's body is ONE statement (simple or block: `for .. { }`, `if .. { }`) of the real function, found by its leading text;
        # its free variables become the parameters of the signature the unit states (`sig=`).  `return` inside the statement leaves the generated function, which is what
        # it does in the enclosing closure / function as far as that statement is concerned.
        if 'sig' not in args:
            raise ExtractError(f'only_stmt= needs sig= ({relpath}::{fname})')
        from rx import lex as _lexS, match_close as _mcS
        pos = find_stmt(ft.body, args['only_stmt'], int(args.get('stmt_nth', 1)) - 1)
        if pos is None:
            raise ExtractError(f'lost anchor: statement `{args["only_stmt"]}` not found in {relpath}::{fname}')
        toksS = _lexS(ft.body)
        k0 = next(k for k, t in enumerate(toksS) if t.start >= pos[0] and t.kind not in ('ws', 'lcomment', 'bcomment', 'doc'))
        depth = 0; endS = None; k = k0
        while k < len(toksS):
            t = toksS[k]
            if t.kind == 'p':
                if t.text in '([{':
                    c = _mcS(toksS, k)
                    if t.text == '{' and depth == 0:
                        # block statement ends at its closing brace unless an `else` follows
                        k2 = c + 1
                        while k2 < len(toksS) and toksS[k2].kind in ('ws', 'lcomment', 'bcomment', 'doc'):
                            k2 += 1
                        if k2 < len(toksS) and toksS[k2].kind == 'id' and toksS[k2].text == 'else':
                            k = k2 + 1; continue
                        if k2 < len(toksS) and toksS[k2].kind == 'p' and toksS[k2].text == ';':
                            endS = toksS[k2].end
                        else:
                            endS = toksS[c].end
                        break
                    k = c + 1; continue
                if t.text == ';':
                    endS = t.end; break
            k += 1
        if endS is None:
            raise ExtractError(f'lost anchor: end of statement `{args["only_stmt"]}` not found in {relpath}::{fname}')
        ft.body = '{\n' + ft.body[pos[0]:endS] + '\n}'
        ft.sig = args['sig']
        fname = args.get('as', fname + '__stmt')
        fired.add('only_stmt[' + args['only_stmt'] + ']')
    sig = rule_R1_R3(ft.sig, fired)
    if 'sig' in args and 'only_stmt' not in args and 'tail_after' not in args and 'block_in' not in args:
        # stated replacement of the signature (R6: a generic bound on a foreign trait, e.g. `R: std::io::Read`, restated over the unit's stand-in type); the body is the real one
        sig = args['sig']
        fired.add('sig[' + args['sig'] + ']')
    body = rule_R1_R3(ft.body, fired)
    body = rule_R9(body, fired)
    body = r4.apply(body, fired)
    # stated substitutions (`subst="old=>new|old2=>new2"`): literal replacements on the extracted text, recorded in the rule list of the function
    for pair in [x for x in args.get('subst', '').split('|') if '=>' in x]:
        a_, b_ = pair.split('=>', 1)
        if a_ not in body:
            raise ExtractError(f'lost anchor: text to substitute `{a_}` not found in {relpath}::{fname}')
        body = body.replace(a_, b_)
        fired.add('subst[' + a_ + ' => ' + b_ + ']')
    # `subst_opt=`: the same, applied wherever the text occurs and silently skipped where it does not (a rewrite that only exists to name a construct Verus cannot call,
    # e.g. a supertrait method as a free function: if the code no longer contains the construct there is nothing to rewrite)
    for pair in [x for x in args.get('subst_opt', '').split('|') if '=>' in x]:
        a_, b_ = pair.split('=>', 1)
        if a_ in body:
            body = body.replace(a_, b_)
            fired.add('subst[' + a_ + ' => ' + b_ + ']')
    # `subst_ws=`: like subst, but the text to replace is matched up to whitespace (multi-line expressions whose indentation differs between occurrences); every
    # occurrence is replaced; none found = lost anchor
    for pair in [x for x in [args.get('subst_ws', '')] if '=>' in x]:     # ONE pair (the text may contain `|`)
        a_, b_ = pair.split('=>', 1)
        chars = [c for c in a_ if not c.isspace()]
        rx_ = r'\s*'.join(re.escape(c) for c in chars)
        if not re.search(rx_, body):
            raise ExtractError(f'lost anchor: text to substitute `{a_}` not found (up to whitespace) in {relpath}::{fname}')
        body = re.sub(rx_, lambda m_: b_, body)
        fired.add('subst[' + a_ + ' => ' + b_ + ']')
    if 'ret' in args:
        sig = name_return(sig, args['ret'])
    if 'rename' in args:
        sig = re.sub(r'\bfn\s+' + re.escape(src_fname) + r'\b', 'fn ' + args['rename'], sig, count=1)
    if args.get('strip_self') == '1':
        pass
    # parse directive block
    sections = []  # (kind, arg, text)
    cur = None
    for (line, sf, no) in block:
        m = re.match(r'\s*//@(\w+)\s*(.*)$', line)
        if m:
            cur = [m.group(1), m.group(2).strip(), [], f'{sf}:{no}']
            sections.append(cur)
        else:
            if cur is None:
                if line.strip():
                    raise ExtractError(f'{sf}:{no}: text outside a section in @extract block')
                continue
            cur[2].append(line)
    spec = ''
    inserts = []  # (offset, text, tag)
    loops = find_loops(body)
    loop_specs = {}
    loop_iter = {}
    loop_text = {}
    # positional parameter placeholders `$#0`, `$#1`, ... in contract text: the names the REAL signature gives to its (non-self) parameters
    pnames = []
    mo = re.search(r'\((.*)\)', sig, re.S)
    if mo:
        depth = 0; cur_p = ''; parts_p = []
        for ch in mo.group(1):
            if ch in '<([':
                depth += 1
            elif ch in '>)]':
                depth -= 1
            if ch == ',' and depth == 0:
                parts_p.append(cur_p); cur_p = ''
            else:
                cur_p += ch
        parts_p.append(cur_p)
        for pp in parts_p:
            pp = pp.strip()
            if not pp or re.match(r'(&\s*(mut\s+)?)?(mut\s+)?self\b', pp):
                continue
            mn = re.match(r'(?:mut\s+)?(\w+)\s*:', pp)
            if mn:
                pnames.append(mn.group(1))
    def _pos(text):
        return re.sub(r'\$#(\d+)', lambda m_: pnames[int(m_.group(1))] if int(m_.group(1)) < len(pnames) else m_.group(0), text)
    skip_next = False
    for kind, arg, lines, where in sections:
        # `//@when "text"` / `//@unless "text"`: the NEXT section applies only if the (rewritten) real body contains / does not contain the text -- lets a proof text state
        # what it needs of the code's current form (e.g. "the limbs are cleared because the loop ACCUMULATES into them") without demanding it of code that does not need it
        if kind in ('when', 'unless'):
            mw = re.match(r'"(.*)"\s*$', arg)
            if not mw:
                raise ExtractError(f'{where}: bad @{kind} syntax')
            present = ''.join(mw.group(1).split()) in ''.join(body.split())
            skip_next = (not present) if kind == 'when' else present
            continue
        if skip_next:
            skip_next = False
            continue
        text = _pos(subst('\n'.join(lines)).rstrip())
        if kind == 'spec':
            spec = text
        elif kind == 'top':
            inserts.append((1, '\n' + text + '\n', 'top'))
        elif kind in ('after', 'before', 'after_stmt'):
            m = re.match(r'"(.*)"\s*(#(\d+))?\s*$', arg)
            if not m:
                raise ExtractError(f'{where}: bad anchor syntax')
            lit, which = m.group(1), int(m.group(3) or 0)
            pos = find_stmt(body, lit, which)
            if pos is None and which == 0 and '(' in lit:
                # anchor fallback: the full text is gone (an argument of the anchored call was edited).  If the call's own prefix -- the text up to and including its first `(` --
                # still names exactly ONE place of the body, the hint is placed there (as a statement-prefix anchor), so that the edited call is judged by the contracts
                # instead of losing the anchor.  Ambiguous or missing prefix: lost anchor as before.
                pref = lit[:lit.index('(') + 1]
                cbody = ''.join(body.split()); cpref = ''.join(pref.split())
                if len(cpref) >= 12 and cbody.count(cpref) == 1:
                    pos = find_stmt(body, pref, 0)
                    if pos is not None:
                        fired.add('anchor-fallback[' + pref + ']')
                        if kind == 'after':
                            kind = 'after_stmt'
            if pos is None:
                raise ExtractError(f'{where}: lost anchor `{lit}` in {relpath}::{fname}')
            if kind == 'after_stmt':
                # the anchor is a PREFIX of a statement: insert after the `;` that ends it (bracket depth 0 relative to the prefix start)
                from rx import lex as _lexS
                depth = 0; endpos = None
                for t in _lexS(body[pos[0]:]):
                    if t.kind == 'p':
                        if t.text in '([{':
                            depth += 1
                        elif t.text in ')]}':
                            depth -= 1
                            if depth < 0:
                                break
                        elif t.text == ';' and depth == 0:
                            endpos = pos[0] + t.end
                            break
                if endpos is None:
                    raise ExtractError(f'{where}: lost anchor `{lit}` (no statement end) in {relpath}::{fname}')
                inserts.append((endpos, '\n' + text + '\n', 'after'))
            else:
                inserts.append((pos[1] if kind == 'after' else pos[0], '\n' + text + '\n', kind))
        elif kind == 'loop':
            m = re.match(r'(\d+)(\s+same\s+(\d+))?(\s+iter=(\w+))?\s*$', arg)
            if not m:
                raise ExtractError(f'{where}: bad loop directive')
            k = int(m.group(1))
            if m.group(5):
                loop_iter[k] = m.group(5)
            if m.group(3):
                text = loop_text[int(m.group(3))]
            loop_text[k] = text
            if k < 1 or k > len(loops):
                raise ExtractError(f'{where}: lost anchor loop #{k} in {relpath}::{fname} (function has {len(loops)} loops)')
            loop_specs[k] = text
        elif kind == 'before_tail':
            # before the trailing expression of the body: after the last `;` / `}` at nesting depth 1
            from rx import lex as _lex
            toks = _lex(body)
            depth = 0
            last = None
            for t in toks:
                if t.kind == 'p':
                    if t.text in '([{':
                        depth += 1
                    elif t.text in ')]}':
                        depth -= 1
                        if depth == 1 and t.text == '}':
                            last = t.end
                    elif t.text == ';' and depth == 1:
                        last = t.end
            if last is None:
                last = 1
            inserts.append((last, '\n' + text + '\n', 'before_tail'))
        elif kind in ('loop_start', 'loop_end', 'loop_after', 'loop_before'):
            k = int(arg)
            if k < 1 or k > len(loops):
                raise ExtractError(f'{where}: lost anchor loop #{k} in {relpath}::{fname} (function has {len(loops)} loops)')
            from rx import lex as _lex2, match_close as _mc2
            kw, br, hdr = loops[k - 1]
            toks2 = _lex2(body)
            bi = next(ix for ix, t in enumerate(toks2) if t.start == br)
            ci = _mc2(toks2, bi)
            if kind == 'loop_before':
                # right before the loop keyword (after whatever statements precede the loop)
                inserts.append((kw, '\n' + text + '\n', f'loop{k}-before'))
            elif kind == 'loop_start':
                inserts.append((br + 1, '\n' + text + '\n', f'loop{k}-start'))
            elif kind == 'loop_after':
                # right after the loop's closing brace (and the extra brace of an R4-generated block, if any)
                off = toks2[ci].end
                inserts.append((off, '\n' + text + '\n', f'loop{k}-after'))
            else:
                # before a trailing generated counter increment `i__K += 1;` if present, else before the closing brace
                close_off = toks2[ci].start
                seg = body[br:close_off]
                m2 = re.search(r'i__\d+\s*\+=\s*1;\s*$', seg)
                off = br + m2.start() if m2 else close_off
                inserts.append((off, '\n' + text + '\n', f'loop{k}-end'))
        elif kind == 'end_body':
            inserts.append((len(body) - 1, '\n' + text + '\n', 'end_body'))
        elif kind == 'expect_loops':
            if int(arg) != len(loops):
                raise ExtractError(f'{where}: lost anchor: {relpath}::{fname} has {len(loops)} loops, contract written for {arg}')
        else:
            raise ExtractError(f'{where}: unknown section @{kind}')
    for k, text in loop_specs.items():
        inserts.append((loops[k - 1][1], '\n' + text + '\n', f'loop{k}'))
    for k, nm in loop_iter.items():
        # ghost naming of a `for` loop's iterator (Verus syntax `for x in NAME: range`): ghost text only
        kw, br, hdr = loops[k - 1]
        mm = re.search(r'\bin\b', body[kw:br])
        if not body[kw:].startswith('for') or not mm:
            raise ExtractError(f'lost anchor: loop #{k} of {relpath}::{fname} is not a for loop')
        inserts.append((kw + mm.end(), f' {nm}:', f'loop{k}-iter'))
    # splice (descending offsets; stable for equal offsets)
    pieces = []
    inserts.sort(key=lambda x: x[0])
    last = 0
    segs = []
    for off, text, tag in inserts:
        segs.append(('real', body[last:off]))
        segs.append((tag, text))
        last = off
    segs.append(('real', body[last:]))
    first = len(u.lines)
    emit(f'// ---- extracted from {relpath}:{ft.start_line} `{fname}` sha={ft.sha} rules={",".join(sorted(fired))}', ('marker', fname, ''))
    emit(sig.rstrip(), ('real-sig', fname, relpath))
    if spec:
        emit(spec, ('spec', fname, 'requires/ensures'))
    # emit body segments keeping line structure: join into one string but track origins per line
    cur_line = ''
    cur_origin = ('real', fname, relpath)
    for tag, text in segs:
        parts = text.split('\n')
        for pi, part in enumerate(parts):
            if pi > 0:
                u.lines.append(cur_line); u.origin.append(cur_origin)
                cur_line = ''
                cur_origin = ('real', fname, relpath) if tag == 'real' else ('ghost', fname, tag)
            if part.strip() and tag != 'real':
                cur_origin = ('ghost', fname, tag)
            elif part.strip() and cur_origin[0] != 'ghost':
                cur_origin = ('real', fname, relpath)
            cur_line += part
    u.lines.append(cur_line); u.origin.append(cur_origin)
    u.functions.append(dict(name=args.get('rename', fname), src_name=src_fname, path=relpath, line=ft.start_line, sha=ft.sha,
                            rules=sorted(fired), out_first=first, out_last=len(u.lines) - 1, loops=len(loops)))
    in_trait_impl = _in_trait_impl(u.lines[:first]) if getattr(u, 'probe', False) else False
    if getattr(u, 'probe', False) == 'inplace' and in_trait_impl:
        # a method of `impl Trait for Type` cannot get a renamed sibling (not a member of the trait): the postcondition `false` is added IN PLACE (an impl may strengthen
        # the trait's ensures), in a separate probe file in which only these methods are judged (statically resolved callers inside the unit see the `false`).
        k0 = first + 1 + len(sig.rstrip().split('\n')) + (len(spec.split('\n')) if spec else 0)
        sp = spec.rstrip()
        if re.search(r'\bensures\b', sp):
            ins = ('            ' if sp.endswith(',') else '            , ') + 'false,   // vacuity probe'
        else:
            ins = '        ensures false,   // vacuity probe'
        u.lines.insert(k0, ins); u.origin.insert(k0, ('probe', fname, ''))
    elif getattr(u, 'probe', False) == 'copy' and not in_trait_impl:
        # vacuity probe: a renamed COPY of the function (same body, same ghost text, same contract) with the extra postcondition `false`.  The copy MUST be
        # refuted: if it verifies, the contract (or an assumed contract of a callee, or a loop invariant on every path to a return) is contradictory and the real
        # obligations of this function hold vacuously.  Callers keep seeing the original contract.
        copy_lines = u.lines[first + 1:]
        copy_orig = u.origin[first + 1:]
        nsig = len(sig.rstrip().split('\n'))
        nspec = len(spec.split('\n')) if spec else 0
        sig2 = re.sub(r'\bfn\s+(\w+)', lambda m_: 'fn ' + m_.group(1) + '__probe', '\n'.join(copy_lines[:nsig]), count=1)
        emit('// ---- vacuity probe of `' + fname + '`', ('marker', fname, ''))
        emit(sig2, ('real-sig', fname, relpath))
        sp = spec.rstrip()
        md = re.search(r'\n\s*decreases\b[^\n]*$', sp)
        tailtxt = ''
        if md:
            tailtxt = sp[md.start():]; sp = sp[:md.start()].rstrip()
        if re.search(r'\bensures\b', sp):
            emit(sp + ('' if sp.endswith(',') else ','), ('pspec', fname, ''))
            emit('            false,   // vacuity probe', ('probe', fname, ''))
        else:
            if sp:
                emit(sp + ('' if sp.endswith(',') else ','), ('pspec', fname, ''))
            emit('        ensures false,   // vacuity probe', ('probe', fname, ''))
        if tailtxt:
            emit(tailtxt.strip('\n'), ('pspec', fname, ''))
        for l_, o_ in zip(copy_lines[nsig + nspec:], copy_orig[nsig + nspec:]):
            u.lines.append(l_); u.origin.append(('pbody', fname, ''))

TRUST_PAT = re.compile(r'\b(assume\s*\(|admit\s*\(|external_body|assume_specification|external_fn_specification|verifier::truncate|verifier::external\b)')

def scan_trusted(u):
    hits = []
    for ln, (text, org) in enumerate(zip(u.lines, u.origin), 1):
        if TRUST_PAT.search(text) and not text.strip().startswith('//'):
            hits.append(f'{u.name}.rs:{ln}: {text.strip()[:160]}')
    return hits

def _write_atomic(path, text):
    """the generated file is written under a temporary name and renamed into place: two checks that share a unit (and generate the same text from the same tree) never see a half-written file"""
    tmp = f'{path}.{os.getpid()}.{threading.get_ident()}.tmp'
    with open(tmp, 'w') as f:
        f.write(text)
    os.replace(tmp, path)

def run_unit(name, outdir, rlimit=None, timeout=900, extra=None):
    """returns dict(status ok|refuted|undecided, functions:[...], failures:[...], verified:int, errors:int, smt_ms, log)"""
    t0 = time.time()
    res = dict(unit=name, status='undecided', functions=[], failures=[], verified=0, errors=0, smt_ms=0, wall_s=0.0,
               trusted=[], cmd='', reason='')
    try:
        u = build_unit(name)
    except ExtractError as e:
        res['reason'] = f'extraction: {e}'
        res['wall_s'] = time.time() - t0
        return res
    os.makedirs(outdir, exist_ok=True)
    out_rs = os.path.join(outdir, name + '.rs')
    _write_atomic(out_rs, '\n'.join(u.lines) + '\n')
    res['file'] = out_rs
    res['functions'] = u.functions
    res['props'] = u.props
    res['trusted'] = scan_trusted(u)
    cmd = ['verus', out_rs, '--output-json', '--time', '--error-format=json', '--multiple-errors', '4']
    if rlimit:
        cmd += ['--rlimit', str(rlimit)]
    if extra:
        cmd += extra
    res['cmd'] = ' '.join(shlex.quote(c) for c in cmd)
    try:
        p = subprocess.run(cmd, cwd=outdir, capture_output=True, text=True, timeout=timeout)
    except subprocess.TimeoutExpired:
        res['reason'] = 'verus timeout'
        res['wall_s'] = time.time() - t0
        return res
    res['wall_s'] = time.time() - t0
    log = p.stdout + '\n' + p.stderr
    with open(os.path.join(outdir, name + '.log'), 'w') as f:
        f.write(log)
    # stdout: the JSON summary; stderr: diagnostics (json lines)
    summ = None
    try:
        js = p.stdout[p.stdout.index('{'):]
        summ = json.loads(js)
    except Exception:
        pass
    diags = []
    for ln in p.stderr.split('\n'):
        ln = ln.strip()
        if ln.startswith('{') and '"$message_type"' in ln:
            try:
                d = json.loads(ln)
            except Exception:
                continue
            if d.get('level') == 'error' and d.get('spans'):
                diags.append(d)
            elif d.get('level') == 'error' and not d.get('message', '').startswith('aborting'):
                diags.append(d)
    if summ is None:
        res['reason'] = 'verus produced no summary (compile error?): ' + (p.stderr[-2000:] if p.stderr else '')
        # compile errors come as diagnostics too
        res['diagnostics'] = [d.get('rendered', d.get('message', ''))[:1500] for d in diags[:6]]
        return res
    vr = summ.get('verification-results', {})
    res['verified'] = vr.get('verified', 0)
    res['errors'] = vr.get('errors', 0)
    try:
        res['smt_ms'] = summ['times-ms']['smt']['total']
        res['verus_total_ms'] = summ['times-ms']['total']
        fb = []
        for mt in summ['times-ms']['smt'].get('smt-run-module-times', []):
            fb.extend(mt.get('function-breakdown', []))
        res['function_breakdown'] = [{'function': x['function'], 'ms': x['time'], 'success': x['success']} for x in fb]
    except Exception:
        pass
    if vr.get('encountered-vir-error'):
        res['reason'] = 'verus front-end (VIR) error — construct not supported or ill-typed after extraction'
        res['diagnostics'] = [d.get('rendered', d.get('message', ''))[:1500] for d in diags[:6]]
        return res
    failures = []
    undecided = []
    for d in diags:
        msg = d.get('message', '')
        prim = None
        for sp in d.get('spans', []):
            if sp.get('is_primary') and sp.get('file_name', '').endswith(name + '.rs'):
                prim = sp
        others = [sp for sp in d.get('spans', []) if sp.get('file_name', '').endswith(name + '.rs')]
        if prim is None and others:
            prim = others[0]
        fn, org = None, None
        lines = []
        for sp in ([prim] if prim else []) + others:
            ln = sp['line_start']
            if 1 <= ln <= len(u.origin):
                o = u.origin[ln - 1]
                lines.append((ln, o))
                if fn is None and o[1]:
                    fn, org = o[1], o
        if fn is None and prim is not None:
            # find enclosing verus fn by scanning backwards
            for k in range(prim['line_start'] - 1, -1, -1):
                m = re.match(r'\s*(pub\s+)?(proof\s+|exec\s+|spec\s+|open\s+spec\s+|closed\s+spec\s+)*fn\s+(\w+)', u.lines[k])
                if m:
                    fn = m.group(3); break
        rec = dict(function=fn or '?', message=msg, origin=[f'{o[0]}:{o[2]}@{ln}' for ln, o in lines],
                   text=[u.lines[ln - 1].strip()[:200] for ln, _ in lines][:3], rendered=d.get('rendered', '')[:3000])
        low = msg.lower()
        if 'rlimit' in low or 'resource limit' in low or 'timed out' in low or 'timeout' in low:
            undecided.append(rec)
        elif d.get('code') or 'not supported' in low or 'unsupported' in low or low.startswith('cannot') or 'mismatched types' in low:
            undecided.append(rec)
        elif not re.search(r'not satisfied|assertion failed|possible (arithmetic|division|bit shift|truncation)|underflow|overflow|out of bounds|decreases|might fail|failed', low):
            # allow-list: only genuine proof failures count as refutations; parse / type / mode errors of the generated file are tool-level (undecided)
            undecided.append(rec)
        else:
            failures.append(rec)
    for nm_, msg_ in getattr(u, 'lost', []):
        undecided.append(dict(function=nm_, message=msg_, origin=[], text=[], rendered=msg_))
    res['failures'] = failures
    res['undecided'] = undecided
    if failures:
        res['status'] = 'refuted'
    elif undecided or not vr.get('success'):
        res['status'] = 'undecided'
        res['reason'] = 'rlimit/unsupported: ' + '; '.join(r['message'] for r in undecided[:3]) if undecided else 'verus reported failure without a mappable diagnostic'
    else:
        res['status'] = 'ok'
    if res['status'] == 'ok' and os.environ.get('VX_NO_PROBE') != '1':
        pr = run_probe(name, outdir, rlimit=rlimit, timeout=timeout, extra=extra)
        res['probe'] = pr
        res['wall_s'] = time.time() - t0
        if pr['vacuous'] or pr['error']:
            res['status'] = 'undecided'
            res['reason'] = ('vacuity probe: `ensures false` VERIFIES for ' + ', '.join(pr['vacuous']) + ' (contradictory contract / assumed contract / invariant): nothing is claimed'
                             if pr['vacuous'] else 'vacuity probe could not be run: ' + pr['error'])
    return res

def run_probe(name, outdir, rlimit=None, timeout=900, extra=None):
    """further runs of the unit with `ensures false` added to every extracted function (a renamed copy of free functions / trait default methods in one file, in place for
    methods of trait impls in a second file); every one of them must be refuted"""
    pr = dict(probed=0, refuted=0, vacuous=[], inconclusive=[], error='', wall_s=0.0)
    t0 = time.time()
    for mode in ('copy', 'inplace'):
        try:
            u = build_unit(name, probe=mode)
        except ExtractError as e:
            pr['error'] = f'extraction: {e}'; return pr
        probe_fns = sorted({o[1] for o in u.origin if o[0] == 'probe'})
        if not probe_fns:
            continue
        tag = '__probe' if mode == 'copy' else '__probe2'
        out_rs = os.path.join(outdir, name + tag + '.rs')
        _write_atomic(out_rs, '\n'.join(u.lines) + '\n')
        cmd = ['verus', out_rs, '--output-json', '--error-format=json', '--multiple-errors', '2']
        if rlimit:
            cmd += ['--rlimit', str(rlimit)]
        if extra:
            cmd += extra
        try:
            p = subprocess.run(cmd, cwd=outdir, capture_output=True, text=True, timeout=timeout)
        except subprocess.TimeoutExpired:
            pr['error'] = 'verus timeout'; return pr
        with open(os.path.join(outdir, name + tag + '.log'), 'w') as f:
            f.write(p.stdout + '\n' + p.stderr)
        try:
            summ = json.loads(p.stdout[p.stdout.index('{'):])
        except Exception:
            pr['error'] = 'verus produced no summary on the probe file'; return pr
        vr_ = summ.get('verification-results', {})
        if vr_.get('encountered-vir-error') or (vr_.get('encountered-error') and not vr_.get('verified') and not vr_.get('errors')):
            pr['error'] = 'verus front-end / compile error on the probe file (see ' + name + tag + '.log)'; return pr
        hit = set(); slow = set()
        for ln in p.stderr.split('\n'):
            ln = ln.strip()
            if not (ln.startswith('{') and '"$message_type"' in ln):
                continue
            try:
                d = json.loads(ln)
            except Exception:
                continue
            if d.get('level') != 'error':
                continue
            low = d.get('message', '').lower()
            for sp in d.get('spans', []):
                if not sp.get('file_name', '').endswith(name + tag + '.rs'):
                    continue
                l0 = sp['line_start']
                if 1 <= l0 <= len(u.origin):
                    o = u.origin[l0 - 1]
                    if o[0] == 'probe':
                        hit.add(o[1])
                    elif o[1] and ('rlimit' in low or 'resource limit' in low or 'timed out' in low):
                        slow.add(o[1])
        pr['probed'] += len(probe_fns)
        for fn in probe_fns:
            if fn in hit:
                pr['refuted'] += 1
            elif fn in slow:
                pr['inconclusive'].append(fn)     # the solver gave up before proving `false`: not vacuous as far as it can tell
            else:
                pr['vacuous'].append(fn)
    pr['wall_s'] = time.time() - t0
    return pr
