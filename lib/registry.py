"""Registry: which verification units decide which property.  (DESIGN.md §4)"""

def V(unit, tier='quick', lemmas=(), rlimit=None, impl_fns=()):
    return dict(kind='verus', unit=unit, tier=tier, lemmas=list(lemmas), rlimit=rlimit, impl_fns=list(impl_fns))

def K(crate, mod, harnesses, cls='complete', tier='quick', timeout=900, bound=None, functions=(), trusted=()):
    return dict(kind='kani', crate=crate, mod=mod, harnesses=list(harnesses), cls=cls, tier=tier, timeout=timeout, bound=bound,
                functions=list(functions), trusted=list(trusted))

FMT_STUB = 'stub alloc::fmt::format -> empty string (panic/err message text is not part of any obligation)'

BDD = ['add', 'sub', 'sll', 'srl', 'sra', 'slt', 'sltu', 'and', 'or', 'xor', 'identity']

PROPS = {}

HOOK_COMMITS = []   # filled below

NA_DFT = ('every clause is about the value of a polynomial product obtained through the DFT/NTT domain and about noise magnitudes: '
          'FFT64 is floating point (no f64 theory in Verus, CBMC did not finish one svp product at N=2), NTT120 is a chain of modular '
          'butterflies plus a 120-bit CRT that bit-blasting cannot prove; no contract within reach expresses "decrypts to m1*m2" (DESIGN.md §5)')
NOT_APPLICABLE = [
    dict(property_id='C04', reason=NA_DFT),
    dict(property_id='C05', reason=NA_DFT),
]

PROPS['C13'] = dict(
    level='proof',
    technique='Kani/CBMC contract check of the compiled circuit tables against a boolean level-semantics spec, inputs fully symbolic (2^64 pairs), loops fully unwound',
    level_text='Complete proof per circuit: for all 2^64 (a,b) every output bit of the real compiled table equals the Rust word operation, and the structural obligations (index ranges, definedness of every slot read, state width) hold; constants only, so unwinding is exhaustive (unwinding assertions on).',
    level_note='Assumes the homomorphic evaluator realises the boolean level semantics (bool_eval in kx/bin_fhe/bdd.rs, written from eval.rs::eval_level); trusts CBMC/Kani.',
    units=[
        K('poulpy-bin-fhe', 'bdd_arithmetic::verif_kani', [f'c13_bdd_{c}' for c in BDD], cls='complete', timeout=1500,
          functions=[f'bdd_arithmetic::circuits::u32::{c}_codegen::OUTPUT_CIRCUITS (via GetBitCircuitInfo::get_circuit / max_state_size)' for c in BDD]),
    ],
    assumptions=[
        'the homomorphic evaluator (eval_level / cmux on ciphertexts) realises the boolean level semantics written in kx/bin_fhe/bdd.rs::bool_eval (that is C04/C15 territory)',
        'CBMC bit-precise semantics of Rust u32/usize operations; tables are compile-time constants so every loop is fully unwound (unwinding assertions on)',
    ],
    remainder='that homomorphic eval_level realises the boolean level semantics',
)
