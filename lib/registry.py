"""Registry: which verification units decide which property.  (DESIGN.md §4)"""

def V(unit, tier='quick', lemmas=(), rlimit=None, impl_fns=()):
    return dict(kind='verus', unit=unit, tier=tier, lemmas=list(lemmas), rlimit=rlimit, impl_fns=list(impl_fns))

def K(crate, mod, harnesses, cls='complete', tier='quick', timeout=900, bound=None, functions=(), trusted=()):
    return dict(kind='kani', crate=crate, mod=mod, harnesses=list(harnesses), cls=cls, tier=tier, timeout=timeout, bound=bound,
                functions=list(functions), trusted=list(trusted))

FMT_STUB = 'stub alloc::fmt::format -> empty string (panic/err message text is not part of any obligation)'

BDD = ['add', 'sub', 'sll', 'srl', 'sra', 'slt', 'sltu', 'and', 'or', 'xor', 'identity']

PROPS = {}

HOOK_COMMITS = ['4fd9baa', 'bc45a72', 'bdce4be', '6feeef9', 'c4343d3', '0e54554']

NA_DFT = ('every clause is about the value of a polynomial product obtained through the DFT/NTT domain and about noise magnitudes: '
          'FFT64 is floating point (no f64 theory in Verus, CBMC did not finish one svp product at N=2), NTT120 is a chain of modular '
          'butterflies plus a 120-bit CRT that bit-blasting cannot prove; no contract within reach expresses "decrypts to m1*m2" (DESIGN.md §5)')
NOT_APPLICABLE = [
    dict(property_id='C04', reason=NA_DFT),
    dict(property_id='C05', reason=NA_DFT),
]
# properties for which no check is registered (yet): listed as not claimed so that MANIFEST stays truthful
_PENDING = {
    'C01x': 'no check built yet (planned: Kani contracts on noise-placement kernels); the ring identity phase = m + e needs DFT exactness and is not decidable by contracts',
    'C02x': 'no check built yet (planned: bounded Kani harnesses on GLWE wrappers); HAL column ops are covered under C09/C08',
    'C06x': 'no check built yet (planned: Kani contracts on sampling kernels); statistical claims are not contract properties',
    'C07x': 'no check built yet (planned: Kani on NTT120 scalar conversions); FFT64 exactness is floating point and out of reach',
    'C10x': 'no check built yet (planned: Kani AVX kernel == reference kernel equivalence)',
    'C14x': 'no check built yet (planned: bounded Kani on the clear LUT path)',
    'C19x': 'no check built yet (planned: bounded Kani on decompress mask order)',
}


PROPS['C13'] = dict(
    level='proof',
    technique='Kani/CBMC contract check of the compiled circuit tables against a boolean level-semantics spec, inputs fully symbolic (2^64 pairs), loops fully unwound',
    level_text='Complete proof per circuit: for all 2^64 (a,b) every output bit of the real compiled table equals the Rust word operation, and the structural obligations (index ranges, definedness of every slot read, state width) hold; constants only, so unwinding is exhaustive (unwinding assertions on).',
    level_note='Assumes the homomorphic evaluator realises the boolean level semantics (bool_eval in kx/bin_fhe/bdd.rs, written from eval.rs::eval_level); trusts CBMC/Kani.',
    units=[
        K('poulpy-bin-fhe', 'bdd_arithmetic::verif_kani', [f'c13_bdd_{c}' for c in BDD], cls='complete', timeout=1500,
          functions=[f'bdd_arithmetic::circuits::u32::{c}_codegen::OUTPUT_CIRCUITS (via GetBitCircuitInfo::get_circuit / max_state_size)' for c in BDD]),
    ],
    assumptions=[
        'the homomorphic evaluator (eval_level / cmux on ciphertexts) realises the boolean level semantics written in kx/bin_fhe/bdd.rs::bool_eval (that is C04/C15 territory)',
        'CBMC bit-precise semantics of Rust u32/usize operations; tables are compile-time constants so every loop is fully unwound (unwinding assertions on)',
    ],
    remainder='that homomorphic eval_level realises the boolean level semantics',
)


# ------------------------------------------------------------------------------------------------------------------
VERUS_TRUST = [
    'Verus/Z3 soundness; vstd library lemmas and its std specifications (slice::copy_from_slice, usize::min, ...)',
    'I-LAYOUT (vx/prelude/vec_znx.rs, scalar_znx.rs): at/at_mut return the n-element block at i64 offset n*(j*cols+i) and write through; to_ref/to_mut views alias the owner buffer (external_body contracts; backed by Kani harnesses on the real unsafe accessors where listed)',
    'extraction rules R1-R7 (lib/rx.py, lib/r4.py): attributes/docs dropped, debug blocks kept, panics -> obligations, the listed iterator shapes desugared to index loops, tuple assignments split; nothing else changes',
    'machine arithmetic: exec integers are bit-precise in Verus; spec-level sums are mathematical; usize is 64-bit (global size_of usize == 8)',
]
CORE_TRUST = [
    'dependency-flow contracts of the transform-domain HAL operations (vx/prelude/dft_api.rs, core_api.rs): ASSUMED; for vec_znx_dft_{copy,add_assign,apply} they abstract the limb-selection contracts proved in units vec_znx_dft / vec_znx_dft_ntt120, for vmp / idft / big-normalise / big-add they restate the documented size rules (every limb of res written)',
    'A-ALIGN: every size query is a multiple of the 64-byte arena alignment and the arena starts aligned (true for N >= 8): a take of b bytes costs exactly b',
    'A-VMP-RES / A-VMP-MIN / A-SIZES: the backend vmp scratch query is monotone in the operand limb count, independent of the result limb count, depends on (a_size, rows) only through min(a_size, rows) (proved for the FFT64 and NTT120 reference queries in unit vmp_fft64: (16 + 8*min(a_size, rows)*cols_in)*8; the Module dispatch to them is trusted), and all size queries stay below 2^56 bytes',
    'transform-domain containers reduced to shape + ghost per-limb dependency sets (vx/prelude/dft_layouts.rs); depl(limb) is an uninterpreted attribute of coefficient-domain limb contents',
]
ZNX_FUNCS = ['znx_add_ref', 'znx_add_assign_ref', 'znx_sub_ref', 'znx_sub_assign_ref', 'znx_sub_negate_assign_ref', 'znx_negate_ref',
             'znx_negate_assign_ref', 'znx_copy_ref', 'znx_zero_ref', 'znx_rotate', 'znx_automorphism_ref', 'znx_switch_ring_ref']
KERNEL_QUICK = [1, 12, 17, 52, 62]
KERNEL_ALL = [1, 2, 3, 4, 8, 12, 16, 17, 24, 31, 32, 33, 48, 50, 52, 60, 61, 62]   # thorough tier (every radix 1..62 has a harness in kx/cpu_ref/lib.rs; this spread keeps the run under an hour)

KPARTS = ['first', 'middle', 'final', 'digit']

def kernel_units():
    fns = ['znx_normalize_{first,middle,final}_step{,_assign,_carry_only,_sub}_ref', 'znx_extract_digit_addmul_ref', 'znx_normalize_digit_ref']
    return [
        K('poulpy-cpu-ref', 'verif_kani', ['c08_digit_carry_i64', 'c08_digit_carry_i128'], cls='complete', timeout=900,
          functions=['get_digit_i64', 'get_carry_i64', 'get_digit_i128', 'get_carry_i128']),
        K('poulpy-cpu-ref', 'verif_kani', [f'c08_{p}_b{b}' for b in KERNEL_QUICK for p in KPARTS], cls='complete', timeout=1500,
          bound='radix constant per harness (complete in values, lsh, carries)', functions=fns),
        K('poulpy-cpu-ref', 'verif_kani', [f'c08_{p}_b{b}' for b in KERNEL_ALL if b not in KERNEL_QUICK for p in KPARTS], cls='complete', tier='thorough', timeout=1500,
          bound='radix constant per harness (complete in values, lsh, carries)'),
    ]

PROPS['C09'] = dict(
    level='proof',
    technique='Verus contracts (requires/ensures/loop invariants) on the real text of the coefficient-domain kernels and column operations, extracted mechanically each run; Kani for two bit-mask leaf facts',
    level_text='Unbounded proof (all N, sizes, columns, limb values): every limb of the selected column equals the exact ring map of the operand limbs by the documented size rule; rotation, automorphism and ring switching equal their Z[X]/(X^N+1) spec for every exponent; trait contracts discharged for the FFT64Ref/NTT120Ref/ZnxRef implementors.',
    level_note='Trusted: the VecZnx accessor interface (I-LAYOUT), vstd, the extraction rules; wrapping-free preconditions (no i64 overflow) are part of the contracts; split_ring and merge_rings are covered as mutual inverses at the coefficient level (part i, coefficient k <-> coefficient gap*k+i); big-accumulator (i128) variants and AVX kernels are not covered by this check.',
    units=[
        V('znx'), V('vec_znx_arith'), V('vec_znx_ring'), V('vec_znx_merge'), V('vec_znx_split'), V('vec_znx_big'), V('galois'),
        K('poulpy-cpu-ref', 'verif_kani', ['c09_mask_mod_i64', 'c09_mask_mod_usize', 'c03_mask_mod_u64'], cls='complete', timeout=600,
          functions=['leaf fact: p & (m-1) == p mod m for power-of-two m (imported by znx_rotate / znx_automorphism_ref / galois_element proofs)']),
        K('poulpy-cpu-ref', 'verif_kani::c09_rings', ['c09_merge_rings__g2_n1_s21_r2', 'c09_mul_xp_minus_one__n4_a1_r2_p1', 'c09_mul_xp_minus_one__n4_a1_r2_pm5'], cls='bounded', timeout=900,
          bound='2 parts of ring degree 1 (2: thorough) with 2 and 1 limbs (1 and 2: thorough) merged into 2 (3) limbs, two columns; all limb values and the previous result contents symbolic',
          functions=['vec_znx_merge_rings (index-level model; structure-independent complement of the Verus unit)', 'vec_znx_mul_xp_minus_one out of place into a longer, dirty result (N = 4, 1 limb into 2, p = 1 and -5)']),
        K('poulpy-cpu-ref', 'verif_kani::c09_rings', ['c09_col_rotate__n4_p3', 'c09_col_automorphism__n4_p3', 'c09_col_add__n4', 'c09_col_sub_a_short__n4'], cls='bounded', timeout=900,
          bound='N = 4, operand a 1 limb, b 2 limbs, result 3 limbs, two columns, all values symbolic (|x| < 2^61), stale result',
          functions=['vec_znx_rotate, vec_znx_automorphism, vec_znx_add_into, vec_znx_sub (copy / negate / other exponents: thorough): index-level models, structure-independent complements of the Verus units']),
        K('poulpy-cpu-ref', 'verif_kani::c09_rings', ['c09_merge_rings__g2_n1_s12_r3', 'c09_merge_rings__g2_n2_s21_r2', 'c09_col_rotate__n4_pm5', 'c09_col_automorphism__n4_pm1', 'c09_col_copy__n4', 'c09_col_negate__n4', 'c09_col_sub_b_short__n4'], cls='bounded', tier='thorough', timeout=1500, bound='as above'),
    ],
    trusted_base=VERUS_TRUST,
    assumptions=['no i64 overflow in limb-wise add/sub/negate (stated as preconditions; the debug profile would panic, the release profile wraps)',
                 'ring degree N a power of two <= 2^28 for rotate/automorphism (precondition)'],
    remainder='FFT64 big-accumulator automorphism/negate and all NTT120 (i128) big-accumulator variants, AVX kernels (C10)',
)

PROPS['C11'] = dict(
    level='proof',
    technique='Verus postconditions that define every limb of the selected column from the inputs only, plus frame clauses over all other limb blocks, on the extracted real text',
    level_text='Unbounded proof for the coefficient-domain column operations: each ensures gives final(res).limb(col, j) for all j < size as a function of the read-only inputs (no old(res) on the right-hand side for out-of-place ops) and frame_ok: every block outside (col, 0..size) is unchanged.',
    level_note='Covers the vec_znx_* reference operations, the transform-domain wrappers of vec_znx_dft.rs (fft64 and ntt120, numeric kernels abstract), the GLWE operation wrappers, and -- core layer, as a dependency-flow proof over assumed HAL flow contracts -- gglwe_product_dft, glwe_keyswitch_internal, glwe_keyswitch and glwe_decrypt: with nothing required of the previous contents of res or of the scratch arena, no limb of the result depends on stale bytes (the accumulator taken from scratch must be cleared before the digit-grouped product: for dsize >= 3 its last limbs are only ever added to); idft/svp/vmp/convolution kernels themselves and the other core operations are not covered by this check.  Matrix level (core_matrix): the GGSW / GGLWE external products write EVERY cell of the destination -- the product on the rows both operands have, zero on the rows only the destination has -- as a function of the inputs only.',
    units=[V('core_glwe_encrypt'), V('core_matrix', lemmas=['lemma_same_layout']),
           K('poulpy-cpu-ref', 'verif_kani::c11_cnv', ['c11_cnv_apply_frame__n8_c2_r3'], cls='bounded', timeout=1500, bound='N = 8, destination 2 columns x 3 limbs with fully symbolic previous contents, operands 1 limb (all-zero prepared vectors), selected column symbolic', functions=['fft64 convolution_apply_dft: the selected column does not depend on the previous contents of the destination (tail limbs zero-filled) and the other column is untouched -- two-run comparison, structure-independent complement of the Verus unit cnv_apply_fft64']), K('poulpy-cpu-ref', 'verif_kani::c09_rings', ['c09_col_rotate__n4_p3', 'c09_col_add__n4'], cls='bounded', timeout=900, bound='N = 4, operand 1 limb (2), result 3 limbs, two columns, stale result', functions=['vec_znx_rotate, vec_znx_add_into: every limb of the selected column defined (zero past the operands), other column untouched -- index-level model']), K('poulpy-cpu-ref', 'verif_kani::c09_rings', ['c09_mul_xp_minus_one__n4_a1_r2_p1'], cls='bounded', timeout=900, bound='N = 4, operand 1 limb, result 2 limbs and 2 columns, all values symbolic (|a| < 2^62), stale result', functions=['vec_znx_mul_xp_minus_one (out of place): structure-independent complement of the Verus unit vec_znx_ring']), V('vec_znx_arith'), V('vec_znx_ring'), V('vec_znx_merge'), V('vec_znx_split'), V('vec_znx_big'), V('vec_znx_normalize'), V('vec_znx_dft'), V('vec_znx_dft_ntt120'), V('vmp_fft64'), V('vmp_ntt120'), V('cnv_prepare_fft64'), V('cnv_apply_fft64'), V('glwe_ops'), V('core_keyswitch'), V('core_extprod'), V('core_decrypt'),
           K('poulpy-cpu-ref', 'verif_kani::c11_ak', ['c11_ak_dft_apply__a3_r2_step2_off1', 'c11_ak_dft_apply__a2_r3_step1_off0', 'c11_ak_dft_apply__a3_r3_step2_off0', 'c11_ak_dft_apply__a2_r2_step1_off1'],
             cls='bounded', tier='thorough', timeout=1500, bound='FFT64Ref, N=8, two output columns, (a_size, res_size, step, offset) constant per harness; numeric kernels abstract',
             functions=['VecZnxDftApply::vec_znx_dft_apply (fft64 reference, real shape logic; fft_ref / reim_from_znx_i64_ref / table fills replaced by bit-level mixers)'],
             trusted=['abstract kernels: fft_ref -> identity, reim_from_znx_i64_ref -> bit-cast, fill_fft4/ifft4_omegas -> no-op (two-run determinism and frame only)'])],
    trusted_base=VERUS_TRUST + CORE_TRUST,
    assumptions=['operands are distinct objects from the result (Rust borrow rules: &mut res vs &a)'],
    remainder='idft_apply*, svp_prepare / svp_apply_dft and the ntt120 svp (fft64 svp_apply_dft_to_dft / _assign are under contract), vmp_prepare and the ntt120 vmp (fft64 vmp_apply_dft_to_dft_core is under contract: every output limb defined from the inputs, rest zero), cnv_*, NTT120 big accumulator, cross-radix normalisation, shifts, core-layer operations',
)

PROPS['C08'] = dict(
    level='proof',
    technique='Kani function-level contracts on the real digit/carry and step kernels (uniform law x_out + c_out*2^b == a*2^lsh + c_in) per radix, imported as trait contracts into a Verus value theorem for vec_znx_normalize_assign',
    level_text='Kernel law: complete in all 64-bit values, lsh and carries for each radix constant (quick: 5 radices, thorough: 18 radices spread over 1..62). Limb loop: unbounded Verus proof that in-place normalisation preserves the torus value mod 1 and leaves every digit balanced.',
    level_note='The Verus theorem imports the kernel law as trait contracts (cross-engine chain); out-of-place/cross-radix normalisation and shifts are covered only by bounded harnesses (N=1, small radices, constant offsets) reported under bounded_checks; encode/decode (i64, i128, single coefficient) are covered by bounded harnesses: decode(encode(x)) == x mod 2^k, exact for |x| < 2^(k-2), digits balanced, encoded torus value == x*2^-k mod 1, other coefficients untouched; decode_vec_float is not covered.',
    units=kernel_units() + [V('vec_znx_normalize'),
        K('poulpy-cpu-ref', 'verif_kani::c08_ntt120_fused', ['c08_ntt120_fused_add__b4_sa2_sr3_offm9', 'c08_ntt120_fused_sub__b4_sa2_sr3_offm8'], cls='bounded', timeout=900,
          bound='N=1, radix 4, i128 accumulator of 2 limbs (|x| < 2^20), result 3 balanced limbs, offsets -9 / -8 (two leading limbs receive carry only)',
          functions=['ntt120_vec_znx_big_normalize_add_assign / _sub_assign (NTT120 family, fused): res +/- a * 2^offset on the torus within one unit of the last limb']),
        K('poulpy-cpu-ref', 'verif_kani::c08_ntt120_fused', ['c08_ntt120_fused_add__b4_sa2_sr2_off0', 'c08_ntt120_fused_add__b4_sa2_sr3_offm3'], cls='bounded', tier='thorough', timeout=900, bound='as above, offsets 0 / -3'),
        K('poulpy-cpu-ref', 'verif_kani::c08_shift', ['c02_lsh_sub__b4_a2_r1_k6', 'c02_lsh_add__b4_a2_r2_k3'], cls='bounded', timeout=900, bound='accumulating shifts: see C02',
          functions=['vec_znx_lsh_sub, vec_znx_lsh::<.., false>']),
        K('poulpy-cpu-ref', 'verif_kani::c08_shift', ['c08_shift__b4_s2_k0', 'c08_shift__b4_s2_k5', 'c08_shift__b4_s2_k9', 'c08_shift_trunc__b4_a2_r1_k0'], cls='bounded', timeout=900,
          bound='N=1, radix 4, size 2 (c08_shift_trunc: 2 limbs into 1), shift amount constant; limbs un-normalised (|x| < 2^12)',
          functions=['vec_znx_lsh', 'vec_znx_rsh', 'vec_znx_lsh_assign', 'vec_znx_rsh_assign']),
        K('poulpy-cpu-ref', 'verif_kani::c08_norm', ['c08_normalize__b4_b4_s2_s2_offm5', 'c08_normalize__b4_b4_s2_s1_offm4', 'c08_normalize__b3_b4_s2_s2_off0', 'c08_normalize__b5_b4_s2_s2_offm2'],
          cls='bounded', timeout=900, bound='N=1, sizes <= 2, radices 3..5, signed offset constant; limbs un-normalised (|x| < 2^20), stale result contents',
          functions=['vec_znx_normalize (vec_znx_normalize_inter_base2k, vec_znx_normalize_cross_base2k)']),
        K('poulpy-cpu-ref', 'verif_kani::c08_shift', ['c08_shift__b4_s2_k1', 'c08_shift__b4_s2_k3', 'c08_shift__b4_s2_k4', 'c08_shift__b4_s2_k8', 'c08_shift__b4_s2_k13',
          'c08_rsh_gap__b4_s2_k9', 'c08_rsh_gap__b4_s2_k13', 'c08_shift_trunc__b4_a2_r1_k3', 'c08_shift_trunc__b4_a2_r1_k4', 'c08_shift_trunc__b4_a2_r1_k6'], cls='bounded', tier='thorough', timeout=900, bound='as above'),
        K('poulpy-cpu-ref', 'verif_kani::c08_norm', ['c08_normalize__b4_b4_s2_s2_off0', 'c08_normalize__b4_b4_s2_s2_off3', 'c08_normalize__b4_b4_s1_s2_off4', 'c08_normalize__b4_b4_s2_s2_off9',
          'c08_normalize__b4_b3_s2_s2_off0', 'c08_normalize__b4_b5_s2_s1_off1', 'c08_normalize__b4_b4_s1_s1_offm9_gap', 'c08_normalize__b4_b4_s1_s1_offm5_gap'],
          cls='bounded', tier='thorough', timeout=900, bound='as above'),
        K('poulpy-hal', 'layouts::encoding::verif_kani', ['c08_div_round_i64_pow2'], cls='complete', timeout=900,
          functions=['layouts::encoding::div_round_i64 (every dividend, every power-of-two divisor 2^0..2^61)']),
        K('poulpy-hal', 'layouts::encoding::verif_kani', ['c08_encode_round_trip__b3_k5', 'c08_encode_round_trip__b16_k17', 'c08_encode_round_trip__b16_k48'], cls='bounded', timeout=1200,
          bound='N=2, 3 limbs, (radix, k) constant per harness; value, index and stale receiver contents symbolic',
          functions=['VecZnx::encode_coeff_i64', 'encode_vec_i64', 'encode_vec_i128', 'decode_coeff_i64', 'decode_vec_i64', 'decode_vec_i128']),
        K('poulpy-hal', 'layouts::encoding::verif_kani', ['c08_encode_round_trip__b3_k%d' % k for k in (1, 2, 3, 4, 6, 7, 8, 9)] + ['c08_encode_round_trip__b16_k%d' % k for k in (1, 15, 16, 32, 33, 47)],
          cls='bounded', tier='thorough', timeout=1200, bound='as above: radix 3 with every k in 1..9, radix 16 with k in {1,15,16,17,32,33,47,48}'),
    ],
    trusted_base=VERUS_TRUST + [FMT_STUB, 'kernel law per radix imported from Kani harnesses c08_{first,middle,final,digit}_b<radix> (quick tier discharges radices %s only)' % KERNEL_QUICK],
    assumptions=['inputs within the documented headroom |x| <= 2^61 (normalize_assign) / |a| <= 2^62, |carry| <= 2^61 (kernels)'],
    remainder='vec_znx_normalize and shifts beyond the bounded shapes (only N=1, small radices); right shifts that leave an empty limb gap (open known finding, DESIGN §6-10); fused big-normalise forms; encode/decode beyond N=2 / 3 limbs / radices 3 and 16; decode_vec_float',
)

PROPS['C12'] = dict(
    level='proof',
    technique='Kani contract check of the real arena allocator (take_slice_aligned / take_slice_default / scratch_available) with symbolic misalignment, buffer and take lengths; Verus obligations on scratch slices of the verified column operations',
    level_text='Allocator: complete proof of address/length/alignment/disjointness postconditions and of the availability ledger (avail decreases by exactly len + alignment padding; no padding when len is a multiple of 64); no panic whenever the request fits; the out-of-space panic is reachable only when it does not fit (should_panic harness). Coefficient-domain in-place ops (rotate/automorphism/mul_xp_minus_one/normalize _assign): unbounded Verus chain size query -> HAL default glue (take_slice of *_tmp_bytes/8 elements) -> scratch precondition of the reference operation.',
    level_note='Core layer: glwe_keyswitch_tmp_bytes / glwe_keyswitch_internal_tmp_bytes / gglwe_product_dft_tmp_bytes (and glwe_decrypt_tmp_bytes for glwe_decrypt) are proved sufficient for glwe_keyswitch, glwe_keyswitch_internal and gglwe_product_dft (every take and every inner availability assertion holds with exactly the advertised bytes, unbounded in all shape parameters) under A-ALIGN and A-VMP-RES; the other DFT-family and core operations are NOT decided here; for ring degrees N < 8 limb byte sizes are not multiples of 64 and padding is not budgeted by size queries (DESIGN §6-4).',
    units=[
        V('core_g2g_encrypt'),
        V('core_glwe_encrypt'), V('core_key_encrypt'), V('core_ksk_encrypt'), V('core_glwe_aut'),
        K('poulpy-cpu-ref', 'hal_defaults::scratch::verif_kani', ['c12_take_slice_aligned_contract', 'c12_take_slice_aligned_panics_iff_too_small',
          'c12_take_slice_default_u8', 'c12_take_slice_default_i64', 'c12_take_slice_default_f64', 'c12_take_slice_default_i128'], cls='complete', timeout=600,
          functions=['hal_defaults::scratch::take_slice_aligned', 'HalScratchDefaults::take_slice_default', 'HalScratchDefaults::scratch_available_default', 'HalScratchDefaults::scratch_from_bytes_default']),
        V('vec_znx_ring'), V('vec_znx_normalize'), V('hal_glue'), V('hal_delegates'), V('vmp_fft64'), V('vmp_ntt120'), V('glwe_ops'), V('core_keyswitch'), V('core_extprod'), V('core_mul'), V('core_lwe_ksk'), V('core_relin'), V('core_trace'), V('core_lwe_to_glwe'), V('core_matrix', lemmas=['lemma_same_layout']), V('core_packing', lemmas=['lemma_merge_both', 'lemma_merge_lo', 'lemma_merge_hi']), V('bdd_blind_rotation_block', lemmas=['lemma_or_ge', 'lemma_div_lt']), V('ckks_mul_const'), V('hal_scratch_split'), V('core_ggsw_expand'), V('bdd_blind_rotation'), V('core_encrypt_pk'), V('core_lwe_encrypt'), V('bdd_cmux'), V('core_decrypt'),
        K('poulpy-cpu-ref', 'verif_kani::c12_window', [f'c12_window_{op}__n4' for op in ('normalize_assign', 'rotate_assign', 'automorphism_assign', 'mul_xp_minus_one_assign', 'lsh_assign', 'rsh_assign')],
          cls='bounded', timeout=1200, bound='N=4 (limb byte size 32: not a multiple of the 64-byte alignment), size 2',
          functions=['HAL traits VecZnx{Normalize,Rotate,Automorphism,MulXpMinusOne,Lsh,Rsh}Assign with a scratch of exactly the companion *_tmp_bytes; two runs with different scratch contents']),
        K('poulpy-cpu-ref', 'verif_kani::c12_window', ['c12_window_normalize_assign__n2', 'c12_window_rotate_assign__n2', 'c12_window_rsh_assign__n2', 'c12_window_normalize_assign__n8', 'c12_window_rsh_assign__n8'],
          cls='bounded', tier='thorough', timeout=1200, bound='N=2, N=8'),
    ],
    trusted_base=VERUS_TRUST + CORE_TRUST,
    assumptions=['A-KS-MONO (core_lwe_to_glwe:lwe_keyswitch_default): glwe_keyswitch_tmp_bytes does not decrease when its operands get more limbs', 'buffer lengths <= 192 bytes in the allocator harnesses (the code is length-generic: no loop, pure pointer arithmetic)'],
    remainder='(operation, *_tmp_bytes) pairs of the DFT family and of the core/bin-fhe/ckks layers; monotonicity of size queries',
)

PROPS['C17'] = dict(
    level='proof',
    technique='Verus: every index, split and slice length in the extracted functions is a discharged obligation under the layout invariant wf(); Kani pointer checks on the real unsafe allocator',
    level_text='For the functions under contract, all shapes: no out-of-bounds index/split; every limb block addressed lies inside the buffer (lemma_limb_len). Allocator: Kani memory-safety checks (OOB, misaligned, dangling) on take_slice_aligned / take_slice_default with symbolic alignment.',
    level_note='Only the listed functions; the unsafe accessor bodies (ZnxView::at/at_mut) are checked by Kani for buffers of 64 bytes (all well-formed shapes); FFT/NTT kernels, AVX code and the core layer are not covered.',
    units=[V('znx'), V('vec_znx_arith'), V('vec_znx_ring'), V('vec_znx_normalize'), V('vmp_fft64'), V('vmp_ntt120'), V('cnv_prepare_fft64'), V('cnv_apply_fft64'),
           K('poulpy-cpu-ref', 'hal_defaults::scratch::verif_kani', ['c12_take_slice_aligned_contract', 'c12_take_slice_default_i64', 'c12_take_slice_default_i128'], cls='complete', timeout=600,
             functions=['take_slice_aligned (unsafe)', 'take_slice_default (unsafe cast)']),
           K('poulpy-hal', 'layouts::vec_znx::verif_kani', ['c18_vec_znx_read_header'], cls='complete', timeout=1500,
             functions=['<VecZnx as ReaderFrom>::read_from: after ANY header the receiver satisfies size <= max_size and n*cols*max_size*8 <= buffer -- what the unchecked accessors rely on for deserialised objects (seed C17-4)']),
           K('poulpy-hal', 'layouts::vec_znx::verif_kani', ['c17_vec_znx_accessors_layout'], cls='complete', timeout=900,
             functions=['ZnxView::at / at_ptr / raw, ZnxViewMut::at_mut on VecZnx (unsafe from_raw_parts): the I-LAYOUT interface the Verus units trust']),
           K('poulpy-hal', 'layouts::vec_znx::verif_kani', ['c17_vec_znx_reallocate_limbs_invariant'], cls='bounded', timeout=1500,
             bound='n, cols <= 2, limb counts <= 3 (all symbolic): alloc, set_size, reallocate_limbs (grow and shrink), set_size',
             functions=['VecZnx::alloc / set_size / reallocate_limbs: size <= max_size and n*cols*max_size*8 <= data.len() after every step (what the unchecked accessors rely on); alloc_aligned with zero bytes (fix 2f36d33)'])],
    trusted_base=VERUS_TRUST,
    assumptions=['VecZnx::from_data is unchecked in the real API: wf() of every operand is a precondition'],
    remainder='unsafe accessors of the layouts, DFT/NTT/VMP kernels, AVX loads/stores, deserialised objects used afterwards',
)

PROPS['C15'] = dict(
    level='proof',
    technique='Kani loop-free full-domain check of the real UnsignedInteger::bit_index for every integer width; Verus contracts on the index/rotation expressions sliced from the real FheUint bit-surgery functions and from the partial-preparation work split; Verus representation invariant + functional postcondition on the real text of the blind retriever (add_core / add / flush / reset / retrieve) over abstract GLWE plaintexts',
    level_text='Complete for u8..u128: bit_index is a bijection of 0..BITS onto 0..BITS (inverse formula), byte k occupies residue class k modulo BYTES (the documented trace isolation). Unbounded (every word width 8..128, every ring degree 2^log_n with LOG_BITS <= log_n < 63, every bit/byte index): encrypt_sk, decrypt, pack, get_bit_lwe (both branches), get_bit_glwe, get_byte, zero_byte, sext, splice_u8 and splice_u16 address coefficient bit_pos(i) * 2^(log_n - LOG_BITS) of the documented layout (rotation amounts, their signs, the trace start and the byte pairs of a half-word), with no overflow; partial preparation hands thread t / position l the bit bit_start + t*chunk + l.',
    level_note='The bit-addressing arithmetic, and the blind retriever as a data structure: for every capacity (1..=31 accumulator levels), every number of items (powers of two or not) and every selector, the real add / flush / retrieve keep the representation invariant (flags all 0 after flush / reset, counter = number of items, each flagged level = CMux selection of a complete block) and flush returns the item whose index is spelled by selector bits offset..offset+levels, GIVEN that cmux_assign_neg(res, a, s) computes s ? a : res on plaintexts and glwe_copy copies (assumed: C04 / C09); and glwe_blind_retrieval_statefull (the butterfly of conditional swaps) leaves in element 0 the element addressed by the selector sub-field, for every vector length and every bit_mask <= 62, GIVEN that cswap swaps exactly when its selector bit is 1. Everything else homomorphic (bootstrapping, word operations, what rotate/trace/pack do with those positions, the HashMap-based blind selection) is undecided; glwe_blind_retrieval_statefull_rev is proved to apply the levels in the opposite order, and the pure lemma lemma_rev_fwd shows that it restores the vector the forward network started from. The replication loop of sext is covered (three doublings, the i-th by the distance of bit 2^i, for every word width; ring degrees with log_n - LOG_BITS < 56).',
    units=[K('poulpy-bin-fhe', 'bdd_arithmetic::verif_kani', [f'c15_bit_index_{t}' for t in ['u8', 'u16', 'u32', 'u64', 'u128']], cls='complete', timeout=300,
             functions=['UnsignedInteger::bit_index (u8, u16, u32, u64, u128)']),
           V('bitaddr', lemmas=['lemma_bit_pos_injective', 'lemma_coeff_range', 'bit_index_c', 'c15_encrypt_slot', 'c15_decrypt_slot', 'c15_pack_slot', 'c15_get_bit_lwe_slot',
                                'c15_get_bit_glwe_rot', 'c15_get_byte_rot', 'c15_zero_byte_rot', 'c15_sext_rot', 'c15_sext_replication', 'c15_splice_u8_rot', 'c15_splice_u16_bytes']),
           V('partition', lemmas=['c20_prepare_item', 'c20_no_item_skipped_or_repeated']),
           V('bdd_retriever', lemmas=['lemma_psel', 'lemma_rev_fwd'])],
    trusted_base=VERUS_TRUST + ['slice substitutions (textual, listed in the unit): module.log_n() => log_n, T::LOG_BITS / T::LOG_BYTES => explicit parameters, T::bit_index( => bit_index_c(log_bytes, (the same real expression, proved for LOG_BYTES 0..=4)',
                  'the slices keep only the index/rotation expressions of the named functions; the homomorphic operations applied at those positions (rotate, trace, key-switch, pack) are not modelled'],
    assumptions=['ring degree at least the word width (log_n >= LOG_BITS; debug-asserted by encrypt_sk/decrypt) and log_n < 63'],
    remainder='circuit bootstrapping, encrypted word operations, splice/sext/swap/blind selection semantics under encryption; noise growth through the CMux tree of the retriever',
)

PROPS['C16'] = dict(
    level='proof',
    technique='Kani loop-free differential check of the two real constant encoders (full value domain, constant (base2k, k)); Verus contracts on the real text of the CKKS metadata algebra (checked_*, ensure_*, get_mul_*_params, offsets, set_meta_checked, CKKSInfos defaults) and of the ciphertext operations (ckks_{add,sub}_{into,assign}, safe and unsafe forms; rescale / align; multiplication and division by a power of two; negation; conjugation; slot rotation) over an abstract torus algebra of the GLWE operations',
    level_text='Unbounded proof over all usize inputs under the type invariant log_delta+log_budget <= 2^32: Ok exactly under the documented inequality, with the documented values; never success with log_delta+log_budget exceeding the stored precision; no overflow/panic on the admissible domain. Value tracking of ct+ct / ct-ct (out of place and in place), for EVERY metadata combination: val(dst) == val(a) +/- val(b) where val(t, budget) is the value a torus content t carries at a given budget -- the operand with more budget is shifted by exactly the budget difference plus the common offset, the resulting log_delta/log_budget are min(..)/min(..)-offset, Err exactly when the offset exceeds the smaller budget and then the metadata is untouched.  Rescale / align / pow2 / negation / conjugation / rotation: the message is unchanged, scaled by 2^(+/-bits), negated, or mapped by the automorphism of the key asked for; log_delta + log_budget stays within the destination; failure exactly under the stated inequality (or a missing rotation key).',
    level_note='anyhow::Error replaced by an opaque struct (R6); the newtype wrappers are restated (I-NEWTYPE); the value statement rests on four axioms about the GLWE operations on torus contents (a left shift by k with k bits less budget is the same value; values add; shift by 0 is the identity; addition commutes), truncation to the destination limb count ignored; further axioms for the later additions (AX-SCALE, AX-LSH2, AX-SCALE-INV, AX-NEG, AX-NORM, AX-AUT; a model of all of them: val(t, b) = t * 2^b); the plaintext variants of add / sub, the ciphertext multiplication value, the composite operations and all numerical slot semantics are undecided.',
    units=[V('ckks_meta'), V('ckks_align'),
           K('poulpy-ckks', 'layouts::plaintext::cst::verif_kani', ['c16_const_digits__b19_k52', 'c16_const_digits__b19_k57', 'c16_const_digits__b19_k9', 'c16_const_digits__b52_k9'], cls='complete', timeout=900,
             functions=['encode_const_coeff_i64 vs encode_const_coeff_i128 (poulpy-ckks/src/layouts/plaintext/cst.rs): same digits at the requested precision k for every value both represent; (base2k, k) constant per harness: k not a multiple / a multiple / below one limb'])],
    trusted_base=VERUS_TRUST + ['I-NEWTYPE: TorusPrecision/Base2K (macro-generated in poulpy-core) restated in the unit; usize::next_multiple_of assumed specification',
                  'ckks_align: axioms AX-LSH, AX-ADD, AX-0, AX-COMM on the uninterpreted torus algebra (external_body proof functions); GLWE operation contracts on torus contents (their column-wise delegation is proved in unit glwe_ops)'],
    assumptions=['type invariant effective_k <= max_k <= 2^32 of every operand (precondition)'],
    remainder='decoded slot values vs complex arithmetic (f64/f128 + DFT); plaintext variants of add / sub; composite operations (dot product, mul_add, add_many)',
)

PROPS['C18'] = dict(
    level='proof',
    technique='Kani contract check of the real VecZnx read_from/write_to: header bytes fully symbolic, every truncation point, Ok => consistent, Err => metadata unchanged',
    level_text='Complete in the header domain (2^320 headers) for a receiver of fixed capacity: no panic/overflow/OOB on any path, Ok implies size <= max_size and n*cols*max_size*8 <= buffer and fields equal the header, Err leaves metadata unchanged; every truncation point of a valid stream is rejected.',
    level_note='Receiver capacity fixed at 32 bytes (the code is capacity-generic); round trip is bounded in shape (thorough tier); GLWE/LWE/GLWECompressed and the compound wrappers GGLWE, GGSW, GLWESwitchingKey, GLWEAutomorphismKey, GLWEPublicKey, GGLWECompressed are covered for truncation at one concrete shape each (the wrapper code is shape-generic: straight-line field reads around the inner read); tensor/LWE-switching keys delegate to these; the multi-key containers of poulpy-bin-fhe are not covered.',
    units=[
        V('ser_gglwe_compressed'), V('ser_wrappers'), V('ser_hal'),
        K('poulpy-hal', 'layouts::vec_znx::verif_kani', ['c18_vec_znx_read_header', 'c18_vec_znx_read_truncated'], cls='complete', timeout=1500,
          functions=['<VecZnx as ReaderFrom>::read_from']),
        K('poulpy-hal', 'layouts::scalar_znx::verif_kani', ['c18_scalar_znx_read_header', 'c18_scalar_znx_read_truncated'], cls='complete', timeout=900,
          functions=['<ScalarZnx as ReaderFrom>::read_from']),
        K('poulpy-hal', 'layouts::mat_znx::verif_kani', ['c18_mat_znx_read_header'], cls='complete', timeout=1500,
          functions=['<MatZnx as ReaderFrom>::read_from']),
        K('poulpy-cpu-ref', 'verif_kani::c18_wrappers', ['c18_glwe_read_truncated', 'c18_lwe_read_truncated', 'c18_glwe_compressed_read_truncated'], cls='complete', timeout=900,
          functions=['<GLWE as ReaderFrom>::read_from', '<LWE as ReaderFrom>::read_from', '<GLWECompressed as ReaderFrom>::read_from (every truncation point of a valid stream: Err leaves metadata unchanged)']),
        K('poulpy-cpu-ref', 'verif_kani::c18_compound', ['c18_gglwe_read_truncated', 'c18_ggsw_read_truncated', 'c18_switching_key_read_truncated', 'c18_automorphism_key_read_truncated',
          'c18_public_key_read_truncated', 'c18_gglwe_compressed_seed_count_rejected', 'c18_automorphism_key_round_trip_p', 'c18_automorphism_key_compressed_round_trip_p'], cls='complete', timeout=900,
          functions=['<GGLWE as ReaderFrom>::read_from', '<GGSW as ReaderFrom>::read_from', '<GLWESwitchingKey as ReaderFrom>::read_from', '<GLWEAutomorphismKey as ReaderFrom>::read_from',
                     '<GLWEPublicKey as ReaderFrom>::read_from', '<GLWEAutomorphismKey / GLWEAutomorphismKeyCompressed as WriterTo + ReaderFrom> (round trip of the signed Galois element: all of i64)', '<GGLWECompressed as ReaderFrom>::read_from (every truncation point of a valid stream: Err leaves base2k/dsize/degrees/p/dist/k unchanged; a seed count above the receiver\'s is rejected for every 20-byte header)']),
        K('poulpy-bin-fhe', 'blind_rotation::lut::verif_kani::c18_brk', ['c18_blind_rotation_key_read_header', 'c18_blind_rotation_key_compressed_read_header'], cls='complete', timeout=900,
          functions=['<BlindRotationKey as ReaderFrom>::read_from', '<BlindRotationKeyCompressed as ReaderFrom>::read_from (16-byte header fully symbolic, every truncation point, receiver without key elements: Err leaves dist unchanged, Ok only for a complete valid header)']),
        K('poulpy-cpu-ref', 'verif_kani::c18_compound', ['c18_gglwe_compressed_read_truncated'], cls='complete', tier='thorough', timeout=1800,
          functions=['<GGLWECompressed as ReaderFrom>::read_from (every truncation point; 9 min, 10 GB)']),
        K('poulpy-hal', 'layouts::vec_znx::verif_kani', ['c18_vec_znx_round_trip__coeffs4'], cls='bounded', tier='thorough', timeout=2400,
          bound='n*cols*size <= 4 coefficients, contents symbolic', functions=['<VecZnx as WriterTo>::write_to']),
    ],
    trusted_base=[FMT_STUB, 'std::io::Cursor / byteorder as compiled by Kani'],
    assumptions=[],
    remainder='GGSWCompressed and the compressed key wrappers, multi-key containers beyond their own header (GGLWEToGGSWKey, BlindRotationKey elements, CircuitBootstrappingKey, BDDKey: a failure in element i leaves elements < i already replaced), round trip of the wrappers, cross-backend byte format (syntactic: no backend type parameter in these layouts)',
)

PROPS['C20'] = dict(
    level='proof',
    technique='Verus lemmas over the work-partition arithmetic sliced from the real multi-threaded functions (chunk_size, start, work-item index, extent of the slice handed to chunks_mut)',
    level_text='Unbounded proof for all item and thread counts >= 1: the number of chunks never exceeds the thread count (the zip drops no chunk), each work item is produced by exactly one (thread, position) pair, every index handed to get_circuit/get_bit_lwe is in range.',
    level_note='Only the partition arithmetic: scheduling, data races and the Sync/Send impls are not decided (Kani has no threads); the slice drops everything but the named statements.',
    units=[V('hal_scratch_split'), V('partition', lemmas=['lemma_chunks_le_threads', 'lemma_exact_cover', 'c20_execute_chunk_size', 'c20_execute_chunked_len', 'c20_prepare_item', 'c20_prepare_chunked_len', 'c20_no_item_skipped_or_repeated'])],
    trusted_base=VERUS_TRUST + ['std::slice::chunks_mut / Iterator::zip / thread::scope semantics; usize::div_ceil assumed specification'],
    assumptions=['threads >= 1 and items >= 1 (threads = 0 divides by zero, items = 0 makes chunks_mut(0) panic in the real code)'],
    remainder='interleavings, bit-identical results across thread counts, Module Sync/Send',
)

PROPS['C03'] = dict(
    level='proof',
    technique='Verus contracts on the real text of mod_exp_u64 / galois_element / galois_element_inv with number-theoretic lemmas (g*g^(M-1) == 1 mod 2^k); dependency-flow and radix-discipline contracts on the real text of the key-switching glue (gglwe_product_dft, glwe_keyswitch_internal, glwe_keyswitch, glwe_automorphism, glwe_automorphism_add) over assumed flow contracts of the transform-domain HAL operations',
    level_text='Unbounded proof: mod_exp_u64(x,e) == x^e mod 2^64 for all x,e; galois_element follows the sign convention and equals 5^|k| mod 2N; galois_element_inv(g)*g == 1 mod 2N for every odd g and every power-of-two order <= 2^33. Key-switching glue, for EVERY digit size, digit count, rank, limb count and input/key/output radix admitted by the API: no panic (every set_size within capacity, no underflow in the digit-group limb counts, every inner scratch assertion holds with exactly the advertised bytes), no stale scratch or result bytes reach the output (the accumulator must be cleared: for dsize >= 3 its last limbs are only added to), and every coefficient-domain vector folded into the key-switch accumulator is expressed in the key radix (the re-normalised copy, not the original operand, in the cross-radix branch).',
    level_note='Ring packing: each pairwise merge (pack_internal of glwe_pack, combine of the on-the-fly packer) produces, for EVERY presence pattern of its two operands, the one documented formula a/2 + (b/2)X^t + phi(a/2 - (b/2)X^t) over abstract plaintext values (module axioms + the level identity phi(xX^t) = -X^t phi(x) as precondition; GLWE operation values trusted). The glue statements are about which inputs reach the output and in which radix, not about values: that the gadget product decrypts to the expected image within the noise bound needs exact DFT products (C07) and is undecided, as are trace / packing / LWE conversion semantics and the sub / sub_negate / assign variants of the automorphism (same structure, not yet extracted).  Matrix level (core_matrix): GGLWE / GGSW key-switch, GGSW automorphism and the composition of automorphism keys apply the GLWE-level operation (abstract value function) to EVERY cell / every column of every cell of the result, for every row count the asserts admit.',
    units=[V('core_key_encrypt'), V('core_ksk_encrypt'), V('core_glwe_aut'), V('galois', lemmas=['lemma_odd_pow', 'lemma_galois_inverse']), V('core_keyswitch'), V('core_lwe_ksk'), V('core_trace'), V('core_lwe_to_glwe'), V('core_matrix', lemmas=['lemma_same_layout']),
           V('core_packing', lemmas=['lemma_merge_both', 'lemma_merge_lo', 'lemma_merge_hi', 'lemma_neg_add']), V('core_sample_extract'),
           K('poulpy-cpu-ref', 'verif_kani', ['c03_mask_mod_u64'], cls='complete', timeout=300, functions=['leaf fact x & (m-1) == x mod m (u64)'])],
    trusted_base=VERUS_TRUST + CORE_TRUST + ['assumed specifications of i64::unsigned_abs, i64::signum, u64::is_power_of_two',
                  'A-AUT: none needed after fix cfd9678 (glwe_automorphism_tmp_bytes now adds the big-accumulator automorphism / normalisation bytes)',
                  'vrad(v): limb radix of a coefficient-domain vector as an uninterpreted attribute; GLWE operands satisfy vrad(data) == base2k (precondition), glwe_normalize establishes it (restated contract)'],
    assumptions=[],
    remainder='everything that multiplies polynomials (gadget product value), noise bounds, trace / LWE conversion semantics, that the tree of merges yields the packed slots (the single merge is under a value-level contract: core_packing), the remaining GLWE automorphism variants',
)

BOUNDED_EXPL = 'bounded symbolic execution of the real code under the stated shape bounds (values fully symbolic); not a proof'

PROPS['C14'] = dict(
    level='other',
    technique='Verus contract proof of the real lookup_table_rotate (extended-domain rotation == per-polynomial rotation + cyclic permutation, unbounded in N, extension factor and rotation index); Kani bounded contract check of the real clear path lookup_table_set + lookup_table_rotate against the indexing formula, every rotation index symbolic',
    level_text='Mixed. Proved (unbounded): for every N >= 1, every extension factor, every k in [-2N*ext, 2^61] and every limb, lookup_table_rotate turns the extended polynomial P (coefficient m = coefficient m/ext of polynomial m%ext) into X^k * P in Z[X]/(X^(N*ext)+1), negacyclic sign included; no panic, no overflow, scratch of exactly vec_znx_rotate_assign_tmp_bytes suffices. Bounded (N = 4, extension factor 1, table lengths 2 and 4, entries symbolic): after lookup_table_set and a rotation by any index t in [0, 2N) the constant coefficient equals +-f[floor((t+drift)/step)]*scale with the negacyclic sign.',
    level_note='lookup_table_set for extension factor > 1 is only covered through the rotation it ends with (CBMC does not finish the set path for ext >= 2); blind rotation under encryption (external products) and key distributions are undecided; mod_switch_2n is covered by bounded harnesses (10 radices on both sides of log2(2N*ext), both directions).',
    explanation=BOUNDED_EXPL,
    units=[V('bdd_blind_rotation'), V('bdd_blind_rotation_block_val'), V('bdd_blind_rotation_ext_val', lemmas=['lemma_div_lt']), V('lut', lemmas=['lemma_inter_rot', 'lemma_mod_scale', 'lemma_rot_no_min']),
           K('poulpy-bin-fhe', 'blind_rotation::lut::verif_kani', ['c14_lut_clear__n4_ext1_f4', 'c14_lut_clear__n4_ext1_f2'], cls='bounded', timeout=1500,
             bound='N=4, ext=1, table length 4 / 2, base2k=4, k=3', functions=['LookupTableFactory::lookup_table_set', 'LookupTableFactory::lookup_table_rotate']),
           K('poulpy-bin-fhe', 'blind_rotation::lut::verif_kani::c14_mod_switch', ['c14_mod_switch__b%d_%s' % (b, d) for b in (2, 3, 4, 5, 6, 7, 8, 10, 13, 19) for d in ('right', 'left')], cls='bounded', timeout=900,
             bound='domain size 2N*ext = 32, 3 limbs, LWE dimension 1 (the code is coefficient-wise), radix constant per harness; limbs symbolic balanced digits',
             functions=['blind_rotation::mod_switch_2n (both directions): nearest integer to x * 2^(log2(2N*ext)-1) for the exact torus value x of all limbs'])],
    trusted_base=VERUS_TRUST + [FMT_STUB, 'assumed std specifications of <[T]>::rotate_right / rotate_left (cyclic shift of the sequence)',
                  'HAL contract of Module::vec_znx_rotate_assign as proved for the reference implementation in units vec_znx_ring / hal_glue (dispatch through the delegate macro is syntactic)',
                  'ScratchOwned::alloc / borrow: every borrow hands out the whole arena'],
    assumptions=['Module::new_marker: these routines use only coefficient-domain operations', 'no limb coefficient equals i64::MIN (tables are normalised digits)'],
    remainder='blind rotation under an LWE ciphertext (CGGI execute_* paths), key distributions, limbs above the noise floor, lookup_table_set for ext >= 2, mod_switch_2n beyond the bounded shapes',
)

PROPS['C19'] = dict(
    level='proof',
    technique='Verus contracts on the real text of GLWEDecompress::decompress_glwe, vec_znx_fill_uniform_ref, znx_fill_uniform_ref and Source::next_u64n (the stream is an uninterpreted function of (seed, word index)); Kani bounded contract check of the same decompression with the stream abstracted to a symbolic tape',
    level_text='Unbounded (every ring degree, rank, limb count, radix 1..=63): after decompression column 0 is the stored body (limbs beyond the stored size zero), and coefficient k of limb j of mask column i is the balanced digit of word ((i-1)*size + j)*N + k of the stream seeded by the stored seed -- columns 1..rank, limb-major, in order on ONE stream, exactly one word per coefficient (the rejection loop of next_u64n never iterates for a power-of-two bound); nothing else is written. Bounded (Kani, N = 2, (rank, size) in {(2,2), (3,1)}): the same order statement by executing the real code on a symbolic tape.',
    level_note='That the ENCRYPTION side (glwe_encrypt_sk_internal) fills its mask columns in the same order from the same stream is read off the source (a `(1..cols)` loop of vec_znx_fill_uniform on source_xa), not proved; body equality needs the DFT and is undecided; GGLWE/GGSW/key decompression (loops over this routine) and serialisation after compression are not covered.',
    units=[V('core_lwe_decompress'), V('core_glwe_encrypt_api'), V('core_matrix', lemmas=['lemma_same_layout']), V('sampling'), V('core_encrypt'), V('ser_gglwe_compressed'), V('core_secret_tensor', lemmas=['lemma_slot_injective', 'lemma_slot_range', 'c19_tensor_prepare_slot', 'c19_tensor_prepare_ranges', 'c19_tensor_prepare_inner_range']),
           K('poulpy-cpu-ref', 'verif_kani', ['c19_glwe_decompress_mask_order__n2_rank2_size2', 'c19_glwe_decompress_mask_order__n2_rank3_size1'], cls='bounded', timeout=1500,
             bound='N=2, (rank, size) in {(2,2), (3,1)}', functions=['GLWEDecompress::decompress_glwe', 'vec_znx_fill_uniform_ref', 'VecZnx::fill_uniform'])],
    trusted_base=VERUS_TRUST + [FMT_STUB, 'Source reduced to (seed, words drawn); next_u64 returns draw(seed, pos) and advances by one (ChaCha8 itself uninterpreted)', 'I-GLWE / I-NEWTYPE preludes; SetLWEInfos::set_base2k changes only the radix (restated)'],
    assumptions=['stream abstraction: the k-th 64-bit word of the ChaCha8 stream is an uninterpreted function of (seed, k)'],
    remainder='bit-identity of the body with standard encryption (DFT), that encryption draws the mask in the same order (syntactic), GGSW/switching/automorphism/tensor/GGLWE-to-GGSW/blind-rotation key encryption and decompression (the GGLWE matrix routines they call ARE under contract, unit core_encrypt: per cell the gadget plaintext, the seed drawn, where it is stored, the order of the error stream), serialisation after compression',
)

PROPS['C02'] = dict(
    level='proof',
    technique='Verus contracts on the real text of the GLWE operation wrappers (trait default methods of poulpy-core/src/api/operations.rs) against the HAL column contracts that are themselves proved for the reference implementation (units vec_znx_arith / vec_znx_ring, same contract text); Kani bounded contract check of the same wrappers on a marker module as a second, executable reading',
    level_text='Unbounded (every ring degree, rank, limb count, rotation amount, limb value inside the no-overflow domain): glwe_add_into, glwe_add_assign, glwe_sub, glwe_sub_assign, glwe_sub_negate_assign, glwe_negate, glwe_negate_assign, glwe_copy, glwe_rotate, glwe_rotate_assign, glwe_mul_xp_minus_one(+_assign) (for the last four both copies of the text: the public API defaults and the *Default traits Module<BE> dispatches to) apply the exact ring operation column by column with the documented rank rule (missing columns of the lower-rank operand count as zero) and HAL size rule, touch no limb beyond the active size, never panic on an admissible call, and the in-place rotations need exactly glwe_rotate_tmp_bytes of scratch; column-wise equality implies phase equality for every key. glwe_rsh, glwe_lsh(+_assign, _add, _sub), glwe_normalize(+_assign) (both copies): column i of the result is the HAL shift / normalisation (an uninterpreted deterministic function of radix, amount and the operand column only) of column i, columns a lower-rank operand lacks count as zero, nothing else is written, exactly glwe_shift_tmp_bytes / glwe_normalize_tmp_bytes of scratch suffices. Bounded (Kani, N = 2/4, ranks 0..2, sizes 1..2): the same statements checked by executing the real wrappers on symbolic limbs.',
    level_note='The HAL contracts are proved for the reference backend functions; the one-line delegation Module -> backend -> reference function is syntactic (trusted). GGSW variants are not covered; WHAT the HAL shift / normalisation computes is the C08 question (bounded harnesses there), here only its column-wise delegation is proved.',
    units=[K('poulpy-cpu-ref', 'verif_kani::c09_rings', ['c09_mul_xp_minus_one__n4_a1_r2_p1'], cls='bounded', timeout=900, bound='N = 4, operand 1 limb, result 2 limbs and 2 columns, all values symbolic (|a| < 2^62), stale result', functions=['vec_znx_mul_xp_minus_one (out of place): structure-independent complement of the Verus unit vec_znx_ring']), V('glwe_ops'), V('vec_znx_arith'), V('vec_znx_ring'),
           K('poulpy-cpu-ref', 'verif_kani::c02', ['c02_glwe_add_sub__ranks_1_1', 'c02_glwe_add_sub__ranks_2_0', 'c02_glwe_add_sub__ranks_0_1', 'c02_glwe_assign_negate_copy__rank1'],
             cls='bounded', timeout=1500, bound='N=2, ranks 0..2, sizes 1..2',
             functions=['GLWEAdd::glwe_add_into/assign', 'GLWESub::glwe_sub/sub_assign', 'GLWENegate::glwe_negate', 'GLWECopy::glwe_copy', 'GLWERotate::glwe_rotate/rotate_assign', 'GLWEMulXpMinusOne::glwe_mul_xp_minus_one']),
           K('poulpy-cpu-ref', 'verif_kani::c02b', ['c02_glwe_sub_negate_assign__ranks_0_1'], cls='bounded', timeout=900, bound='N=2, ranks (0,1)', functions=['GLWESub::glwe_sub_negate_assign']),
           K('poulpy-cpu-ref', 'verif_kani::c08_shift', ['c02_lsh_sub__b4_a2_r1_k6', 'c02_lsh_add__b4_a2_r2_k3'], cls='bounded', timeout=900,
             bound='N=1, radix 4, operand 2 limbs (|x| < 2^12), result 1 or 2 balanced limbs, shift constant, carry buffer DIRTY (symbolic)',
             functions=['vec_znx_lsh_sub, vec_znx_lsh (accumulating form = vec_znx_lsh_add_into): res -/+ a * 2^k on the torus within one unit of the last limb, whatever the scratch held (kernels behind glwe_lsh_sub / glwe_lsh_add)']),
           K('poulpy-cpu-ref', 'verif_kani::c08_shift', ['c02_lsh_sub__b4_a2_r2_k3', 'c02_lsh_sub__b4_a2_r1_k0', 'c02_lsh_add__b4_a2_r1_k6'], cls='bounded', tier='thorough', timeout=900, bound='as above'),
           K('poulpy-cpu-ref', 'verif_kani::c02', ['c02_glwe_rotate_mul_xp__n4_rank1'], cls='bounded', tier='thorough', timeout=1500, bound='N=4, rank 1, every rotation amount in i64')],
    trusted_base=VERUS_TRUST + [FMT_STUB, 'I-NEWTYPE / I-GLWE (vx/prelude/newtypes.rs, glwe.rs): Rank/Base2K/Degree wrappers and the GLWE container restated with their specifications (operator impl bodies external)',
                  'HAL dispatch: Module<BE>::vec_znx_* forwards to the reference function whose contract is proved (syntactic)'],
    assumptions=['no i64 overflow in limb sums/differences, no limb equal to i64::MIN where a column is negated or rotated (preconditions)', 'operands and result use the same limb radix (asserted by the code except in glwe_negate / glwe_rotate / glwe_copy / glwe_mul_xp_minus_one)'],
    remainder='GGSW variants; the value computed by the HAL shifts / cross-radix normalisation (C08); one unit of the last limb per truncated operand (no truncation occurs in the ring operations)',
)

PROPS['C01'] = dict(
    level='proof',
    technique='Verus contracts: (i) on the integer statements sliced from the real NoiseInfos::target_limb_and_scale (where and at which scale the fresh error is injected); (ii) a dependency-flow contract on the real text of glwe_decrypt (poulpy-core/src/decryption/glwe.rs) over assumed flow contracts of the transform-domain HAL operations',
    level_text='Unbounded. (i) for every precision k in 1..=2^32 and every radix 1..=64 the error limb is ceil(k/base2k)-1 and the scale exponent is (limb+1)*base2k-k in [0, base2k): the error enters exactly at precision k. (ii) for every rank, limb count and ring degree, every limb of the decrypted plaintext depends on EXACTLY every active limb of every ciphertext column and every secret column: the phase is accumulated at the full ciphertext precision (no low limb is dropped before the final normalisation, which would cost more than the one unit of rounding the property allows), nothing of the scratch arena or of the previous plaintext contents reaches it, limbs beyond the plaintext size are untouched, no panic, and a scratch of exactly glwe_decrypt_tmp_bytes suffices.',
    level_note='(ii) is a statement about which inputs reach the output, not about values: that the accumulated phase equals message + error needs exact DFT products (C07) and is undecided, as are the encryption side, the public-key 1-norm bound, the sampling distribution and the compressed variants.  LWE (core_lwe_encrypt): encryption and decryption are under VALUE-level contracts over abstract HAL value functions -- the decrypted limbs are hal_normalize(pt radix, 0, ct radix, phase) with phase_i = b_i + <a_i, s>, for every pair of radices. The f64 exp2 of the exponent is dropped by the slice in (i).',
    units=[V('core_glwe_encrypt_api'), V('core_glwe_encrypt'), V('core_lwe_encrypt'), V('noise', lemmas=['c01_target_limb_and_exponent']), V('core_decrypt'),
           K('poulpy-cpu-ref', 'verif_kani::c01_tailcut', ['c01_tailcut_fill_dist__n2', 'c01_tailcut_add_dist__n2', 'c01_tailcut_fill_normal__n2', 'c01_tailcut_add_normal__n2'], cls='bounded', timeout=1200,
             bound='2 coefficients, at most 2 rejected draws in total, tail cut 3.2 (= sigma, the tightest admissible), draws nondeterministic finite f64 in [-1000, 1000] from a scripted source',
             functions=['znx_fill_dist_f64_ref', 'znx_add_dist_f64_ref', 'znx_fill_normal_f64_ref', 'znx_add_normal_f64_ref (rejection sampling: each coefficient is the rounded FIRST in-bound draw, nothing beyond it is consumed; no error exceeds the bound)'])],
    trusted_base=VERUS_TRUST + CORE_TRUST + ['slice substitution ` as f64).exp2()` => `)`: scale == 2^e is not checked', 'usize::div_ceil assumed specification',
                  'R8 / subst in core_decrypt: `c0_big.data_mut().fill(0)` is read as zeroing every limb of the accumulator; the temporary `pt.to_mut()` is named'],
    assumptions=[],
    remainder='phase = message + error (needs exact DFT products), encryption side, public-key encryption bound, decryption rounding value, compressed forms, four backends',
)

PROPS['C06'] = dict(
    level='proof',
    technique='Kani contract check of the real uniform sampling kernels with the ChaCha8 stream abstracted to a symbolic tape: range, bijection on the low bits, one draw per coefficient, column frame; Verus contracts on the real text of Source::next_u64n, znx_fill_uniform_ref and vec_znx_fill_uniform_ref (unbounded in N and limb count): which stream word lands in which coefficient',
    level_text='Unbounded (Verus): coefficient k of limb j of the filled column is the balanced digit of stream word pos + j*N + k, the source advances by exactly N*size words, no other limb is written -- the mask is a function of the mask seed and the stream position only. Complete in stream values and radix (1..=62/63), bounded in shape (N=2, size 2) (Kani): every mask limb lies in [-2^(b-1), 2^(b-1)) and is a bijective image of the low b bits of exactly one stream word, coefficients consume the stream in order (limb-major), other columns are untouched; next_u64n never rejects for power-of-two bounds.',
    level_note='Statistical claims (sigma of the error, uniformity of ChaCha8 itself) and seed separation of the encryption routines are not contract properties / not covered; Source::new is abstracted (cpuid).',
    units=[V('core_g2g_encrypt'), V('core_glwe_encrypt_api'), V('core_key_encrypt'), V('core_ksk_encrypt'), V('core_lwe_encrypt'), V('sampling'), V('core_encrypt'), V('cbt_key_encrypt'), V('core_glwe_encrypt'),
           K('poulpy-hal', 'verif_kani', ['c06_next_u64n_power_of_two', 'c06_vec_znx_fill_uniform__n2_size2'], cls='complete', timeout=900, functions=['Source::next_u64n', '<VecZnx as FillUniform>::fill_uniform']),
           K('poulpy-cpu-ref', 'verif_kani', ['c06_vec_znx_fill_uniform_ref__n2_size2'], cls='complete', timeout=900, functions=['znx_fill_uniform_ref', 'vec_znx_fill_uniform_ref'])],
    trusted_base=VERUS_TRUST + ['Source reduced to (seed, words drawn) in the Verus unit'],
    assumptions=['stream abstraction: every u64 drawn from ChaCha8 is an independent symbolic value'],
    remainder='empirical sigma, uniformity of the generator, determinism in (plaintext, secret, seeds) and seed separation of the key-material routines other than the GGLWE-level encryptions (core_encrypt) and the stream order of the circuit-bootstrapping bundle (cbt_key_encrypt)',
)

AVX_STUBS = 'lane-wise models (Intel SDM) of _mm256_srlv_epi64, _mm256_sllv_epi64, _mm256_add_epi64, _mm256_sub_epi64, _mm256_sll_epi64, _mm256_srl_epi64, _mm256_i64gather_epi64 (Kani cannot interpret these intrinsics)'
PROPS['C10'] = dict(
    level='other',
    technique='Kani equivalence check: the real AVX2 kernel and the real reference kernel run on the same symbolic inputs and must produce bit-identical outputs',
    level_text='Bounded in length (3, 5, 9 elements = SIMD body + every tail shape; ring switches 4..16), complete in element values (inside the no-overflow domain of the reference) and in lsh; radix constant per harness: add/sub/negate families, multiplication by powers of two (k in -62..20), ring switching and digit extraction (quick tier); the 13 normalisation step kernels (thorough tier).',
    level_note='The AVX module is mounted under cfg(kani) because the enable-avx feature cannot be built by cargo-kani; nine intrinsics are replaced by lane-wise models (trusted). The by-constant convolution kernels run on windows of larger buffers (they form, without dereferencing, a pointer one block outside the operand after the last term). znx_automorphism_avx, the FFT/NTT AVX kernels, and scheme-level pipelines are not covered.',
    explanation=BOUNDED_EXPL,
    units=[K('poulpy-cpu-avx', 'verif_kani', ['c10_add_family__len5', 'c10_add_family__len9', 'c10_add_family__len3', 'c10_mul_pow2__len5', 'c10_switch_ring__8_to_8',
             'c10_switch_ring__16_to_8', 'c10_switch_ring__8_to_16', 'c10_switch_ring__4_to_16', 'c10_digit__b17_len5'], cls='bounded', timeout=900,
             bound='slice lengths 3/5/9 (switch_ring 4..16), radix 17',
             functions=['znx_add_avx', 'znx_add_assign_avx', 'znx_sub_avx', 'znx_sub_assign_avx', 'znx_sub_negate_assign_avx', 'znx_negate_avx', 'znx_negate_assign_avx',
                        'znx_mul_power_of_two_avx', 'znx_mul_power_of_two_assign_avx', 'znx_mul_add_power_of_two_avx', 'znx_switch_ring_avx',
                        'znx_extract_digit_addmul_avx', 'znx_normalize_digit_avx', 'znx_normalize_{first,middle,final}_step*_avx (13 kernels)']),
           K('poulpy-cpu-avx', 'verif_kani', [f'c10_norm_{g}__b{b}_len5' for b in (17, 1, 52, 62) for g in ('first', 'middle', 'final')] + ['c10_digit__b52_len5'],
             cls='bounded', tier='thorough', timeout=2400, bound='slice length 5, radices 17, 1, 52, 62 (the 13 normalisation step kernels: 10-25 min per harness)'),
           K('poulpy-cpu-avx', 'verif_kani', ['c10_norm_middle_sub__b52_lsh20_len4', 'c10_norm_middle_sub__b17_lsh5_len4'], cls='bounded', timeout=900,
             bound='the subtracting middle step alone, one SIMD vector (length 4), radix / shift (52, 20) and (17, 5), digits |x| < 2^62, carries < 2^61 (about 10 s each)',
             functions=['znx_normalize_middle_step_sub_avx vs znx_normalize_middle_step_sub_ref']),
           K('poulpy-cpu-avx', 'verif_kani', ['c10_cnv_const_1coeff__a1_b3', 'c10_cnv_blk_moves'], cls='bounded', timeout=1500,
             bound='by-constant convolution: a_size 1, b_size 3, every output limb index 0..=a+b, values in the documented i32 domain; block moves: n=16, 2 rows x 2 columns, every block / column',
             functions=['i64_convolution_by_const_1coeff_avx', 'i64_extract_1blk_contiguous_avx', 'i64_save_1blk_contiguous_avx (poulpy-cpu-avx/src/fft64/convolution.rs) vs their reference twins']),
           K('poulpy-cpu-avx', 'verif_kani', ['c10_cnv_const_1coeff__a2_b2', 'c10_cnv_const_1coeff__a3_b1', 'c10_cnv_const_2coeffs__a2_b2', 'c10_cnv_const_2coeffs__a1_b3'], cls='bounded', tier='thorough', timeout=2400,
             bound='(a_size, b_size) in {(2,2), (3,1), (1,3)}, every output limb index, i32 domain (5-17 min per harness)',
             functions=['i64_convolution_by_const_1coeff_avx', 'i64_convolution_by_real_const_2coeffs_avx vs i64_convolution_by_const_{1coeff,2coeffs}_ref']),
           K('poulpy-cpu-ref', 'verif_kani::c01_tailcut', ['c10_tailcut_ntt120_big_add_normal__n2', 'c01_tailcut_add_normal__n2'], cls='bounded', timeout=1200,
             bound='2 coefficients, at most 2 rejected draws, tail cut 3.2, error at limb 0 / scale 2^0 (k = base2k = 17); f64::exp2 / log2 replaced by their values at the harness shape',
             functions=['ntt120_vec_znx_big_add_normal_ref vs znx_add_normal_f64_ref (FFT64 family: vec_znx_add_normal_ref, vec_znx_big_add_normal_ref funnel into it): ONE rejection-sampling spec on a scripted draw sequence, hence the same draws consumed and the same values'])],
    trusted_base=[FMT_STUB, AVX_STUBS + '; plus _mm256_mul_epi32 (signed product of the low 32 bits of each 64-bit lane) and _mm256_set1_epi32'],
    assumptions=['comparison domain: inputs for which the reference kernel does not overflow in the debug profile (|a| <= 2^61 / 2^62)'],
    remainder='znx_automorphism_avx, FFT/IFFT/NTT and mat-vec AVX kernels (FMA, shuffles), FFT64 vs NTT120 families, ciphertext-level bit identity, sampling stream consumption (shared backend-independent code)',
)

PROPS['C07'] = dict(
    level='proof',
    technique='Verus contracts on the real transform-domain wrappers of both backends (fft64 and ntt120 vec_znx_dft.rs: add/sub/copy/limb-select/zero/apply act limb-wise, numeric kernels abstract); Kani loop-free full-domain contract check of the real NTT120 scalar conversion kernels (the entry into the transform domain)',
    level_text='Unbounded (all shapes, steps, offsets, a_scale): every limb of the selected column of vec_znx_dft_{add_into, add_assign, add_scaled_assign, sub, sub_assign, sub_negate_assign, copy, zero, apply} and of their ntt120_* twins is the named kernel applied to exactly the input limbs the limb rule selects (limb offset + j*step, limb j + a_scale), zero past the source, every other limb block unchanged. Vector-matrix product (fft64 vmp_apply_dft_to_dft_core, all n >= 8, shapes, limb offsets of either parity, odd or even column counts): for every output limb jo and every 4-complex block, the product kernel is handed exactly (operand limb r, prepared-matrix entry (r, jo + limb_offset)) for r < min(rows, a_size) -- the sum of the row products -- under the interleaved two-column block layout; limbs past col_max - limb_offset are zero. Complete per coefficient for every i64 (and every mask): b_from_znx64_ref yields, for each of the four primes of the backend (Primes30), a residue congruent to x with the documented lazy range < 2^63 + Q; the masked variant equals the conversion of the masked value.',
    level_note='The numeric kernels (reim_* / ntt_* element operations, the FFT/NTT itself) are uninterpreted in the Verus units: that forward followed by inverse is the identity and that products are exact is NOT decided (FFT64 is floating point; NTT butterflies / CRT reconstruction time out in CBMC). idft_apply*, svp, convolution apply (the prepare step IS: unit cnv_prepare_fft64 -- complete write of the block layout, padding rows zero), vmp_prepare (the writer of the vmp block layout) and the NTT120 vmp / convolution are not under contract; the reim4 block kernels are abstract (contracts assumed on the Reim4BlkMatVec trait).',
    units=[V('vec_znx_dft'), V('vec_znx_dft_ntt120'), V('vmp_fft64'), V('vmp_ntt120'), V('cnv_prepare_fft64'), V('cnv_apply_fft64'), V('fft_tables', lemmas=['c07_fft_dispatch_agree', 'c07_fft_recursion_agree', 'c07_ifft_dispatch_agree', 'c07_ifft_recursion_agree']),
           K('poulpy-cpu-ref', 'verif_kani::c07', ['c07_b_from_znx64_residues', 'c07_b_from_znx64_masked_residues'], cls='complete', timeout=900,
             functions=['reference::ntt120::arithmetic::b_from_znx64_ref', 'b_from_znx64_masked_ref'])],
    trusted_base=VERUS_TRUST + ['abstract kernel contracts of ReimArith / ReimFFTExecute / Ntt* traits (block in, block out; lengths)', 'limb_u64 / limb_u64_mut (bytemuck casts of at / at_mut) return the 4n-word block of the limb',
                  'assumed std specifications of usize::div_ceil, i64::unsigned_abs'],
    assumptions=[],
    remainder='forward/inverse transform identity, idft_apply / idft_apply_tmpa / consume, svp/vmp/convolution equal exact negacyclic products, c_from_znx64 / c_from_b / add_bbb / CRT round trip (harnesses written, CBMC times out on the 64/128-bit modular reductions)',
)

for _p, _r in _PENDING.items():
    if _p not in PROPS and not _p.endswith('x'):
        NOT_APPLICABLE.append(dict(property_id=_p, reason=_r))
