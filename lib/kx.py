"""kx — run Kani harnesses that live in /verif/kx and are mounted into the real crates under cfg(kani)."""
import os, re, subprocess, time, shlex, signal

VERIF = os.environ.get('POULPY_VERIF_ROOT') or os.path.dirname(os.path.dirname(os.path.abspath(__file__)))
REPO = os.environ.get('POULPY_REPO', '/repo')
CACHE = os.environ.get('POULPY_VERIF_CACHE', '/verif/.cache')

def _env():
    e = dict(os.environ)
    e['POULPY_VERIF_KX'] = os.path.join(VERIF, 'kx')
    e['CARGO_NET_OFFLINE'] = 'true'
    # content-based freshness: an artifact is reused only if the SOURCE BYTES it was built from are the current ones (mtime-based freshness reuses an artifact built
    # from another tree of the same workspace layout -- a scratch worktree -- when the files of the current tree are older than it)
    e['CARGO_UNSTABLE_CHECKSUM_FRESHNESS'] = 'true'
    e.pop('RUSTFLAGS', None)
    return e

def kani_cmd(crate, harnesses, jobs, harness_timeout, extra=None):
    cmd = ['cargo', 'kani', '-p', crate, '-Z', 'stubbing', '-Z', 'function-contracts', '-Z', 'unstable-options',
           '--exact', '-j', str(jobs), '--output-format', 'terse', '--harness-timeout', f'{int(harness_timeout)}s',
           '--target-dir', os.path.join(CACHE, 'kani' if os.path.realpath(REPO) == '/repo' else 'kani_scratch', crate)]
    for h in harnesses:
        cmd += ['--harness', h]
    if extra:
        cmd += extra
    return cmd

RE_CHECKING = re.compile(r'^(?:Thread (\d+): )?Checking harness (\S+?)\.\.\.\s*$')
RE_THREAD = re.compile(r'^Thread (\d+):\s?(.*)$')

def parse_output(text, wanted):
    """-> dict full_harness_name -> record"""
    recs = {}
    cur_by_thread = {}
    cur_thread = None
    for line in text.split('\n'):
        m = RE_CHECKING.match(line)
        if m:
            th = m.group(1) or '0'
            name = m.group(2)
            cur_by_thread[th] = name
            recs[name] = dict(harness=name, status='undecided', failed_checks=[], checks=None, failed=None, time_s=None,
                              covers=None, raw=[])
            cur_thread = th
            continue
        m = RE_THREAD.match(line)
        if m:
            cur_thread = m.group(1)
            line = m.group(2)
        if cur_thread is None or cur_thread not in cur_by_thread:
            continue
        r = recs[cur_by_thread[cur_thread]]
        r['raw'].append(line)
        mm = re.search(r'\*\* (\d+) of (\d+) failed', line)
        if mm:
            r['failed'] = int(mm.group(1)); r['checks'] = int(mm.group(2))
        mm = re.search(r'\*\* (\d+) of (\d+) cover properties satisfied', line)
        if mm:
            r['covers'] = (int(mm.group(1)), int(mm.group(2)))
        mm = re.match(r'\s*Failed Checks: (.*)$', line)
        if mm:
            r['failed_checks'].append(mm.group(1).strip())
        mm = re.match(r'\s*File: "(.*?)", line (\d+), in (.*)$', line)
        if mm and r['failed_checks']:
            r['failed_checks'][-1] += f'  [{mm.group(1)}:{mm.group(2)} in {mm.group(3)}]'
        if 'VERIFICATION:- SUCCESSFUL' in line:
            r['status'] = 'ok'
        elif 'VERIFICATION:- FAILED' in line:
            r['status'] = 'refuted'
        mm = re.search(r'Verification Time: ([0-9.]+)s', line)
        if mm:
            r['time_s'] = float(mm.group(1))
        if 'CBMC timed out' in line or 'timed out' in line.lower() or 'out of memory' in line.lower() or 'CBMC failed' in line or 'unwinding assertion' in line.lower() and False:
            r['note'] = line.strip()
    # classify failures that are not property failures
    for r in recs.values():
        raw = '\n'.join(r['raw'])
        if r['status'] == 'refuted':
            fc = ' '.join(r['failed_checks'])
            if not r['failed_checks'] or re.search(r'unsupported|not currently supported|timed out|out of memory', fc, re.I) \
               or re.search(r'CBMC timed out|CBMC failed|out of memory|Killed', raw):
                if not r['failed_checks'] or re.search(r'unsupported|not currently supported', fc, re.I) and all(re.search(r'unsupported|not currently supported', x, re.I) for x in r['failed_checks']):
                    r['status'] = 'undecided'
                    r['note'] = 'tool limit: ' + (fc[:200] or 'no failed check listed (timeout/OOM?)')
            # unwinding assertion failures mean the bound is too small: harness problem, not a property violation
            if r['failed_checks'] and all('unwinding assertion' in x for x in r['failed_checks']):
                r['status'] = 'undecided'
                r['note'] = 'unwinding bound too small'
        if r['covers'] and r['covers'][0] < r['covers'][1] and r['status'] == 'ok':
            r['status'] = 'undecided'
            r['note'] = f'vacuity guard: only {r["covers"][0]} of {r["covers"][1]} cover properties satisfied'
        r['raw'] = r['raw'][-60:]
    out = {}
    for w in wanted:
        hit = [r for n, r in recs.items() if n == w or n.endswith('::' + w)]
        if hit:
            out[w] = hit[0]
        else:
            out[w] = dict(harness=w, status='undecided', failed_checks=[], note='harness not found in Kani output (lost anchor or compile error)', raw=[])
    return out

def run(crate, harnesses, jobs=16, harness_timeout=900, total_timeout=None, log_name=None, extra=None):
    """returns (records dict, meta dict)"""
    cmd = kani_cmd(crate, harnesses, jobs, harness_timeout, extra)
    t0 = time.time()
    total_timeout = total_timeout or (harness_timeout * max(1, (len(harnesses) + jobs - 1) // jobs) + 1500)
    os.makedirs(os.path.join(CACHE, 'logs'), exist_ok=True)
    logp = os.path.join(CACHE, 'logs', (log_name or f'kani_{crate}') + '.log')
    with open(logp, 'w') as lf:
        p = subprocess.Popen(cmd, cwd=REPO, env=_env(), stdout=lf, stderr=subprocess.STDOUT, text=True, start_new_session=True)
        try:
            p.wait(timeout=total_timeout)
            timed_out = False
        except subprocess.TimeoutExpired:
            timed_out = True
            try:
                os.killpg(p.pid, signal.SIGKILL)
            except Exception:
                pass
            p.wait()
    text = open(logp, errors='replace').read()
    recs = parse_output(text, harnesses)
    compile_error = None
    if 'error: could not compile' in text or re.search(r'^error(\[E\d+\])?:', text, re.M) and 'Checking harness' not in text:
        m = re.search(r'^(error(\[E\d+\])?:.*(?:\n.*){0,12})', text, re.M)
        compile_error = m.group(1)[:2000] if m else 'compile error'
        for r in recs.values():
            if r['status'] == 'undecided':
                r['note'] = 'compile error: ' + compile_error[:300]
    meta = dict(cmd='POULPY_VERIF_KX=' + os.path.join(VERIF, 'kx') + ' CARGO_NET_OFFLINE=true ' + ' '.join(shlex.quote(c) for c in cmd),
                wall_s=time.time() - t0, log=logp, timed_out=timed_out, exit=p.returncode, compile_error=compile_error)
    return recs, meta

def playback_print(crate, harness, harness_timeout=900):
    """re-run a single failing harness with --concrete-playback=print and return the generated unit test text (or None)"""
    cmd = kani_cmd(crate, [harness], 1, harness_timeout, extra=['-Z', 'concrete-playback', '--concrete-playback=print'])
    try:
        p = subprocess.run(cmd, cwd=REPO, env=_env(), capture_output=True, text=True, timeout=harness_timeout + 900)
    except subprocess.TimeoutExpired:
        return None, 'timeout'
    text = p.stdout + '\n' + p.stderr
    m = re.search(r'```\n?(.*?)```', text, re.S)
    return (m.group(1) if m else None), text[-6000:]
