"""rx — mechanical extraction of real Rust functions from /repo for Verus.

Nothing here understands semantics: the function text is copied by byte span from the current working tree
and rewritten by a closed list of token-level rules (R1..R7, see DESIGN.md §2.1).  Any construct outside the
rules is left untouched (Verus then rejects it => the unit is *undecided*, never an alarm).
"""
import re, hashlib, os

class ExtractError(Exception):
    pass

# ---------------------------------------------------------------------------------------------------------
# Lexer
# ---------------------------------------------------------------------------------------------------------
IDENT_START = re.compile(r'[A-Za-z_]')
IDENT = re.compile(r'[A-Za-z_][A-Za-z0-9_]*')
NUMBER = re.compile(r'[0-9][0-9A-Za-z_]*(\.[0-9][0-9A-Za-z_]*)?')

class Tok:
    __slots__ = ('kind', 'text', 'start', 'end')
    def __init__(self, kind, text, start, end):
        self.kind, self.text, self.start, self.end = kind, text, start, end
    def __repr__(self):
        return f'{self.kind}:{self.text!r}'

def lex(src):
    """kinds: ws, lcomment, bcomment, doc, str, char, life, id, num, p (single punct char)"""
    toks = []
    i, n = 0, len(src)
    while i < n:
        c = src[i]
        if c.isspace():
            j = i
            while j < n and src[j].isspace():
                j += 1
            toks.append(Tok('ws', src[i:j], i, j)); i = j; continue
        if src.startswith('//', i):
            j = src.find('\n', i)
            if j < 0: j = n
            text = src[i:j]
            kind = 'doc' if (text.startswith('///') and not text.startswith('////')) or text.startswith('//!') else 'lcomment'
            toks.append(Tok(kind, text, i, j)); i = j; continue
        if src.startswith('/*', i):
            depth, j = 1, i + 2
            while j < n and depth:
                if src.startswith('/*', j): depth += 1; j += 2
                elif src.startswith('*/', j): depth -= 1; j += 2
                else: j += 1
            toks.append(Tok('bcomment', src[i:j], i, j)); i = j; continue
        # raw strings / byte strings
        m = re.match(r'b?r(#*)"', src[i:i + 12])
        if m:
            hashes = m.group(1)
            endpat = '"' + hashes
            j = src.find(endpat, i + len(m.group(0)))
            if j < 0: raise ExtractError('unterminated raw string')
            j += len(endpat)
            toks.append(Tok('str', src[i:j], i, j)); i = j; continue
        if c == '"' or (c == 'b' and i + 1 < n and src[i + 1] == '"'):
            j = i + (2 if c == 'b' else 1)
            while j < n and src[j] != '"':
                j += 2 if src[j] == '\\' else 1
            j += 1
            toks.append(Tok('str', src[i:j], i, j)); i = j; continue
        if c == "'":
            # char literal or lifetime
            m = re.match(r"'(\\.[^']*|[^'\\])'", src[i:i + 12])
            if m:
                j = i + len(m.group(0))
                toks.append(Tok('char', src[i:j], i, j)); i = j; continue
            m = re.match(r"'[A-Za-z_][A-Za-z0-9_]*", src[i:i + 64])
            if m:
                j = i + len(m.group(0))
                toks.append(Tok('life', src[i:j], i, j)); i = j; continue
        m = IDENT.match(src, i)
        if m:
            toks.append(Tok('id', m.group(0), i, m.end())); i = m.end(); continue
        m = NUMBER.match(src, i)
        if m:
            toks.append(Tok('num', m.group(0), i, m.end())); i = m.end(); continue
        toks.append(Tok('p', c, i, i + 1)); i += 1
    return toks

OPEN = {'(': ')', '[': ']', '{': '}'}
CLOSE = {')', ']', '}'}

def code_idx(toks):
    """indices of non-trivia tokens"""
    return [k for k, t in enumerate(toks) if t.kind not in ('ws', 'lcomment', 'bcomment', 'doc')]

def match_close(toks, k):
    """toks[k] is an opening bracket; return index of the matching close"""
    depth = 0
    for j in range(k, len(toks)):
        t = toks[j]
        if t.kind == 'p':
            if t.text in OPEN: depth += 1
            elif t.text in CLOSE:
                depth -= 1
                if depth == 0:
                    return j
    raise ExtractError('unbalanced brackets')

def next_code(toks, k):
    k += 1
    while k < len(toks) and toks[k].kind in ('ws', 'lcomment', 'bcomment', 'doc'):
        k += 1
    return k

def prev_code(toks, k):
    k -= 1
    while k >= 0 and toks[k].kind in ('ws', 'lcomment', 'bcomment', 'doc'):
        k -= 1
    return k

# ---------------------------------------------------------------------------------------------------------
# Locate a function
# ---------------------------------------------------------------------------------------------------------
class FnText:
    def __init__(self, path, name, sig, body, start_line, sha, impl_header):
        self.path, self.name, self.sig, self.body = path, name, sig, body
        self.start_line, self.sha, self.impl_header = start_line, sha, impl_header

def find_fn(src, name, impl=None, nth=None):
    """returns (sig_start, body_open, body_close, enclosing_header) offsets for `fn name`.
    impl: substring that must occur in the header text of the enclosing impl/trait block."""
    toks = lex(src)
    # enclosing block headers: stack of (open_idx, header_text)
    cands = []
    stack = []
    k = 0
    hdr_start = 0
    # simple pass: remember for each '{' the text since the previous ';' / '}' / '{' at the same level
    last_boundary = [0]
    for k, t in enumerate(toks):
        if t.kind == 'p':
            if t.text == '{':
                hdr = src[toks[last_boundary[-1]].start if last_boundary[-1] < len(toks) else 0:t.start]
                stack.append((k, hdr))
                last_boundary.append(k + 1)
            elif t.text == '}':
                if stack:
                    stack.pop(); last_boundary.pop()
                last_boundary[-1] = k + 1
            elif t.text == ';':
                last_boundary[-1] = k + 1
        elif t.kind == 'id' and t.text == 'fn':
            kn = next_code(toks, k)
            if kn < len(toks) and toks[kn].kind == 'id' and toks[kn].text == name:
                cands.append((k, [h for _, h in stack]))
    out = []
    for k, hdrs in cands:
        header = hdrs[-1].strip() if hdrs else ''
        hnorm = ' '.join(header.split())
        if impl is not None and (hnorm != impl[1:] if impl.startswith('=') else impl not in hnorm):
            continue
        # find body '{' at depth 0 of (), [], <> is not bracket-matched -> scan for first '{' not inside ()/[]
        j = k
        depth = 0
        body_open = None
        while j < len(toks):
            t = toks[j]
            if t.kind == 'p':
                if t.text in '([': depth += 1
                elif t.text in ')]': depth -= 1
                elif t.text == '{' and depth == 0:
                    body_open = j; break
                elif t.text == ';' and depth == 0:
                    break
            j += 1
        if body_open is None:
            continue  # declaration without body
        body_close = match_close(toks, body_open)
        # signature start: walk back over qualifiers / attributes / docs
        s = k
        while True:
            p = prev_code(toks, s)
            if p >= 0 and toks[p].kind == 'id' and toks[p].text in ('pub', 'unsafe', 'const', 'async', 'extern'):
                s = p; continue
            if p >= 0 and toks[p].kind == 'p' and toks[p].text == ')':
                # pub(crate)
                q = p
                depth = 0
                while q >= 0:
                    if toks[q].kind == 'p' and toks[q].text == ')': depth += 1
                    if toks[q].kind == 'p' and toks[q].text == '(':
                        depth -= 1
                        if depth == 0: break
                    q -= 1
                pq = prev_code(toks, q)
                if pq >= 0 and toks[pq].kind == 'id' and toks[pq].text == 'pub':
                    s = pq; continue
            break
        out.append((toks[s].start, toks[body_open].start, toks[body_close].end, header))
    if not out:
        raise ExtractError(f'function `{name}` not found' + (f' in impl `{impl}`' if impl else ''))
    if nth is not None:
        if nth >= len(out): raise ExtractError(f'function `{name}` occurrence {nth} not found')
        return out[nth]
    if len(out) > 1:
        raise ExtractError(f'function `{name}` is ambiguous ({len(out)} matches); add impl= or nth=')
    return out[0]

def extract_fn(repo, relpath, name, impl=None, nth=None):
    path = os.path.join(repo, relpath)
    try:
        src = open(path).read()
    except OSError as e:
        raise ExtractError(f'cannot read {relpath}: {e}')
    s, bo, bc, header = find_fn(src, name, impl, nth)
    sig = src[s:bo]
    body = src[bo:bc]
    line = src.count('\n', 0, s) + 1
    sha = hashlib.sha256(src[s:bc].encode()).hexdigest()[:16]
    return FnText(relpath, name, sig, body, line, sha, header)

# ---------------------------------------------------------------------------------------------------------
# Rewrite rules
# ---------------------------------------------------------------------------------------------------------
def split_top_commas(toks):
    """split a token list at top-level commas -> list of token lists"""
    parts, cur, depth = [], [], 0
    for t in toks:
        if t.kind == 'p':
            if t.text in OPEN: depth += 1
            elif t.text in CLOSE: depth -= 1
            elif t.text == ',' and depth == 0:
                parts.append(cur); cur = []; continue
        cur.append(t)
    if any(t.kind not in ('ws', 'lcomment', 'bcomment', 'doc') for t in cur):
        parts.append(cur)
    return parts

def text_of(toks):
    return ''.join(t.text for t in toks)

PANIC_MACROS = {'panic', 'unreachable', 'unimplemented', 'todo'}
ASSERT_MACROS = {'assert', 'debug_assert'}
ASSERT_EQ_MACROS = {'assert_eq', 'debug_assert_eq'}
ASSERT_NE_MACROS = {'assert_ne', 'debug_assert_ne'}

def rule_R1_R3(text, fired):
    """R1 drop docs/attributes; R2 keep debug blocks; R3 panics -> obligations."""
    toks = lex(text)
    out = []
    k = 0
    n = len(toks)
    while k < n:
        t = toks[k]
        if t.kind == 'doc':
            fired.add('R1'); k += 1; continue
        if t.kind == 'p' and t.text == '#':
            kn = next_code(toks, k)
            if kn < n and toks[kn].kind == 'p' and toks[kn].text == '[':
                kc = match_close(toks, kn)
                attr = ''.join(text_of(toks[kn + 1:kc]).split())
                if attr.startswith('inline') or attr.startswith('allow') or attr.startswith('must_use') or attr.startswith('doc'):
                    fired.add('R1'); k = kc + 1; continue
                if attr == 'cfg(debug_assertions)':
                    fired.add('R2'); k = kc + 1; continue
                # any other attribute is kept (Verus will reject what it does not know)
        if t.kind == 'id' and t.text == 'use':
            pk = prev_code(toks, k)
            if pk < 0 or (toks[pk].kind == 'p' and toks[pk].text in '{};'):
                # R1: `use` declarations inside a body are dropped (single-file unit: names resolve to the prelude)
                j = k
                while j < n and not (toks[j].kind == 'p' and toks[j].text == ';'):
                    j += 1
                fired.add('R1'); k = j + 1; continue
        if t.kind == 'id' and t.text == 'anyhow' and k + 5 < n and toks[k + 1].text == ':' and toks[k + 2].text == ':' and toks[k + 3].text == 'ensure' and toks[k + 4].text == '!':
            ko = next_code(toks, k + 4)
            if ko < n and toks[ko].text == '(':
                kc = match_close(toks, ko)
                args = split_top_commas(toks[ko + 1:kc])
                if len(args) == 2:
                    # R3b: anyhow::ensure!(cond, err)  =>  if !(cond) { return Err((err).into()); }   (what the macro expands to)
                    fired.add('R3b')
                    out.append('if !(' + text_of(args[0]).strip() + ') { return Err((' + text_of(args[1]).strip() + ').into()); }')
                    k = kc + 1
                    continue
        if t.kind == 'id' and t.text == 'format' and k + 1 < n:
            kn = next_code(toks, k)
            if kn < n and toks[kn].kind == 'p' and toks[kn].text == '!':
                ko = next_code(toks, kn)
                if ko < n and toks[ko].kind == 'p' and toks[ko].text in '([{':
                    # R3c: format!(..) => vfmt()   (the text of a message: an opaque String; its arguments are dropped -- they are evaluated for display only)
                    kc = match_close(toks, ko)
                    fired.add('R3c')
                    out.append('vfmt()')
                    k = kc + 1
                    continue
        if t.kind == 'id' and k + 1 < n:
            kn = next_code(toks, k)
            if kn < n and toks[kn].kind == 'p' and toks[kn].text == '!' and t.text in (PANIC_MACROS | ASSERT_MACROS | ASSERT_EQ_MACROS | ASSERT_NE_MACROS):
                ko = next_code(toks, kn)
                if ko < n and toks[ko].kind == 'p' and toks[ko].text in '([{':
                    kc = match_close(toks, ko)
                    args = split_top_commas(toks[ko + 1:kc])
                    name = t.text
                    fired.add('R3')
                    if name in PANIC_MACROS:
                        out.append('vpanic()')
                    elif name in ASSERT_MACROS:
                        if not args: raise ExtractError('assert! without condition')
                        out.append('if !(' + text_of(args[0]).strip() + ') { vpanic(); }')
                    elif name in ASSERT_EQ_MACROS:
                        if len(args) < 2: raise ExtractError('assert_eq! needs two operands')
                        out.append('if !((' + text_of(args[0]).strip() + ') == (' + text_of(args[1]).strip() + ')) { vpanic(); }')
                    else:
                        if len(args) < 2: raise ExtractError('assert_ne! needs two operands')
                        out.append('if !((' + text_of(args[0]).strip() + ') != (' + text_of(args[1]).strip() + ')) { vpanic(); }')
                    k = kc + 1
                    continue
        out.append(t.text)
        k += 1
    return ''.join(out)

def _ident(toks, k, text=None):
    return k < len(toks) and toks[k].kind == 'id' and (text is None or toks[k].text == text)

def _punct(toks, k, text):
    return k < len(toks) and toks[k].kind == 'p' and toks[k].text == text

def find_loops(body):
    """offsets of the '{' opening the body of each `for`/`while`/`loop` in source order -> list of (kw_offset, brace_offset, header_text)"""
    toks = lex(body)
    res = []
    for k, t in enumerate(toks):
        if t.kind == 'id' and t.text in ('for', 'while', 'loop'):
            # `for` in `for<'a>` HRTB or `impl X for Y` cannot occur inside a fn body we handle, except closures' bounds: ignore
            p = prev_code(toks, k)
            if p >= 0 and toks[p].kind == 'p' and toks[p].text == '.':
                continue
            # find '{' at depth 0 (struct literals in loop headers are not allowed by Rust without parens)
            j = k + 1
            depth = 0
            while j < len(toks):
                tt = toks[j]
                if tt.kind == 'p':
                    if tt.text in '([': depth += 1
                    elif tt.text in ')]': depth -= 1
                    elif tt.text == '{' and depth == 0:
                        break
                j += 1
            if j >= len(toks):
                raise ExtractError('loop without body')
            res.append((t.start, toks[j].start, ' '.join(body[t.start:toks[j].start].split())))
    return res

def norm_ws(s):
    return ' '.join(s.split())

def find_stmt(body, literal, which=0):
    """find the offset just after the `which`-th whitespace-insensitive occurrence of `literal` in body"""
    # build a whitespace-normalised index map
    lit = ''.join(literal.split())
    comp = []
    idx = []
    for i, ch in enumerate(body):
        if not ch.isspace():
            comp.append(ch); idx.append(i)
    comp = ''.join(comp)
    pos = -1
    start = 0
    for _ in range(which + 1):
        pos = comp.find(lit, start)
        if pos < 0:
            return None
        start = pos + 1
    return idx[pos], idx[pos + len(lit) - 1] + 1


def extract_item(repo, relpath, kind, name):
    """copy a `struct`/`enum` item verbatim (R1: attributes, derives and docs dropped)"""
    path = os.path.join(repo, relpath)
    try:
        src = open(path).read()
    except OSError as e:
        raise ExtractError(f'cannot read {relpath}: {e}')
    toks = lex(src)
    for k, t in enumerate(toks):
        if t.kind == 'id' and t.text == kind:
            kn = next_code(toks, k)
            if kn < len(toks) and toks[kn].kind == 'id' and toks[kn].text == name:
                j = kn
                while j < len(toks) and not (toks[j].kind == 'p' and toks[j].text in '{;('):
                    j += 1
                if j >= len(toks):
                    break
                if toks[j].text == ';':
                    end = toks[j].end
                else:
                    c = match_close(toks, j)
                    end = toks[c].end
                    if toks[j].text == '(':
                        n2 = next_code(toks, c)
                        if n2 < len(toks) and toks[n2].text == ';':
                            end = toks[n2].end
                s0 = k
                p = prev_code(toks, s0)
                if p >= 0 and toks[p].kind == 'id' and toks[p].text == 'pub':
                    s0 = p
                text = src[toks[s0].start:end]
                fired = set()
                text = rule_R1_R3(text, fired)
                # drop remaining attributes inside the item (e.g. #[derive], #[repr])
                text = re.sub(r'#\[[^\]]*\]\s*', '', text)
                sha = hashlib.sha256(src[toks[s0].start:end].encode()).hexdigest()[:16]
                return text, src.count('\n', 0, toks[s0].start) + 1, sha
    raise ExtractError(f'{kind} `{name}` not found in {relpath}')

def name_return(sig, name):
    """`-> T` => `-> (name: T)` (Verus needs a named return value to state postconditions; ghost naming only)"""
    toks = lex(sig)
    depth = 0
    arrow = None
    for k, t in enumerate(toks):
        if t.kind == 'p':
            if t.text in '([': depth += 1
            elif t.text in ')]': depth -= 1
            elif t.text == '-' and depth == 0 and k + 1 < len(toks) and toks[k + 1].text == '>':
                arrow = k
    if arrow is None:
        return sig
    # type runs until a top-level `where` or the end
    end = len(sig)
    depth = 0
    for k in range(arrow + 2, len(toks)):
        t = toks[k]
        if t.kind == 'p' and t.text in '([<': depth += 1
        elif t.kind == 'p' and t.text in ')]>': depth -= 1
        elif t.kind == 'id' and t.text == 'where' and depth <= 0:
            end = t.start; break
    ty = sig[toks[arrow + 1].end:end].strip()
    return sig[:toks[arrow].start] + f'-> ({name}: {ty})\n' + sig[end:]
