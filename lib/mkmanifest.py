#!/usr/bin/env python3
"""Regenerates MANIFEST.json from lib/registry.py (run after editing the registry)."""
import os, sys, json
ROOT = os.path.dirname(os.path.dirname(os.path.abspath(__file__)))
sys.path.insert(0, os.path.join(ROOT, 'lib'))
import registry

def main():
    checks = []
    for pid in sorted(registry.PROPS):
        P = registry.PROPS[pid]
        engines = sorted(set(u['kind'] for u in P['units']))
        checks.append(dict(
            property_id=pid,
            quick_cmd=f'./bin/check {pid} --tier quick',
            thorough_cmd=f'./bin/check {pid} --tier thorough',
            evidence_file=f'/verif/evidence/{pid}.json',
            replay_cmd_template=f'./bin/check {pid} --replay {{path}}',
            engine='+'.join(engines),
            level_claimed=dict(category=P['level'], text=P['level_text'], design_ref=P.get('design_ref', 'DESIGN.md §4 ' + pid)),
            level_note=P['level_note'],
            technique=P['technique'],
        ))
    m = dict(
        version=1,
        setup_cmd='./bin/setup',
        hooks=dict(
            guard='cfg(kani)',
            enable='cargo kani sets --cfg kani; POULPY_VERIF_KX=/verif/kx names the directory the mounted harness modules are include!()d from',
            baseline_off_cmd='cd /repo && cargo nextest run --workspace --no-fail-fast --test-threads 8 --offline || cargo test --workspace --no-fail-fast --offline',
            source_commits=registry.HOOK_COMMITS,
            add_only=True,
        ),
        engines=[
            dict(name='verus', path='/verif/lib/vx.py', serves_properties=sorted(p for p in registry.PROPS if any(u['kind'] == 'verus' for u in registry.PROPS[p]['units'])),
                 kind_free_text='Verus 0.2026.09.13 on functions extracted mechanically (lib/rx.py, lib/r4.py) from /repo each run, contracts spliced from vx/units/*.vx'),
            dict(name='kani', path='/verif/lib/kx.py', serves_properties=sorted(p for p in registry.PROPS if any(u['kind'] == 'kani' for u in registry.PROPS[p]['units'])),
                 kind_free_text='Kani 0.68 / CBMC 6.11 harness modules in /verif/kx mounted into the real crates under cfg(kani)'),
        ],
        checks=checks,
        not_applicable=registry.NOT_APPLICABLE,
        notes='contract-based deductive verification of the real code; see DESIGN.md. exit 2 of a check = undecided (tool limit / lost anchor), never an alarm.',
    )
    json.dump(m, open(os.path.join(ROOT, 'MANIFEST.json'), 'w'), indent=1)
    print('MANIFEST.json written:', len(checks), 'checks,', len(registry.NOT_APPLICABLE), 'not applicable')

if __name__ == '__main__':
    main()
