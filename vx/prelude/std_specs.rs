// ---------- prelude/std_specs: specifications assumed for std slice methods used by the real code ----------
// <[T]>::copy_from_slice: vstd ships its specification.
pub assume_specification<T: Clone>[ <[T]>::fill ](dst: &mut [T], value: T)
    ensures final(dst).len() == old(dst).len(), forall|k: int| 0 <= k < final(dst).len() ==> #[trigger] final(dst)[k] == value;
pub open spec fn is_pow2_i(n: int) -> bool { n > 0 && exists|k: nat| k < 64 && n == vstd::arithmetic::power2::pow2(k) as int }
pub assume_specification[ usize::is_power_of_two ](x: usize) -> (r: bool) ensures r == is_pow2_i(x as int);
// <[T]>::to_vec: a vector of the same length (element i is a clone of element i)
pub assume_specification<T: Clone>[ <[T]>::to_vec ](s: &[T]) -> (r: Vec<T>)
    ensures r@.len() == s@.len(), forall|k: int| 0 <= k < s@.len() ==> vstd::pervasive::cloned(#[trigger] s@[k], r@[k]);
