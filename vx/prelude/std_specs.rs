// ---------- prelude/std_specs: specifications assumed for std slice methods used by the real code ----------
// <[T]>::copy_from_slice: vstd ships its specification.
pub assume_specification<T: Clone>[ <[T]>::fill ](dst: &mut [T], value: T)
    ensures final(dst).len() == old(dst).len(), forall|k: int| 0 <= k < final(dst).len() ==> #[trigger] final(dst)[k] == value;
