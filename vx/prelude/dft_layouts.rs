// ---------- prelude/dft_layouts (R6): transform-domain containers, reduced to shape + per-limb dependency sets ----------
// poulpy-hal/src/layouts/{vec_znx_dft,vec_znx_big,vmp_pmat,svp_ppol}.rs: `pub struct VecZnxDft<D, B> { pub data: D, pub n, pub cols, pub size, pub max_size, _phantom }` etc.
// The byte buffer is kept only as a type parameter; `deps` (ghost) maps (column, limb) to the dependency set of that limb, for every limb of the
// CAPACITY (limbs beyond `size` keep what they held); `rad` (ghost) is the limb radix (base2k) the content is expressed in -- a unit-of-measure tag:
// adding a coefficient-domain vector of another radix into an accumulator is a (value) error that no dependency set shows.
pub struct VecZnxDft<D, BE> { pub data: D, pub n: usize, pub cols: usize, pub size: usize, pub max_size: usize, pub deps: Ghost<Map<(int, int), ISet<Src>>>, pub rad: Ghost<int>, pub _phantom: core::marker::PhantomData<BE> }
pub struct VecZnxBig<D, BE> { pub data: D, pub n: usize, pub cols: usize, pub size: usize, pub max_size: usize, pub deps: Ghost<Map<(int, int), ISet<Src>>>, pub rad: Ghost<int>, pub _phantom: core::marker::PhantomData<BE> }
// prepared (read-only) operands: one dependency set for the whole object
pub struct VmpPMat<D, BE> { pub data: D, pub n: usize, pub rows: usize, pub cols_in: usize, pub cols_out: usize, pub size: usize, pub dep: Ghost<ISet<Src>>, pub _phantom: core::marker::PhantomData<BE> }
pub struct SvpPPol<D, BE> { pub data: D, pub n: usize, pub cols: usize, pub deps: Ghost<Map<int, ISet<Src>>>, pub _phantom: core::marker::PhantomData<BE> }

impl<D, BE> VecZnxDft<D, BE> {
    pub open spec fn dep(&self, i: int, j: int) -> ISet<Src> { self.deps@[(i, j)] }
    pub fn n(&self) -> (r: usize) ensures r == self.n { self.n }
    pub fn cols(&self) -> (r: usize) ensures r == self.cols { self.cols }
    pub fn size(&self) -> (r: usize) ensures r == self.size { self.size }
    pub fn max_size(&self) -> (r: usize) ensures r == self.max_size { self.max_size }
//@extract poulpy-hal/src/layouts/vec_znx_dft.rs::set_size impl="impl<D: DataMut, B: Backend> VecZnxDft<D, B>"
//@spec
        requires size <= old(self).max_size
        ensures final(self).size == size, final(self).n == old(self).n, final(self).cols == old(self).cols, final(self).max_size == old(self).max_size, final(self).deps == old(self).deps, final(self).rad == old(self).rad
//@end
    // ZnxZero::zero: every coefficient of the whole buffer (capacity) becomes 0
    #[verifier::external_body]
    pub fn zero(&mut self)
        ensures final(self).size == old(self).size, final(self).n == old(self).n, final(self).cols == old(self).cols, final(self).max_size == old(self).max_size, final(self).rad == old(self).rad,
            forall|i: int, j: int| #[trigger] final(self).dep(i, j) == ISet::<Src>::empty()
    { unimplemented!() }
}
impl<D, BE> VecZnxBig<D, BE> {
    pub open spec fn dep(&self, i: int, j: int) -> ISet<Src> { self.deps@[(i, j)] }
    pub fn n(&self) -> (r: usize) ensures r == self.n { self.n }
    pub fn cols(&self) -> (r: usize) ensures r == self.cols { self.cols }
    pub fn size(&self) -> (r: usize) ensures r == self.size { self.size }
    pub fn max_size(&self) -> (r: usize) ensures r == self.max_size { self.max_size }
    #[verifier::external_body]
    pub fn zero(&mut self)
        ensures final(self).size == old(self).size, final(self).n == old(self).n, final(self).cols == old(self).cols, final(self).max_size == old(self).max_size, final(self).rad == old(self).rad,
            forall|i: int, j: int| #[trigger] final(self).dep(i, j) == ISet::<Src>::empty()
    { unimplemented!() }
}
impl<D, BE> VmpPMat<D, BE> {
    pub fn n(&self) -> (r: usize) ensures r == self.n { self.n }
    pub fn rows(&self) -> (r: usize) ensures r == self.rows { self.rows }
    pub fn cols_in(&self) -> (r: usize) ensures r == self.cols_in { self.cols_in }
    pub fn cols_out(&self) -> (r: usize) ensures r == self.cols_out { self.cols_out }
    pub fn size(&self) -> (r: usize) ensures r == self.size { self.size }
}
pub trait Data {}
pub trait DataRef: Data {}
pub trait DataMut: DataRef {}
impl<'a> Data for &'a [u8] {} impl<'a> DataRef for &'a [u8] {}
impl<'a> Data for &'a mut [u8] {} impl<'a> DataRef for &'a mut [u8] {} impl<'a> DataMut for &'a mut [u8] {}
impl Data for Vec<u8> {} impl DataRef for Vec<u8> {} impl DataMut for Vec<u8> {}
// `to_ref()` of a transform-domain object: same shape, same dependency sets
pub trait VecZnxDftToRef<BE> {
    spec fn dref(&self) -> VecZnxDft<&[u8], BE>;
    fn to_ref(&self) -> (r: VecZnxDft<&[u8], BE>) ensures r == self.dref();
}
pub uninterp spec fn bref<D>(d: D) -> &'static [u8];
impl<D: DataRef, BE> VecZnxDftToRef<BE> for VecZnxDft<D, BE> {
    open spec fn dref(&self) -> VecZnxDft<&[u8], BE> {
        VecZnxDft { data: bref(self.data), n: self.n, cols: self.cols, size: self.size, max_size: self.max_size, deps: self.deps, rad: self.rad, _phantom: core::marker::PhantomData }
    }
    #[verifier::external_body]
    fn to_ref(&self) -> (r: VecZnxDft<&[u8], BE>) { unimplemented!() }
}
