// ---------- prelude/vec_znx_dft (R6): FFT64 VecZnxDft over an abstract f64 view of its byte buffer ----------
// Same trusted interface I-LAYOUT as prelude/vec_znx: `at/at_mut` return the n-element block at f64-offset n*(j*cols+i)
// (the FFT64 backends have ScalarPrep = f64, 8 bytes like i64; C17 harnesses check the shared accessor code).
pub trait Backend { type ScalarBig; type ScalarPrep; }
pub struct VecZnxDft<D, BE> { pub data: D, pub n: usize, pub cols: usize, pub size: usize, pub max_size: usize, pub _phantom: core::marker::PhantomData<BE> }
pub uninterp spec fn vf(b: Seq<u8>) -> Seq<f64>;
pub trait F64View { spec fn viewf(&self) -> Seq<f64>; }
impl<'a> F64View for &'a [u8] { open spec fn viewf(&self) -> Seq<f64> { vf(self@) } }
impl<'a> F64View for &'a mut [u8] { open spec fn viewf(&self) -> Seq<f64> { vf(self@) } }
pub open spec fn flimb_of(d: Seq<f64>, n: int, cols: int, i: int, j: int) -> Seq<f64> { d.subrange(n * (j * cols + i), n * (j * cols + i) + n) }
impl<D: F64View, BE> VecZnxDft<D, BE> {
    pub open spec fn wf(&self) -> bool {
        self.n * self.cols * self.size <= self.data.viewf().len() && self.size <= self.max_size
        && self.n * self.cols * self.max_size <= self.data.viewf().len()
    }
    pub open spec fn limb(&self, i: int, j: int) -> Seq<f64> { flimb_of(self.data.viewf(), self.n as int, self.cols as int, i, j) }
}
impl<D, BE> VecZnxDft<D, BE> {
    pub fn n(&self) -> (r: usize) ensures r == self.n { self.n }
    pub fn size(&self) -> (r: usize) ensures r == self.size { self.size }
    pub fn cols(&self) -> (r: usize) ensures r == self.cols { self.cols }
    pub fn max_size(&self) -> (r: usize) ensures r == self.max_size { self.max_size }
}
impl<'a, BE> VecZnxDft<&'a [u8], BE> {
    #[verifier::external_body]
    pub fn at(&self, i: usize, j: usize) -> (r: &[f64])
        requires self.wf(), i < self.cols, j < self.size
        ensures r@ == self.limb(i as int, j as int), r@.len() == self.n
    { unimplemented!() }
}
impl<'a, BE> VecZnxDft<&'a mut [u8], BE> {
    #[verifier::external_body]
    pub fn at(&self, i: usize, j: usize) -> (r: &[f64])
        requires self.wf(), i < self.cols, j < self.size
        ensures r@ == self.limb(i as int, j as int), r@.len() == self.n
    { unimplemented!() }
    #[verifier::external_body]
    pub fn at_mut(&mut self, i: usize, j: usize) -> (r: &mut [f64])
        requires old(self).wf(), i < old(self).cols, j < old(self).size
        ensures r@ == old(self).limb(i as int, j as int), r@.len() == old(self).n, final(r)@.len() == old(self).n,
            final(self).n == old(self).n, final(self).cols == old(self).cols, final(self).size == old(self).size, final(self).max_size == old(self).max_size,
            final(self).wf(), final(self).data.viewf().len() == old(self).data.viewf().len(),
            final(self).limb(i as int, j as int) == final(r)@, final(final(self).data)@ == final(old(self).data)@,
            forall|i2: int, j2: int| 0 <= i2 < old(self).cols && 0 <= j2 && (i2 != i || j2 != j) ==> #[trigger] final(self).limb(i2, j2) == old(self).limb(i2, j2),
    { unimplemented!() }
}
pub trait VecZnxDftToRef<BE> {
    spec fn dref(&self) -> VecZnxDft<&[u8], BE>;
    fn to_ref(&self) -> (r: VecZnxDft<&[u8], BE>) ensures r == self.dref();
}
pub trait VecZnxDftToMut<BE> {
    spec fn dmut_n(&self) -> usize; spec fn dmut_cols(&self) -> usize; spec fn dmut_size(&self) -> usize; spec fn dmut_wf(&self) -> bool;
    spec fn dmut_limb(&self, i: int, j: int) -> Seq<f64>;
    fn to_mut(&mut self) -> (r: VecZnxDft<&mut [u8], BE>)
      ensures r.n == old(self).dmut_n(), r.cols == old(self).dmut_cols(), r.size == old(self).dmut_size(), r.wf() == old(self).dmut_wf(),
        forall|i: int, j: int| #[trigger] r.limb(i, j) == old(self).dmut_limb(i, j),
        final(self).dmut_n() == old(self).dmut_n(), final(self).dmut_cols() == old(self).dmut_cols(), final(self).dmut_size() == old(self).dmut_size(),
        final(self).dmut_wf() == old(self).dmut_wf(),
        forall|i: int, j: int| #[trigger] final(self).dmut_limb(i, j) == flimb_of(vf(final(r.data)@), r.n as int, r.cols as int, i, j);
}
pub open spec fn dft_owner_limbs<BE, R: VecZnxDftToMut<BE>>(r: &R) -> spec_fn(int, int) -> Seq<f64> { |i: int, j: int| r.dmut_limb(i, j) }
pub open spec fn fframe_ok(new: spec_fn(int, int) -> Seq<f64>, old: spec_fn(int, int) -> Seq<f64>, cols: int, col: int, size: int) -> bool {
    forall|i2: int, j2: int| 0 <= i2 < cols && 0 <= j2 && (i2 != col || j2 >= size) ==> #[trigger] new(i2, j2) == old(i2, j2)
}

// ---------- abstract kernel contracts (ReimArith / ReimFFTExecute): element-wise IEEE operations left uninterpreted ----------
pub uninterp spec fn fadd(x: f64, y: f64) -> f64;
pub uninterp spec fn fsub(x: f64, y: f64) -> f64;
pub uninterp spec fn fneg(x: f64) -> f64;
pub uninterp spec fn fzero() -> f64;
// point-wise complex product of two transform-domain blocks (its value is the subject of C07, not decided here)
pub uninterp spec fn f_mul(a: Seq<f64>, b: Seq<f64>) -> Seq<f64>;
pub uninterp spec fn f_from_i64(x: i64) -> f64;
pub open spec fn is_fadd(r: Seq<f64>, a: Seq<f64>, b: Seq<f64>) -> bool { r.len() == a.len() && forall|k: int| 0 <= k < a.len() ==> #[trigger] r[k] == fadd(a[k], b[k]) }
pub open spec fn is_fsub(r: Seq<f64>, a: Seq<f64>, b: Seq<f64>) -> bool { r.len() == a.len() && forall|k: int| 0 <= k < a.len() ==> #[trigger] r[k] == fsub(a[k], b[k]) }
pub open spec fn is_fneg(r: Seq<f64>, a: Seq<f64>) -> bool { r.len() == a.len() && forall|k: int| 0 <= k < a.len() ==> #[trigger] r[k] == fneg(a[k]) }
pub open spec fn is_fzero(r: Seq<f64>, n: int) -> bool { r.len() == n && forall|k: int| 0 <= k < n ==> #[trigger] r[k] == fzero() }
pub open spec fn is_from_znx(r: Seq<f64>, a: Seq<i64>) -> bool { r.len() == a.len() && forall|k: int| 0 <= k < a.len() ==> #[trigger] r[k] == f_from_i64(a[k]) }
pub trait ReimArith {
    fn reim_from_znx(res: &mut [f64], a: &[i64]) requires old(res).len() == a.len() ensures is_from_znx(final(res)@, a@);
    fn reim_add(res: &mut [f64], a: &[f64], b: &[f64]) requires old(res).len() == a.len(), a.len() == b.len() ensures is_fadd(final(res)@, a@, b@);
    fn reim_add_assign(res: &mut [f64], a: &[f64]) requires old(res).len() == a.len() ensures is_fadd(final(res)@, old(res)@, a@);
    fn reim_sub(res: &mut [f64], a: &[f64], b: &[f64]) requires old(res).len() == a.len(), a.len() == b.len() ensures is_fsub(final(res)@, a@, b@);
    fn reim_sub_assign(res: &mut [f64], a: &[f64]) requires old(res).len() == a.len() ensures is_fsub(final(res)@, old(res)@, a@);
    fn reim_sub_negate_assign(res: &mut [f64], a: &[f64]) requires old(res).len() == a.len() ensures is_fsub(final(res)@, a@, old(res)@);
    fn reim_negate(res: &mut [f64], a: &[f64]) requires old(res).len() == a.len() ensures is_fneg(final(res)@, a@);
    fn reim_negate_assign(res: &mut [f64]) ensures is_fneg(final(res)@, old(res)@);
    fn reim_copy(res: &mut [f64], a: &[f64]) requires old(res).len() == a.len() ensures final(res)@ == a@;
    fn reim_zero(res: &mut [f64]) ensures is_fzero(final(res)@, old(res).len() as int);
    fn reim_mul(res: &mut [f64], a: &[f64], b: &[f64]) requires old(res).len() == a.len(), a.len() == b.len() ensures final(res)@ == f_mul(a@, b@), final(res).len() == old(res).len();
    fn reim_mul_assign(res: &mut [f64], a: &[f64]) requires old(res).len() == a.len() ensures final(res)@ == f_mul(old(res)@, a@), final(res).len() == old(res).len();
}
// the transform itself is a function of the table and the input block only (its value is the subject of C07, not decided here)
pub struct ReimFFTTable<T> { pub m: usize, pub _p: core::marker::PhantomData<T> }
pub struct ReimIFFTTable<T> { pub m: usize, pub _p: core::marker::PhantomData<T> }
impl<T> ReimFFTTable<T> { pub fn m(&self) -> (r: usize) ensures r == self.m { self.m } }
impl<T> ReimIFFTTable<T> { pub fn m(&self) -> (r: usize) ensures r == self.m { self.m } }
pub uninterp spec fn f_dft(m: usize, x: Seq<f64>) -> Seq<f64>;
pub uninterp spec fn f_idft(m: usize, x: Seq<f64>) -> Seq<f64>;
pub trait ReimFFTExecute<D, T> { spec fn exec_spec(table: &D, x: Seq<T>) -> Seq<T>;
    fn reim_dft_execute(table: &D, data: &mut [T]) ensures final(data)@ == Self::exec_spec(table, old(data)@), final(data).len() == old(data).len(); }
