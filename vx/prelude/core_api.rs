// ---------- prelude/core_api (R5/R6): what the key-switching / decryption glue of poulpy-core needs besides the transform-domain API ----------
// GLWE infos of owners: linked to their views by `infos_ref` / `infos_mut` (the real impls read the same fields: n = data.n, rank = cols - 1, ...)
impl<D> LWEInfos for GLWE<D> {
    open spec fn s_n(&self) -> u32 { self.data.n as u32 } open spec fn s_base2k(&self) -> Base2K { self.base2k } open spec fn s_size(&self) -> usize { self.data.size }
    #[verifier::external_body] fn n(&self) -> (r: Degree) { unimplemented!() }
    fn base2k(&self) -> (r: Base2K) { self.base2k }
    fn size(&self) -> (r: usize) { self.data.size() }
}
impl<D> GLWEInfos for GLWE<D> { open spec fn s_rank(&self) -> u32 { (self.data.cols - 1) as u32 } #[verifier::external_body] fn rank(&self) -> (r: Rank) { unimplemented!() } }
pub open spec fn infos_ref<A: GLWEToRef + GLWEInfos>(a: &A) -> bool {
    a.s_n() == a.gref().data.n && a.s_rank() + 1 == a.gref().data.cols && a.s_base2k() == a.gref().base2k && a.s_size() == a.gref().data.size
}
pub open spec fn infos_mut<R: GLWEToMut + GLWEInfos>(r: &R) -> bool {
    r.s_n() == r.gm_n() && r.s_rank() + 1 == r.gm_cols() && r.s_base2k() == r.gm_base2k() && r.s_size() == r.gm_size()
}
#[derive(Clone, Copy)]
pub struct GLWELayout { pub n: Degree, pub base2k: Base2K, pub k: TorusPrecision, pub rank: Rank }
pub open spec fn sceil(a: int, b: int) -> int { if b <= 0 { 0 } else if a % b == 0 { a / b } else { a / b + 1 } }
impl LWEInfos for GLWELayout {
    open spec fn s_n(&self) -> u32 { self.n.0 } open spec fn s_base2k(&self) -> Base2K { self.base2k } open spec fn s_size(&self) -> usize { sceil(self.k.0 as int, self.base2k.0 as int) as usize }
    fn n(&self) -> (r: Degree) { self.n }
    fn base2k(&self) -> (r: Base2K) { self.base2k }
    #[verifier::external_body] fn size(&self) -> (r: usize) { unimplemented!() }     // self.k.as_usize().div_ceil(self.base2k.as_usize())
}
impl GLWEInfos for GLWELayout { open spec fn s_rank(&self) -> u32 { self.rank.0 } fn rank(&self) -> (r: Rank) { self.rank } }

// byte sizes of coefficient-domain objects: VecZnx::bytes_of(n, cols, size) = n * cols * size * 8
pub open spec fn glwe_bytes<A: GLWEInfos>(a: &A) -> int { a.s_n() * (a.s_rank() + 1) * sceil(max_k_of(a) as int, a.s_base2k().0 as int) * 8 }
impl GLWE<Vec<u8>> {
    #[verifier::external_body]
    pub fn bytes_of_from_infos<A: GLWEInfos>(infos: &A) -> (r: usize) requires glwe_bytes(infos) <= usize::MAX ensures r == glwe_bytes(infos) { unimplemented!() }
}
impl<BE: Backend> Scratch<BE> {
    #[verifier::external_body]
    pub fn take_glwe<A: GLWEInfos>(&mut self, infos: &A) -> (r: (GLWE<&mut [u8]>, &mut Scratch<BE>))
        requires old(self).avail >= infos.s_n() * (infos.s_rank() + 1) * infos.s_size() * 8, infos.s_rank() < u32::MAX,
        ensures r.0.data.n == infos.s_n(), r.0.data.cols == infos.s_rank() + 1, r.0.data.size == infos.s_size(), r.0.data.max_size == infos.s_size(), r.0.base2k == infos.s_base2k(), r.0.data.wf(),
            r.1.avail == old(self).avail - infos.s_n() * (infos.s_rank() + 1) * infos.s_size() * 8,
            final(self).avail == old(self).avail,
    { unimplemented!() }
}
pub trait VecZnxBigToRef<BE> { spec fn bigref(&self) -> VecZnxBig<&[u8], BE>; }
impl<D: DataRef, BE> VecZnxBigToRef<BE> for VecZnxBig<D, BE> {
    open spec fn bigref(&self) -> VecZnxBig<&[u8], BE> {
        VecZnxBig { data: bref(self.data), n: self.n, cols: self.cols, size: self.size, max_size: self.max_size, deps: self.deps, rad: self.rad, _phantom: core::marker::PhantomData }
    }
}
// union of the dependency sets of the active limbs of one column of a big accumulator / of a coefficient-domain vector
// limb radix a coefficient-domain vector is expressed in: an uninterpreted attribute of the vector (a GLWE keeps `vrad(data) == base2k`, see glwe_radix_ok)
pub uninterp spec fn vrad(v: VecZnx<&[u8]>) -> int;
pub open spec fn glwe_radix_ok(g: GLWE<&[u8]>) -> bool { vrad(g.data) == g.base2k.0 }
pub open spec fn big_cleared<D, BE>(v: VecZnxBig<D, BE>) -> bool { forall|i: int, j: int| #[trigger] v.dep(i, j) == ISet::<Src>::empty() }
pub open spec fn big_col<BE>(a: VecZnxBig<&[u8], BE>, col: int) -> ISet<Src> { ISet::new(|s: Src| exists|l: int| 0 <= l < a.size && #[trigger] a.dep(col, l).contains(s)) }
pub open spec fn znx_col(a: VecZnx<&[u8]>, col: int) -> ISet<Src> { ISet::new(|s: Src| exists|l: int| 0 <= l < a.size && #[trigger] depl(a.limb(col, l)).contains(s)) }

pub trait VecZnxDftApply<BE: Backend> {
    // limb j of the selected column of res = DFT(limb offset + j*step of a), zero past the source (proved for both reference backends, units vec_znx_dft*)
    fn vec_znx_dft_apply<D: DataMut, A: VecZnxToRef>(&self, step: usize, offset: usize, res: &mut VecZnxDft<D, BE>, res_col: usize, a: &A, a_col: usize)
        requires res_col < old(res).cols, a_col < a.sref().cols, old(res).n == a.sref().n, a.sref().wf(), step >= 1,
        ensures final(res).n == old(res).n, final(res).cols == old(res).cols, final(res).size == old(res).size, final(res).max_size == old(res).max_size, final(res).rad@ == vrad(a.sref()),
            forall|j: int| 0 <= j < old(res).size ==> #[trigger] final(res).dep(res_col as int, j) == (if offset + j * step < a.sref().size { depl(a.sref().limb(a_col as int, offset + j * step)) } else { ISet::<Src>::empty() }),
            forall|i: int, j: int| (i != res_col || j < 0 || j >= old(res).size) ==> #[trigger] final(res).dep(i, j) == old(res).dep(i, j);
}
pub trait VecZnxIdftApplyConsume<BE: Backend> {
    fn vec_znx_idft_apply_consume<D: Data>(&self, a: VecZnxDft<D, BE>) -> (r: VecZnxBig<D, BE>)
        ensures r.n == a.n, r.cols == a.cols, r.size == a.size, r.max_size == a.max_size, r.deps == a.deps, r.rad == a.rad, forall|i: int, j: int| #[trigger] r.dep(i, j) == a.dep(i, j);
}
pub trait VecZnxBigAddSmallAssign<BE: Backend> {
    fn vec_znx_big_add_small_assign<D: DataMut, A: VecZnxToRef>(&self, res: &mut VecZnxBig<D, BE>, res_col: usize, a: &A, a_col: usize)
        requires res_col < old(res).cols, a_col < a.sref().cols, old(res).n == a.sref().n, a.sref().wf(),
            // same limb radix (the small vector is added limb-wise into the accumulator), unless the accumulator is still cleared: then it takes the operand's radix
            vrad(a.sref()) == old(res).rad@ || big_cleared(*old(res)),
        ensures final(res).n == old(res).n, final(res).cols == old(res).cols, final(res).size == old(res).size, final(res).max_size == old(res).max_size, final(res).rad@ == vrad(a.sref()),
            forall|j: int| 0 <= j < old(res).size ==> #[trigger] final(res).dep(res_col as int, j) == (if j < a.sref().size { old(res).dep(res_col as int, j).union(depl(a.sref().limb(a_col as int, j))) } else { old(res).dep(res_col as int, j) }),
            forall|i: int, j: int| (i != res_col || j < 0 || j >= old(res).size) ==> #[trigger] final(res).dep(i, j) == old(res).dep(i, j);
}
pub trait VecZnxBigNormalizeTmpBytes { spec fn s_big_norm_tmp(&self) -> int; fn vec_znx_big_normalize_tmp_bytes(&self) -> (r: usize) ensures r == self.s_big_norm_tmp(); }
pub trait VecZnxBigNormalize<BE: Backend>: VecZnxBigNormalizeTmpBytes {
    // every limb of the selected column of res is written from the active limbs of the selected column of a (carries flow through all of them)
    fn vec_znx_big_normalize<R: VecZnxToMut, A: VecZnxBigToRef<BE>>(&self, res: &mut R, res_base2k: usize, res_offset: i64, res_col: usize, a: &A, a_base2k: usize, a_col: usize, scratch: &mut Scratch<BE>)
        requires old(res).smut_wf(), res_col < old(res).smut_cols(), a_col < a.bigref().cols, old(res).smut_n() == a.bigref().n, 1 <= res_base2k <= 62, 1 <= a_base2k <= 62, a.bigref().rad@ == a_base2k,
            old(scratch).avail >= self.s_big_norm_tmp(),
        ensures final(scratch).avail == old(scratch).avail,
            forall|jj: int| 0 <= jj < old(res).smut_size() ==> depl(#[trigger] final(res).smut_limb(res_col as int, jj)) == big_col(a.bigref(), a_col as int),
            $ENS_SHAPE
    ;
}

// views taken from scratch are owners themselves
impl<'a> GLWEToRef for GLWE<&'a mut [u8]> {
    open spec fn gref(&self) -> GLWE<&[u8]> { GLWE { data: VecZnx { data: ref_of(self.data.data@), n: self.data.n, cols: self.data.cols, size: self.data.size, max_size: self.data.max_size }, base2k: self.base2k } }
    #[verifier::external_body] fn to_ref(&self) -> (r: GLWE<&[u8]>) { unimplemented!() }
}
// trusted (I-LAYOUT): a shared re-borrow of a byte buffer shows the same bytes
pub uninterp spec fn ref_of(b: Seq<u8>) -> &'static [u8];
#[verifier::external_body]
pub broadcast proof fn axiom_ref_of(b: Seq<u8>) ensures #[trigger] ref_of(b)@ == b { }
impl<'a> GLWEToMut for GLWE<&'a mut [u8]> {
    open spec fn gm_n(&self) -> usize { self.data.n } open spec fn gm_cols(&self) -> usize { self.data.cols } open spec fn gm_size(&self) -> usize { self.data.size }
    open spec fn gm_wf(&self) -> bool { self.data.wf() } open spec fn gm_base2k(&self) -> Base2K { self.base2k }
    open spec fn gm_limb(&self, i: int, j: int) -> Seq<i64> { self.data.limb(i, j) }
    #[verifier::external_body] fn to_mut(&mut self) -> (r: GLWE<&mut [u8]>) { unimplemented!() }
}
// I-GLWE: the shared view of an owner shows the same shape and limbs as its mutable view (in-place operations read `res` through to_ref())
pub open spec fn mut_ref_agree<R: GLWEToMut>(r: &R) -> bool {
    r.gref().data.n == r.gm_n() && r.gref().data.cols == r.gm_cols() && r.gref().data.size == r.gm_size() && r.gref().base2k == r.gm_base2k() && (r.gm_wf() ==> r.gref().data.wf())
    && forall|i: int, j: int| #[trigger] r.gref().data.limb(i, j) == r.gm_limb(i, j)
}
// GLWENormalize (verified against the HAL in unit glwe_ops): column i of res is the normalisation of column i of a -- every limb of it is written from the limbs of that column
pub trait GLWENormalize<BE: Backend> {
    spec fn s_glwe_norm_tmp(&self) -> int;
    fn glwe_normalize_tmp_bytes(&self) -> (r: usize) ensures r == self.s_glwe_norm_tmp();
    fn glwe_normalize<R: GLWEToMut, A: GLWEToRef>(&self, res: &mut R, a: &A, scratch: &mut Scratch<BE>)
        requires glwe_radix_ok(a.gref()), old(res).gm_wf(), 1 <= old(res).gm_cols() <= u32::MAX, old(res).gm_n() <= u32::MAX, glwe_ok(a.gref()), old(res).gm_n() == a.gref().data.n, old(res).gm_cols() == a.gref().data.cols,
            1 <= old(res).gm_base2k().0 <= 62, 1 <= a.gref().base2k.0 <= 62, old(scratch).avail >= self.s_glwe_norm_tmp(),
        ensures final(res).gm_n() == old(res).gm_n(), final(res).gm_cols() == old(res).gm_cols(), final(res).gm_size() == old(res).gm_size(), final(res).gm_wf(), final(res).gm_base2k() == old(res).gm_base2k(),
            final(scratch).avail == old(scratch).avail,
            forall|i: int, jj: int| 0 <= i < old(res).gm_cols() && 0 <= jj < old(res).gm_size() ==> depl(#[trigger] final(res).gm_limb(i, jj)) == znx_col(a.gref().data, i),
            glwe_radix_ok(final(res).gref());
}
impl<'a> GLWEToRef for GLWE<&'a [u8]> {
    open spec fn gref(&self) -> GLWE<&[u8]> { *self }
    #[verifier::external_body] fn to_ref(&self) -> (r: GLWE<&[u8]>) { unimplemented!() }
}
// a mutable view read as an operand (`a_conv.data()`): the same bytes
impl<'a> VecZnxToRef for VecZnx<&'a mut [u8]> {
    open spec fn sref(&self) -> VecZnx<&[u8]> { VecZnx { data: ref_of(self.data@), n: self.n, cols: self.cols, size: self.size, max_size: self.max_size } }
    #[verifier::external_body] fn to_ref(&self) -> (r: VecZnx<&[u8]>) { unimplemented!() }
}
