// ---------- prelude/hal_api (R5): the HAL traits the core layer calls, with the contracts PROVED for the reference implementation ----------
// Each contract below is the same text ($CONTRACT_* bundle of prelude/col_contracts.rs) that units vec_znx_arith / vec_znx_ring discharge
// against the real `poulpy-cpu-ref/src/reference/vec_znx/*.rs` function the backends delegate to (the delegation
// `Module<BE>::vec_znx_x -> BE::vec_znx_x_impl -> reference::vec_znx_x::<.., BE>` is a chain of one-line forwards: syntactic, listed as trusted).
// For the in-place operations that take scratch, the slice-length clause of the proved contract is replaced by the arena clause that unit
// hal_glue proves sufficient for the HAL default glue (a scratch with n*8 available bytes yields the n-element slice).
pub trait Backend {}
pub struct Scratch<BE> { pub avail: usize, pub _p: core::marker::PhantomData<BE> }
impl<BE> Scratch<BE> { pub fn available(&self) -> (r: usize) ensures r == self.avail { self.avail } }
pub trait ModuleN { spec fn sn(&self) -> usize; fn n(&self) -> (r: usize) ensures r == self.sn(); }
pub trait VecZnxAddInto {
    fn vec_znx_add_into<R: VecZnxToMut, A: VecZnxToRef, B: VecZnxToRef>(&self, res: &mut R, res_col: usize, a: &A, a_col: usize, b: &B, b_col: usize)
$CONTRACT_ADD_INTO
    ;
}
pub trait VecZnxSub {
    fn vec_znx_sub<R: VecZnxToMut, A: VecZnxToRef, B: VecZnxToRef>(&self, res: &mut R, res_col: usize, a: &A, a_col: usize, b: &B, b_col: usize)
$CONTRACT_SUB
    ;
}
pub trait VecZnxCopy {
    fn vec_znx_copy<R: VecZnxToMut, A: VecZnxToRef>(&self, res: &mut R, res_col: usize, a: &A, a_col: usize)
$CONTRACT_COPY
    ;
}
pub trait VecZnxNegate {
    fn vec_znx_negate<R: VecZnxToMut, A: VecZnxToRef>(&self, res: &mut R, res_col: usize, a: &A, a_col: usize)
$CONTRACT_NEGATE
    ;
}
pub trait VecZnxNegateAssign {
    fn vec_znx_negate_assign<R: VecZnxToMut>(&self, res: &mut R, res_col: usize)
$CONTRACT_NEGATE_ASSIGN
    ;
}
pub trait VecZnxZero {
    fn vec_znx_zero<R: VecZnxToMut>(&self, res: &mut R, res_col: usize)
$CONTRACT_ZERO
    ;
}
pub trait VecZnxAddAssign {
    fn vec_znx_add_assign<R: VecZnxToMut, A: VecZnxToRef>(&self, res: &mut R, res_col: usize, a: &A, a_col: usize)
$CONTRACT_ADD_ASSIGN
    ;
}
pub trait VecZnxSubAssign {
    fn vec_znx_sub_assign<R: VecZnxToMut, A: VecZnxToRef>(&self, res: &mut R, res_col: usize, a: &A, a_col: usize)
$CONTRACT_SUB_ASSIGN
    ;
}
pub trait VecZnxSubNegateAssign {
    fn vec_znx_sub_negate_assign<R: VecZnxToMut, A: VecZnxToRef>(&self, res: &mut R, res_col: usize, a: &A, a_col: usize)
$CONTRACT_SUB_NEGATE_ASSIGN
    ;
}
pub trait VecZnxRotate {
    fn vec_znx_rotate<R: VecZnxToMut, A: VecZnxToRef>(&self, p: i64, res: &mut R, res_col: usize, a: &A, a_col: usize)
$CONTRACT_ROTATE
    ;
}
pub trait VecZnxMulXpMinusOne {
    fn vec_znx_mul_xp_minus_one<R: VecZnxToMut, A: VecZnxToRef>(&self, p: i64, res: &mut R, res_col: usize, a: &A, a_col: usize)
$CONTRACT_MUL_XP_MINUS_ONE
    ;
}
pub trait VecZnxRotateAssignTmpBytes: ModuleN {
    // reference: vec_znx_rotate_assign_tmp_bytes(n) == n * 8 (unit hal_glue); the backends pass their own ring degree
    fn vec_znx_rotate_assign_tmp_bytes(&self) -> (r: usize) requires self.sn() <= 0x1000_0000 ensures r == self.sn() * 8;
}
pub trait VecZnxRotateAssign<BE: Backend> {
    fn vec_znx_rotate_assign<R: VecZnxToMut>(&self, p: i64, res: &mut R, res_col: usize, scratch: &mut Scratch<BE>)
$CONTRACT_ROTATE_ASSIGN{old(tmp).len() == old(res).smut_n(),=>old(scratch).avail >= old(res).smut_n() * 8,}
        , final(scratch).avail == old(scratch).avail
    ;
}
pub trait VecZnxMulXpMinusOneAssign<BE: Backend> {
    fn vec_znx_mul_xp_minus_one_assign<R: VecZnxToMut>(&self, p: i64, res: &mut R, res_col: usize, scratch: &mut Scratch<BE>)
$CONTRACT_MUL_XP_MINUS_ONE_ASSIGN{old(tmp).len() == old(res).smut_n(),=>old(scratch).avail >= old(res).smut_n() * 8,}
        , final(scratch).avail == old(scratch).avail
    ;
}
// marker bounds of the real where-clauses (the arena API itself is reduced to `available()` here)
pub trait ScratchTakeCore<BE: Backend> {}
pub trait ScratchAvailable {}
impl<BE: Backend> ScratchTakeCore<BE> for Scratch<BE> {}
impl<BE: Backend> ScratchAvailable for Scratch<BE> {}

// ---- HAL operations whose VALUE contract is not proved in Verus (shifts, out-of-place / cross-radix normalisation: bounded Kani harnesses only, C08) ----
// They enter as uninterpreted but deterministic functions of exactly the declared inputs (radices, shift, the operand column, for the
// accumulating forms also the previous result column): this is the frame + determinism part of their contract, which is what the GLWE
// wrappers need; what the function computes is the C08 question.
pub open spec fn acol(a: VecZnx<&[u8]>, i: int) -> Seq<Seq<i64>> { Seq::new(a.size as nat, |j: int| a.limb(i, j)) }
pub open spec fn ocol(f: spec_fn(int, int) -> Seq<i64>, i: int, size: int) -> Seq<Seq<i64>> { Seq::new(size as nat, |j: int| f(i, j)) }
pub uninterp spec fn hal_lsh(base2k: int, k: int, a: Seq<Seq<i64>>, res_size: int, jj: int) -> Seq<i64>;
pub uninterp spec fn hal_lsh_acc(sub: bool, base2k: int, k: int, old: Seq<Seq<i64>>, a: Seq<Seq<i64>>, jj: int) -> Seq<i64>;
pub uninterp spec fn hal_lsh_assign(base2k: int, k: int, old: Seq<Seq<i64>>, jj: int) -> Seq<i64>;
pub uninterp spec fn hal_rsh_assign(base2k: int, k: int, old: Seq<Seq<i64>>, jj: int) -> Seq<i64>;
pub uninterp spec fn hal_normalize(res_base2k: int, res_offset: int, a_base2k: int, a: Seq<Seq<i64>>, res_size: int, jj: int) -> Seq<i64>;
pub uninterp spec fn hal_normalize_assign(base2k: int, old: Seq<Seq<i64>>, jj: int) -> Seq<i64>;
//@def REQ_RA
        old(res).smut_wf(), a.sref().wf(), a.sref().n == old(res).smut_n(), res_col < old(res).smut_cols(), a_col < a.sref().cols,
        1 <= base2k <= 62, old(res).smut_n() <= 0x1000_0000
//@enddef
pub trait VecZnxLshTmpBytes: ModuleN { fn vec_znx_lsh_tmp_bytes(&self) -> (r: usize) requires self.sn() <= 0x1000_0000 ensures r == self.sn() * 8; }
pub trait VecZnxRshTmpBytes: ModuleN { fn vec_znx_rsh_tmp_bytes(&self) -> (r: usize) requires self.sn() <= 0x1000_0000 ensures r == 2 * self.sn() * 8; }
pub trait VecZnxNormalizeTmpBytes: ModuleN { fn vec_znx_normalize_tmp_bytes(&self) -> (r: usize) requires self.sn() <= 0x1000_0000 ensures r == 3 * self.sn() * 8; }
pub trait VecZnxLsh<BE: Backend> {
    fn vec_znx_lsh<R: VecZnxToMut, A: VecZnxToRef>(&self, base2k: usize, k: usize, res: &mut R, res_col: usize, a: &A, a_col: usize, scratch: &mut Scratch<BE>)
    requires $REQ_RA, old(scratch).avail >= old(res).smut_n() * 8,
    ensures final(scratch).avail == old(scratch).avail,
        forall|jj: int| 0 <= jj < old(res).smut_size() ==> #[trigger] final(res).smut_limb(res_col as int, jj) == hal_lsh(base2k as int, k as int, acol(a.sref(), a_col as int), old(res).smut_size() as int, jj),
        $ENS_SHAPE
    ;
}
pub trait VecZnxLshAddInto<BE: Backend> {
    fn vec_znx_lsh_add_into<R: VecZnxToMut, A: VecZnxToRef>(&self, base2k: usize, k: usize, res: &mut R, res_col: usize, a: &A, a_col: usize, scratch: &mut Scratch<BE>)
    requires $REQ_RA, old(scratch).avail >= old(res).smut_n() * 8,
    ensures final(scratch).avail == old(scratch).avail,
        forall|jj: int| 0 <= jj < old(res).smut_size() ==> #[trigger] final(res).smut_limb(res_col as int, jj) == hal_lsh_acc(false, base2k as int, k as int, ocol(owner_limbs(old(res)), res_col as int, old(res).smut_size() as int), acol(a.sref(), a_col as int), jj),
        $ENS_SHAPE
    ;
}
pub trait VecZnxLshSub<BE: Backend> {
    fn vec_znx_lsh_sub<R: VecZnxToMut, A: VecZnxToRef>(&self, base2k: usize, k: usize, res: &mut R, res_col: usize, a: &A, a_col: usize, scratch: &mut Scratch<BE>)
    requires $REQ_RA, old(scratch).avail >= old(res).smut_n() * 8,
    ensures final(scratch).avail == old(scratch).avail,
        forall|jj: int| 0 <= jj < old(res).smut_size() ==> #[trigger] final(res).smut_limb(res_col as int, jj) == hal_lsh_acc(true, base2k as int, k as int, ocol(owner_limbs(old(res)), res_col as int, old(res).smut_size() as int), acol(a.sref(), a_col as int), jj),
        $ENS_SHAPE
    ;
}
pub trait VecZnxLshAssign<BE: Backend> {
    fn vec_znx_lsh_assign<R: VecZnxToMut>(&self, base2k: usize, k: usize, res: &mut R, res_col: usize, scratch: &mut Scratch<BE>)
    requires old(res).smut_wf(), res_col < old(res).smut_cols(), 1 <= base2k <= 62, old(res).smut_n() <= 0x1000_0000, old(scratch).avail >= old(res).smut_n() * 8,
    ensures final(scratch).avail == old(scratch).avail,
        forall|jj: int| 0 <= jj < old(res).smut_size() ==> #[trigger] final(res).smut_limb(res_col as int, jj) == hal_lsh_assign(base2k as int, k as int, ocol(owner_limbs(old(res)), res_col as int, old(res).smut_size() as int), jj),
        $ENS_SHAPE
    ;
}
pub trait VecZnxRshAssign<BE: Backend> {
    fn vec_znx_rsh_assign<R: VecZnxToMut>(&self, base2k: usize, k: usize, res: &mut R, res_col: usize, scratch: &mut Scratch<BE>)
    requires old(res).smut_wf(), res_col < old(res).smut_cols(), 1 <= base2k <= 62, old(res).smut_n() <= 0x1000_0000, old(scratch).avail >= 2 * old(res).smut_n() * 8,
    ensures final(scratch).avail == old(scratch).avail,
        forall|jj: int| 0 <= jj < old(res).smut_size() ==> #[trigger] final(res).smut_limb(res_col as int, jj) == hal_rsh_assign(base2k as int, k as int, ocol(owner_limbs(old(res)), res_col as int, old(res).smut_size() as int), jj),
        $ENS_SHAPE
    ;
}
pub trait VecZnxNormalize<BE: Backend> {
    fn vec_znx_normalize<R: VecZnxToMut, A: VecZnxToRef>(&self, res: &mut R, res_base2k: usize, res_offset: i64, res_col: usize, a: &A, a_base2k: usize, a_col: usize, scratch: &mut Scratch<BE>)
    requires old(res).smut_wf(), a.sref().wf(), a.sref().n == old(res).smut_n(), res_col < old(res).smut_cols(), a_col < a.sref().cols,
        1 <= res_base2k <= 62, 1 <= a_base2k <= 62, old(res).smut_n() <= 0x1000_0000, old(scratch).avail >= 3 * old(res).smut_n() * 8,
    ensures final(scratch).avail == old(scratch).avail,
        forall|jj: int| 0 <= jj < old(res).smut_size() ==> #[trigger] final(res).smut_limb(res_col as int, jj) == hal_normalize(res_base2k as int, res_offset as int, a_base2k as int, acol(a.sref(), a_col as int), old(res).smut_size() as int, jj),
        $ENS_SHAPE
    ;
}
pub trait VecZnxNormalizeAssign<BE: Backend> {
    fn vec_znx_normalize_assign<R: VecZnxToMut>(&self, base2k: usize, res: &mut R, res_col: usize, scratch: &mut Scratch<BE>)
    requires old(res).smut_wf(), res_col < old(res).smut_cols(), 1 <= base2k <= 62, old(res).smut_n() <= 0x1000_0000, old(scratch).avail >= 3 * old(res).smut_n() * 8,
    ensures final(scratch).avail == old(scratch).avail,
        forall|jj: int| 0 <= jj < old(res).smut_size() ==> #[trigger] final(res).smut_limb(res_col as int, jj) == hal_normalize_assign(base2k as int, ocol(owner_limbs(old(res)), res_col as int, old(res).smut_size() as int), jj),
        $ENS_SHAPE
    ;
}
