// ---------- prelude/hal_api (R5): the HAL traits the core layer calls, with the contracts PROVED for the reference implementation ----------
// Each contract below is the same text ($CONTRACT_* bundle of prelude/col_contracts.rs) that units vec_znx_arith / vec_znx_ring discharge
// against the real `poulpy-cpu-ref/src/reference/vec_znx/*.rs` function the backends delegate to (the delegation
// `Module<BE>::vec_znx_x -> BE::vec_znx_x_impl -> reference::vec_znx_x::<.., BE>` is a chain of one-line forwards: syntactic, listed as trusted).
// For the in-place operations that take scratch, the slice-length clause of the proved contract is replaced by the arena clause that unit
// hal_glue proves sufficient for the HAL default glue (a scratch with n*8 available bytes yields the n-element slice).
pub trait Backend {}
pub struct Scratch<BE> { pub avail: usize, pub _p: core::marker::PhantomData<BE> }
impl<BE> Scratch<BE> { pub fn available(&self) -> (r: usize) ensures r == self.avail { self.avail } }
pub trait ModuleN { spec fn sn(&self) -> usize; fn n(&self) -> (r: usize) ensures r == self.sn(); }
pub trait VecZnxAddInto {
    fn vec_znx_add_into<R: VecZnxToMut, A: VecZnxToRef, B: VecZnxToRef>(&self, res: &mut R, res_col: usize, a: &A, a_col: usize, b: &B, b_col: usize)
$CONTRACT_ADD_INTO
    ;
}
pub trait VecZnxSub {
    fn vec_znx_sub<R: VecZnxToMut, A: VecZnxToRef, B: VecZnxToRef>(&self, res: &mut R, res_col: usize, a: &A, a_col: usize, b: &B, b_col: usize)
$CONTRACT_SUB
    ;
}
pub trait VecZnxCopy {
    fn vec_znx_copy<R: VecZnxToMut, A: VecZnxToRef>(&self, res: &mut R, res_col: usize, a: &A, a_col: usize)
$CONTRACT_COPY
    ;
}
pub trait VecZnxNegate {
    fn vec_znx_negate<R: VecZnxToMut, A: VecZnxToRef>(&self, res: &mut R, res_col: usize, a: &A, a_col: usize)
$CONTRACT_NEGATE
    ;
}
pub trait VecZnxNegateAssign {
    fn vec_znx_negate_assign<R: VecZnxToMut>(&self, res: &mut R, res_col: usize)
$CONTRACT_NEGATE_ASSIGN
    ;
}
pub trait VecZnxZero {
    fn vec_znx_zero<R: VecZnxToMut>(&self, res: &mut R, res_col: usize)
$CONTRACT_ZERO
    ;
}
pub trait VecZnxAddAssign {
    fn vec_znx_add_assign<R: VecZnxToMut, A: VecZnxToRef>(&self, res: &mut R, res_col: usize, a: &A, a_col: usize)
$CONTRACT_ADD_ASSIGN
    ;
}
pub trait VecZnxSubAssign {
    fn vec_znx_sub_assign<R: VecZnxToMut, A: VecZnxToRef>(&self, res: &mut R, res_col: usize, a: &A, a_col: usize)
$CONTRACT_SUB_ASSIGN
    ;
}
pub trait VecZnxSubNegateAssign {
    fn vec_znx_sub_negate_assign<R: VecZnxToMut, A: VecZnxToRef>(&self, res: &mut R, res_col: usize, a: &A, a_col: usize)
$CONTRACT_SUB_NEGATE_ASSIGN
    ;
}
pub trait VecZnxRotate {
    fn vec_znx_rotate<R: VecZnxToMut, A: VecZnxToRef>(&self, p: i64, res: &mut R, res_col: usize, a: &A, a_col: usize)
$CONTRACT_ROTATE
    ;
}
pub trait VecZnxMulXpMinusOne {
    fn vec_znx_mul_xp_minus_one<R: VecZnxToMut, A: VecZnxToRef>(&self, p: i64, res: &mut R, res_col: usize, a: &A, a_col: usize)
$CONTRACT_MUL_XP_MINUS_ONE
    ;
}
pub trait VecZnxRotateAssignTmpBytes: ModuleN {
    // reference: vec_znx_rotate_assign_tmp_bytes(n) == n * 8 (unit hal_glue); the backends pass their own ring degree
    fn vec_znx_rotate_assign_tmp_bytes(&self) -> (r: usize) requires self.sn() <= 0x1000_0000 ensures r == self.sn() * 8;
}
pub trait VecZnxRotateAssign<BE: Backend> {
    fn vec_znx_rotate_assign<R: VecZnxToMut>(&self, p: i64, res: &mut R, res_col: usize, scratch: &mut Scratch<BE>)
$CONTRACT_ROTATE_ASSIGN{old(tmp).len() == old(res).smut_n(),=>old(scratch).avail >= old(res).smut_n() * 8,}
        , final(scratch).avail == old(scratch).avail
    ;
}
pub trait VecZnxMulXpMinusOneAssign<BE: Backend> {
    fn vec_znx_mul_xp_minus_one_assign<R: VecZnxToMut>(&self, p: i64, res: &mut R, res_col: usize, scratch: &mut Scratch<BE>)
$CONTRACT_MUL_XP_MINUS_ONE_ASSIGN{old(tmp).len() == old(res).smut_n(),=>old(scratch).avail >= old(res).smut_n() * 8,}
        , final(scratch).avail == old(scratch).avail
    ;
}
// marker bounds of the real where-clauses (the arena API itself is reduced to `available()` here)
pub trait ScratchTakeCore<BE: Backend> {}
pub trait ScratchAvailable {}
impl<BE: Backend> ScratchTakeCore<BE> for Scratch<BE> {}
impl<BE: Backend> ScratchAvailable for Scratch<BE> {}
