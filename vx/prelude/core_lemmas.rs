// ---------- prelude/core_lemmas: size assumptions (A-SIZES, A-VMP-RES), cleanliness predicates and the lemmas shared by the core-layer units ----------
pub assume_specification[ usize::div_ceil ](a: usize, b: usize) -> (r: usize)
    requires b > 0
    ensures r == (if a as int % b as int == 0 { a as int / b as int } else { a as int / b as int + 1 });

// size bound under which the byte counts below cannot overflow (A-SIZES: every size query of the backend stays below 2^56 bytes)
pub open spec fn SZ() -> int { 0x100_0000_0000_0000 }
pub open spec fn sizes_ok<M: VecZnxDftBytesOf + VmpApplyDftToDftTmpBytes>(m: &M) -> bool {
    &&& forall|c: int, s: int| 0 <= #[trigger] m.s_bytes_of_dft(c, s) <= SZ()
    &&& forall|rs: int, a: int, r: int, ci: int, co: int, s: int| 0 <= #[trigger] m.s_vmp_tmp(rs, a, r, ci, co, s) <= SZ()
    // the vector-matrix product's scratch need is monotone in the operand limb count it is asked for (C12 "size queries are monotone enough") and does not
    // depend on the result limb count (A-VMP-RES: true for the FFT64 and NTT120 reference queries; glwe_keyswitch budgets the product on res.size() but
    // glwe_keyswitch_internal asserts it on key.size(): a backend whose query grows with res_size would panic when res.k < key.k -- recorded observation)
    &&& forall|rs: int, a: int, rs2: int, a2: int, r: int, ci: int, co: int, s: int| a <= a2 ==> #[trigger] m.s_vmp_tmp(rs, a, r, ci, co, s) <= #[trigger] m.s_vmp_tmp(rs2, a2, r, ci, co, s)
}
pub open spec fn ceil_div(a: int, b: int) -> int { if a % b == 0 { a / b } else { a / b + 1 } }
pub open spec fn all_clean<D, BE>(v: VecZnxDft<D, BE>) -> bool { forall|i: int, j: int| clean(#[trigger] v.dep(i, j)) }
// the active limbs (what every HAL operation reads) of the first `c` columns hold no stale data
pub open spec fn active_clean<D, BE>(v: VecZnxDft<D, BE>, c: int) -> bool { forall|i: int, j: int| 0 <= i < c && 0 <= j < v.size ==> clean(#[trigger] v.dep(i, j)) }

// limb counts of the digit groups: (a_size + di) / dsize <= ceil(a_size / dsize) for di < dsize
pub proof fn lemma_digit_size_le(a_size: int, dsize: int, di: int)
    requires a_size >= 0, dsize >= 1, 0 <= di < dsize
    ensures 0 <= (a_size + di) / dsize <= ceil_div(a_size, dsize)
{
    lemma_fundamental_div_mod(a_size, dsize); lemma_mod_bound(a_size, dsize);
    let q = a_size / dsize; let r = a_size % dsize;
    lemma_fundamental_div_mod(a_size + di, dsize); lemma_mod_bound(a_size + di, dsize);
    let q2 = (a_size + di) / dsize; let r2 = (a_size + di) % dsize;
    assert(q2 <= ceil_div(a_size, dsize)) by (nonlinear_arith)
        requires a_size == dsize * q + r, 0 <= r < dsize, a_size + di == dsize * q2 + r2, 0 <= r2 < dsize, 0 <= di < dsize, dsize >= 1,
                 ceil_div(a_size, dsize) == (if r == 0 { q } else { q + 1 });
    assert(q2 >= 0) by (nonlinear_arith) requires a_size + di == dsize * q2 + r2, 0 <= r2 < dsize, a_size + di >= 0, dsize >= 1;
}
pub proof fn lemma_digit_sizes(a_size: int, dsize: int) requires a_size >= 0, dsize >= 1 ensures ceil_div(a_size, dsize) >= 0
{ lemma_digit_size_le(a_size, dsize, 0); }
pub proof fn lemma_clean_same<D1, D2, BE>(x: VecZnxDft<D1, BE>, y: VecZnxDft<D2, BE>)
    requires x.deps == y.deps, all_clean(x) ensures all_clean(y)
{ assert forall|i: int, j: int| clean(#[trigger] y.dep(i, j)) by { assert(clean(x.dep(i, j))); } }
pub proof fn lemma_active_same<D1, D2, BE>(x: VecZnxDft<D1, BE>, y: VecZnxDft<D2, BE>, c: int)
    requires x.deps == y.deps, x.size == y.size, active_clean(x, c) ensures active_clean(y, c)
{ assert forall|i: int, j: int| 0 <= i < c && 0 <= j < y.size implies clean(#[trigger] y.dep(i, j)) by { assert(clean(x.dep(i, j))); } }
pub proof fn lemma_vmp_in_clean<BE>(a: VecZnxDft<&[u8], BE>, rm: int)
    requires rm <= a.size, active_clean(a, a.cols as int) ensures clean(vmp_in(a, rm))
{
    if vmp_in(a, rm).contains(GARBAGE()) {
        let (c, r) = choose|c: int, r: int| 0 <= c < a.cols && 0 <= r < rm && #[trigger] a.dep(c, r).contains(GARBAGE());
        assert(clean(a.dep(c, r)));
    }
}

pub open spec fn glwe_clean(a: GLWE<&[u8]>) -> bool { forall|i: int, j: int| 0 <= i < a.data.cols && 0 <= j < a.data.size ==> clean(depl(#[trigger] a.data.limb(i, j))) }
pub open spec fn big_clean<D, BE>(v: VecZnxBig<D, BE>) -> bool { forall|i: int, j: int| clean(#[trigger] v.dep(i, j)) }
pub proof fn lemma_sceil_mul(x: int, b: int) requires x >= 0, b >= 1 ensures sceil(x * b, b) == x
{ lemma_mod_multiples_basic(x, b); lemma_div_multiples_vanish(x, b); assert(x * b == b * x) by (nonlinear_arith); }
pub proof fn lemma_sceil_bound(a: int, b: int) requires a >= 0, b >= 1 ensures 0 <= sceil(a, b) <= a
{
    lemma_fundamental_div_mod(a, b); lemma_mod_bound(a, b);
    let q = a / b; let r = a % b;
    assert(q >= 0 && (r > 0 ==> q + 1 <= a) && q <= a) by (nonlinear_arith) requires a == b * q + r, 0 <= r < b, a >= 0, b >= 1;
}
pub proof fn lemma_conv_bytes(n: int, cols: int, a_size: int, a_b: int, kb: int)
    requires 0 <= n <= 0x1000_0000, 1 <= cols <= 0x100, 0 <= a_size <= 0x1000, 1 <= a_b <= 62, 1 <= kb <= 62
    ensures ({ let cs = sceil(a_size * a_b, kb); 0 <= cs <= 0x4_0000 && sceil(cs * kb, kb) == cs && 0 <= n * cols * cs * 8 <= 0x200_0000_0000_0000 && cs * kb <= 0x100_0000 && a_size * a_b <= 0x4_0000 })
{
    assert(0 <= a_size * a_b <= 0x4_0000) by (nonlinear_arith) requires 0 <= a_size <= 0x1000, 1 <= a_b <= 62;
    lemma_sceil_bound(a_size * a_b, kb);
    let cs = sceil(a_size * a_b, kb);
    lemma_sceil_mul(cs, kb);
    assert(0 <= n * cols * cs * 8 <= 0x200_0000_0000_0000) by (nonlinear_arith) requires 0 <= n <= 0x1000_0000, 1 <= cols <= 0x100, 0 <= cs <= 0x4_0000;
    assert(cs * kb <= 0x100_0000) by (nonlinear_arith) requires 0 <= cs <= 0x4_0000, 1 <= kb <= 62;
}
pub proof fn lemma_znx_col_clean(a: GLWE<&[u8]>, col: int)
    requires glwe_clean(a), 0 <= col < a.data.cols ensures clean(znx_col(a.data, col))
{
    if znx_col(a.data, col).contains(GARBAGE()) {
        let l = choose|l: int| 0 <= l < a.data.size && #[trigger] depl(a.data.limb(col, l)).contains(GARBAGE());
        assert(clean(depl(a.data.limb(col, l))));
    }
}
pub proof fn lemma_big_col_clean<BE>(a: VecZnxBig<&[u8], BE>, col: int)
    requires big_clean(a) ensures clean(big_col(a, col))
{
    if big_col(a, col).contains(GARBAGE()) {
        let l = choose|l: int| 0 <= l < a.size && #[trigger] a.dep(col, l).contains(GARBAGE());
        assert(clean(a.dep(col, l)));
    }
}
pub open spec fn owner_clean<R: GLWEToMut>(r: &R) -> bool { forall|i: int, j: int| 0 <= i < r.gm_cols() && 0 <= j < r.gm_size() ==> clean(depl(#[trigger] r.gm_limb(i, j))) }

pub proof fn lemma_active_all<BE>(x: VecZnxDft<&[u8], BE>) requires all_clean(x) ensures active_clean(x, x.cols as int)
{ assert forall|i: int, j: int| 0 <= i < x.cols && 0 <= j < x.size implies clean(#[trigger] x.dep(i, j)) by { } }
