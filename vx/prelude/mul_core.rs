// ---------- prelude/mul_core (R5/R6): containers (shape + radix tag), HAL size queries and scratch preconditions shared by units core_mul / core_relin ----------
pub trait Backend {}
pub struct Scratch<BE> { pub avail: usize, pub _p: core::marker::PhantomData<BE> }
impl<BE> Scratch<BE> { pub fn available(&self) -> (r: usize) ensures r == self.avail { self.avail } }
pub trait ModuleN { spec fn sn(&self) -> usize; fn n(&self) -> (r: usize) ensures r == self.sn(); }
pub trait Data {} pub trait DataRef: Data {} pub trait DataMut: DataRef {}
// `rad` (ghost): the limb radix the content is expressed in -- a unit-of-measure tag (adding limbs of another radix into an accumulator is a value error)
pub struct VecZnx<D> { pub data: D, pub n: usize, pub cols: usize, pub size: usize, pub rad: Ghost<int> }
impl<D> VecZnx<D> { pub fn size(&self) -> (r: usize) ensures r == self.size { self.size } }
pub struct VecZnxBig<D, BE> { pub data: D, pub n: usize, pub cols: usize, pub size: usize, pub rad: Ghost<int>, pub _p: core::marker::PhantomData<BE> }
pub struct VecZnxDft<D, BE> { pub data: D, pub n: usize, pub cols: usize, pub size: usize, pub rad: Ghost<int>, pub _p: core::marker::PhantomData<BE> }
pub struct CnvPVecL<D, BE> { pub data: D, pub n: usize, pub cols: usize, pub size: usize, pub rad: Ghost<int>, pub _p: core::marker::PhantomData<BE> }
pub struct CnvPVecR<D, BE> { pub data: D, pub n: usize, pub cols: usize, pub size: usize, pub rad: Ghost<int>, pub _p: core::marker::PhantomData<BE> }
pub struct GLWE<D> { pub data: VecZnx<D>, pub base2k: Base2K }
pub struct GLWEPlaintext<D> { pub data: VecZnx<D>, pub base2k: Base2K }
pub open spec fn glwe_ok<D>(g: GLWE<D>) -> bool { 1 <= g.data.cols <= 0x100 && g.data.n <= 0x1000_0000 && g.data.size <= 0x1000 && 1 <= g.base2k.0 <= 62 && g.data.rad@ == g.base2k.0 }
impl<D> GLWE<D> {
    pub fn data(&self) -> (r: &VecZnx<D>) ensures *r == self.data { &self.data }
    #[verifier::external_body] pub fn data_mut(&mut self) -> (r: &mut VecZnx<D>) ensures *r == old(self).data, final(self).data.n == old(self).data.n, final(self).data.cols == old(self).data.cols, final(self).data.size == old(self).data.size, final(self).base2k == old(self).base2k, final(self).data.rad == final(r).rad { &mut self.data }
    pub fn base2k(&self) -> (r: Base2K) ensures r == self.base2k { self.base2k }
    pub fn size(&self) -> (r: usize) ensures r == self.data.size { self.data.size }
    pub fn rank(&self) -> (r: Rank) requires 1 <= self.data.cols <= u32::MAX ensures r.0 == self.data.cols - 1 { Rank(self.data.cols as u32 - 1) }
    // `to_ref()`: a shared view of the same shape
    #[verifier::external_body] pub fn to_ref(&self) -> (r: GLWE<&[u8]>) ensures r.data.n == self.data.n, r.data.cols == self.data.cols, r.data.size == self.data.size, r.base2k == self.base2k, r.data.rad == self.data.rad { unimplemented!() }
}
impl<D> GLWEPlaintext<D> {
    pub fn data(&self) -> (r: &VecZnx<D>) ensures *r == self.data { &self.data }
    pub fn base2k(&self) -> (r: Base2K) ensures r == self.base2k { self.base2k }
    pub fn size(&self) -> (r: usize) ensures r == self.data.size { self.data.size }
}
pub trait GLWEInfos { spec fn s_n(&self) -> u32; spec fn s_base2k(&self) -> Base2K; spec fn s_size(&self) -> usize; spec fn s_rank(&self) -> u32;
    fn n(&self) -> (r: Degree) ensures r.0 == self.s_n(); fn base2k(&self) -> (r: Base2K) ensures r == self.s_base2k(); fn size(&self) -> (r: usize) ensures r == self.s_size(); fn rank(&self) -> (r: Rank) ensures r.0 == self.s_rank(); }
impl<D> GLWEInfos for GLWE<D> { open spec fn s_n(&self) -> u32 { self.data.n as u32 } open spec fn s_base2k(&self) -> Base2K { self.base2k } open spec fn s_size(&self) -> usize { self.data.size } open spec fn s_rank(&self) -> u32 { (self.data.cols - 1) as u32 }
    #[verifier::external_body] fn n(&self) -> (r: Degree) { unimplemented!() } fn base2k(&self) -> (r: Base2K) { self.base2k } fn size(&self) -> (r: usize) { self.data.size } #[verifier::external_body] fn rank(&self) -> (r: Rank) { unimplemented!() } }
impl<D> GLWEInfos for GLWEPlaintext<D> { open spec fn s_n(&self) -> u32 { self.data.n as u32 } open spec fn s_base2k(&self) -> Base2K { self.base2k } open spec fn s_size(&self) -> usize { self.data.size } open spec fn s_rank(&self) -> u32 { 0 }
    #[verifier::external_body] fn n(&self) -> (r: Degree) { unimplemented!() } fn base2k(&self) -> (r: Base2K) { self.base2k } fn size(&self) -> (r: usize) { self.data.size } #[verifier::external_body] fn rank(&self) -> (r: Rank) { unimplemented!() } }

// ---- HAL size queries and operations: scratch preconditions only ----
pub trait VecZnxBigBytesOf { spec fn s_bytes_big(&self, cols: int, size: int) -> int; fn bytes_of_vec_znx_big(&self, cols: usize, size: usize) -> (r: usize) ensures r == self.s_bytes_big(cols as int, size as int); }
pub trait VecZnxDftBytesOf { spec fn s_bytes_dft(&self, cols: int, size: int) -> int; fn bytes_of_vec_znx_dft(&self, cols: usize, size: usize) -> (r: usize) ensures r == self.s_bytes_dft(cols as int, size as int); }
pub trait CnvPVecBytesOf { spec fn s_bytes_l(&self, cols: int, size: int) -> int; spec fn s_bytes_r(&self, cols: int, size: int) -> int;
    fn bytes_of_cnv_pvec_left(&self, cols: usize, size: usize) -> (r: usize) ensures r == self.s_bytes_l(cols as int, size as int);
    fn bytes_of_cnv_pvec_right(&self, cols: usize, size: usize) -> (r: usize) ensures r == self.s_bytes_r(cols as int, size as int); }
pub trait VecZnxBigNormalizeTmpBytes { spec fn s_big_norm_tmp(&self) -> int; fn vec_znx_big_normalize_tmp_bytes(&self) -> (r: usize) ensures r == self.s_big_norm_tmp(); }
pub trait VecZnxBigNormalize<BE: Backend>: VecZnxBigNormalizeTmpBytes {
    fn vec_znx_big_normalize<D, DB>(&self, res: &mut VecZnx<D>, res_base2k: usize, res_offset: i64, res_col: usize, a: &VecZnxBig<DB, BE>, a_base2k: usize, a_col: usize, scratch: &mut Scratch<BE>)
        requires res_col < old(res).cols, a_col < a.cols, old(res).n == a.n, 1 <= res_base2k <= 62, 1 <= a_base2k <= 62, old(scratch).avail >= self.s_big_norm_tmp(),
            a.rad@ == a_base2k,      // the accumulator's limbs are in the radix the caller says they are in
        ensures final(scratch).avail == old(scratch).avail, final(res).n == old(res).n, final(res).cols == old(res).cols, final(res).size == old(res).size, final(res).rad@ == res_base2k;
}
pub trait VecZnxIdftApplyConsume<BE: Backend> { fn vec_znx_idft_apply_consume<D>(&self, a: VecZnxDft<D, BE>) -> (r: VecZnxBig<D, BE>) ensures r.n == a.n, r.cols == a.cols, r.size == a.size, r.rad == a.rad; }
pub trait Convolution<BE: Backend> {
    spec fn s_prep_l_tmp(&self, res_size: int, a_size: int) -> int; spec fn s_prep_r_tmp(&self, res_size: int, a_size: int) -> int;
    spec fn s_apply_tmp(&self, cnv_offset: int, res_size: int, a_size: int, b_size: int) -> int; spec fn s_by_const_tmp(&self, cnv_offset: int, res_size: int, a_size: int, b_size: int) -> int;
    // declared order of poulpy-hal/src/api/convolution.rs
    fn cnv_prepare_left_tmp_bytes(&self, res_size: usize, a_size: usize) -> (r: usize) ensures r == self.s_prep_l_tmp(res_size as int, a_size as int);
    fn cnv_prepare_right_tmp_bytes(&self, res_size: usize, a_size: usize) -> (r: usize) ensures r == self.s_prep_r_tmp(res_size as int, a_size as int);
    fn cnv_apply_dft_tmp_bytes(&self, cnv_offset: usize, res_size: usize, a_size: usize, b_size: usize) -> (r: usize) ensures r == self.s_apply_tmp(cnv_offset as int, res_size as int, a_size as int, b_size as int);
    fn cnv_by_const_apply_tmp_bytes(&self, cnv_offset: usize, res_size: usize, a_size: usize, b_size: usize) -> (r: usize) ensures r == self.s_by_const_tmp(cnv_offset as int, res_size as int, a_size as int, b_size as int);
    fn cnv_prepare_left<D, DA>(&self, res: &mut CnvPVecL<D, BE>, a: &VecZnx<DA>, mask: i64, scratch: &mut Scratch<BE>)
        requires old(res).n == a.n, old(res).cols == a.cols, old(scratch).avail >= self.s_prep_l_tmp(old(res).size as int, a.size as int),
        ensures final(scratch).avail == old(scratch).avail, final(res).n == old(res).n, final(res).cols == old(res).cols, final(res).size == old(res).size, final(res).rad == a.rad;
    fn cnv_prepare_right<D, DA>(&self, res: &mut CnvPVecR<D, BE>, a: &VecZnx<DA>, mask: i64, scratch: &mut Scratch<BE>)
        requires old(res).n == a.n, old(res).cols == a.cols, old(scratch).avail >= self.s_prep_r_tmp(old(res).size as int, a.size as int),
        ensures final(scratch).avail == old(scratch).avail, final(res).n == old(res).n, final(res).cols == old(res).cols, final(res).size == old(res).size, final(res).rad == a.rad;
    fn cnv_apply_dft<D, DA, DB>(&self, cnv_offset: usize, res: &mut VecZnxDft<D, BE>, res_col: usize, a: &CnvPVecL<DA, BE>, a_col: usize, b: &CnvPVecR<DB, BE>, b_col: usize, scratch: &mut Scratch<BE>)
        requires res_col < old(res).cols, a_col < a.cols, b_col < b.cols, old(res).n == a.n, a.n == b.n,
            old(scratch).avail >= self.s_apply_tmp(cnv_offset as int, old(res).size as int, a.size as int, b.size as int),
            a.rad == b.rad,      // a bivariate product in Y = 2^-K needs both operands in the same radix
        ensures final(scratch).avail == old(scratch).avail, final(res).n == old(res).n, final(res).cols == old(res).cols, final(res).size == old(res).size, final(res).rad == a.rad;
    fn cnv_by_const_apply<D, DA>(&self, cnv_offset: usize, res: &mut VecZnxBig<D, BE>, res_col: usize, a: &VecZnx<DA>, a_col: usize, b: &[i64], scratch: &mut Scratch<BE>)
        requires res_col < old(res).cols, a_col < a.cols, old(res).n == a.n,
            old(scratch).avail >= self.s_by_const_tmp(cnv_offset as int, old(res).size as int, a.size as int, b.len() as int),
        ensures final(scratch).avail == old(scratch).avail, final(res).n == old(res).n, final(res).cols == old(res).cols, final(res).size == old(res).size, final(res).rad == a.rad;
}
impl<BE: Backend> Scratch<BE> {
    #[verifier::external_body]
    pub fn take_vec_znx_big<M: VecZnxBigBytesOf + ModuleN>(&mut self, module: &M, cols: usize, size: usize) -> (r: (VecZnxBig<&mut [u8], BE>, &mut Scratch<BE>))
        requires old(self).avail >= module.s_bytes_big(cols as int, size as int)
        ensures r.0.n == module.sn(), r.0.cols == cols, r.0.size == size, r.1.avail == old(self).avail - module.s_bytes_big(cols as int, size as int), final(self).avail == old(self).avail { unimplemented!() }
    #[verifier::external_body]
    pub fn take_vec_znx_dft<M: VecZnxDftBytesOf + ModuleN>(&mut self, module: &M, cols: usize, size: usize) -> (r: (VecZnxDft<&mut [u8], BE>, &mut Scratch<BE>))
        requires old(self).avail >= module.s_bytes_dft(cols as int, size as int)
        ensures r.0.n == module.sn(), r.0.cols == cols, r.0.size == size, r.1.avail == old(self).avail - module.s_bytes_dft(cols as int, size as int), final(self).avail == old(self).avail { unimplemented!() }
    #[verifier::external_body]
    pub fn take_cnv_pvec_left<M: CnvPVecBytesOf + ModuleN>(&mut self, module: &M, cols: usize, size: usize) -> (r: (CnvPVecL<&mut [u8], BE>, &mut Scratch<BE>))
        requires old(self).avail >= module.s_bytes_l(cols as int, size as int)
        ensures r.0.n == module.sn(), r.0.cols == cols, r.0.size == size, r.1.avail == old(self).avail - module.s_bytes_l(cols as int, size as int), final(self).avail == old(self).avail { unimplemented!() }
    #[verifier::external_body]
    pub fn take_cnv_pvec_right<M: CnvPVecBytesOf + ModuleN>(&mut self, module: &M, cols: usize, size: usize) -> (r: (CnvPVecR<&mut [u8], BE>, &mut Scratch<BE>))
        requires old(self).avail >= module.s_bytes_r(cols as int, size as int)
        ensures r.0.n == module.sn(), r.0.cols == cols, r.0.size == size, r.1.avail == old(self).avail - module.s_bytes_r(cols as int, size as int), final(self).avail == old(self).avail { unimplemented!() }
}
pub trait ScratchTakeCore<BE: Backend> {}
impl<BE: Backend> ScratchTakeCore<BE> for Scratch<BE> {}
pub assume_specification[ usize::div_ceil ](a: usize, b: usize) -> (r: usize) requires b > 0 ensures r == (if a as int % b as int == 0 { a as int / b as int } else { a as int / b as int + 1 });
#[verifier::external_body] pub fn msb_mask_bottom_limb(base2k: usize, k: usize) -> (r: i64) requires base2k >= 1 { unimplemented!() }

pub open spec fn SZ() -> int { 0x100_0000_0000_0000 }
// A-SIZES / A-CNV-MONO
pub open spec fn mul_sizes_ok<M: VecZnxBigBytesOf + VecZnxDftBytesOf + CnvPVecBytesOf + VecZnxBigNormalizeTmpBytes + Convolution<BE>, BE: Backend>(m: &M) -> bool {
    &&& 0 <= m.s_big_norm_tmp() <= SZ()
    &&& forall|c: int, s: int| 0 <= #[trigger] m.s_bytes_big(c, s) <= SZ()
    &&& forall|c: int, s: int| 0 <= #[trigger] m.s_bytes_dft(c, s) <= SZ()
    &&& forall|c: int, s: int| 0 <= #[trigger] m.s_bytes_l(c, s) <= SZ()
    &&& forall|c: int, s: int| 0 <= #[trigger] m.s_bytes_r(c, s) <= SZ()
    &&& forall|r: int, a: int| 0 <= #[trigger] m.s_prep_l_tmp(r, a) <= SZ()
    &&& forall|r: int, a: int| 0 <= #[trigger] m.s_prep_r_tmp(r, a) <= SZ()
    &&& forall|o: int, r: int, a: int, b: int| 0 <= #[trigger] m.s_apply_tmp(o, r, a, b) <= SZ()
    &&& forall|o: int, r: int, a: int, b: int| 0 <= #[trigger] m.s_by_const_tmp(o, r, a, b) <= SZ()
    &&& forall|c: int, s: int, s2: int| s <= s2 ==> #[trigger] m.s_bytes_big(c, s) <= #[trigger] m.s_bytes_big(c, s2)
    &&& forall|c: int, s: int, s2: int| s <= s2 ==> #[trigger] m.s_bytes_dft(c, s) <= #[trigger] m.s_bytes_dft(c, s2)
    &&& forall|o: int, o2: int, r: int, r2: int, a: int, b: int| r <= r2 ==> #[trigger] m.s_apply_tmp(o, r, a, b) <= #[trigger] m.s_apply_tmp(o2, r2, a, b)
    &&& forall|o: int, o2: int, r: int, r2: int, a: int, b: int| r <= r2 ==> #[trigger] m.s_by_const_tmp(o, r, a, b) <= #[trigger] m.s_by_const_tmp(o2, r2, a, b)
}
pub open spec fn off_hi(cnv_offset: int, base2k: int) -> int { if cnv_offset < base2k { 0 } else if cnv_offset / base2k >= 1 { cnv_offset / base2k - 1 } else { 0 } }
pub open spec fn mul_const_tmp<M: VecZnxBigBytesOf + VecZnxDftBytesOf + CnvPVecBytesOf + VecZnxBigNormalizeTmpBytes + Convolution<BE>, BE: Backend>(m: &M, a_size: int, b_size: int) -> int {
    m.s_bytes_big(1, a_size + b_size) + smax(m.s_by_const_tmp(smax(a_size, b_size), a_size + b_size, a_size, b_size), m.s_big_norm_tmp())
}
pub open spec fn mul_plain_tmp<M: VecZnxBigBytesOf + VecZnxDftBytesOf + CnvPVecBytesOf + VecZnxBigNormalizeTmpBytes + Convolution<BE>, BE: Backend>(m: &M, cols: int, a_size: int, b_size: int) -> int {
    m.s_bytes_l(cols, a_size) + m.s_bytes_r(1, b_size)
    + smax(smax(m.s_prep_l_tmp(a_size, a_size), m.s_prep_r_tmp(b_size, b_size)),
           m.s_bytes_dft(1, a_size + b_size) + smax(m.s_apply_tmp(smin(a_size, b_size), a_size + b_size, a_size, b_size), m.s_big_norm_tmp()))
}

// limb-count bounds used by the size queries of this file (real text; also what the tensor routines clamp with)
pub open spec fn scdiv(a: int, b: int) -> int { if a % b == 0 { a / b } else { a / b + 1 } }
//@extract poulpy-core/src/operations/glwe.rs::normalize_input_limb_bound ret=r
//@spec
    requires in_base2k >= 1, res_size * res_base2k + offset_bits <= usize::MAX
    ensures r == smin(full_size as int, scdiv(res_size * res_base2k + offset_bits, in_base2k as int))
//@end
//@extract poulpy-core/src/operations/glwe.rs::normalize_input_limb_bound_worst_case ret=r
//@spec
    requires in_base2k >= 1, res_size * res_base2k + in_base2k <= usize::MAX
    ensures r == smin(full_size as int, scdiv(res_size * res_base2k + in_base2k - 1, in_base2k as int))
//@end

