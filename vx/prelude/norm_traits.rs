// ---------- prelude/norm_traits: the uniform step-kernel law (C08) as trait contracts ----------
// Discharged per radix on the real `znx_normalize_*_ref` functions by Kani (kx/cpu_ref/lib.rs::kernel_laws, harnesses
// c08_{first,middle,final,digit}_b<radix>): x_out + c_out*2^b == a*2^lsh + c_in, x_out balanced, |c_out| <= H for |a|,|c_in| <= H (lsh = 0).
pub open spec fn balanced(b: nat, d: int) -> bool { b >= 1 && -p2((b - 1) as nat) <= d < p2((b - 1) as nat) }
pub open spec fn H() -> int { 0x2000_0000_0000_0000 } // 2^61 headroom

pub trait ZnxNormalizeFirstStepAssign { fn znx_normalize_first_step_assign(base2k: usize, lsh: usize, x: &mut [i64], carry: &mut [i64])
    requires 1 <= base2k <= 62, lsh == 0, old(x).len() <= old(carry).len(), forall|i: int| 0 <= i < old(x).len() ==> -H() <= #[trigger] old(x)[i] <= H()
    ensures final(x).len() == old(x).len(), final(carry).len() == old(carry).len(),
      forall|i: int| 0 <= i < old(x).len() ==> #[trigger] final(x)[i] + final(carry)[i] * p2(base2k as nat) == old(x)[i] && balanced(base2k as nat, final(x)[i] as int) && -H() <= final(carry)[i] <= H(); }
pub trait ZnxNormalizeMiddleStepAssign { fn znx_normalize_middle_step_assign(base2k: usize, lsh: usize, x: &mut [i64], carry: &mut [i64])
    requires 1 <= base2k <= 62, lsh == 0, old(x).len() <= old(carry).len(), forall|i: int| 0 <= i < old(x).len() ==> -H() <= #[trigger] old(x)[i] <= H() && -H() <= old(carry)[i] <= H()
    ensures final(x).len() == old(x).len(), final(carry).len() == old(carry).len(),
      forall|i: int| 0 <= i < old(x).len() ==> #[trigger] final(x)[i] + final(carry)[i] * p2(base2k as nat) == old(x)[i] + old(carry)[i] && balanced(base2k as nat, final(x)[i] as int) && -H() <= final(carry)[i] <= H(); }
pub trait ZnxNormalizeFinalStepAssign { fn znx_normalize_final_step_assign(base2k: usize, lsh: usize, x: &mut [i64], carry: &mut [i64])
    requires 1 <= base2k <= 62, lsh == 0, old(x).len() <= old(carry).len(), forall|i: int| 0 <= i < old(x).len() ==> -H() <= #[trigger] old(x)[i] <= H() && -H() <= old(carry)[i] <= H()
    ensures final(x).len() == old(x).len(), final(carry).len() == old(carry).len(),
      forall|i: int| 0 <= i < old(x).len() ==> (old(x)[i] + old(carry)[i] - #[trigger] final(x)[i]) % p2(base2k as nat) == 0 && balanced(base2k as nat, final(x)[i] as int); }

// integer numerator of the torus value of limbs j..size of coefficient i:  sum_t L(t)[i] * 2^{b (size-1-t)}
pub open spec fn val(L: spec_fn(int) -> Seq<i64>, i: int, j: int, size: int, b: nat) -> int
    decreases size - j
{ if j >= size { 0 } else { L(j)[i] * p2((b * (size - 1 - j)) as nat) + val(L, i, j + 1, size, b) } }

pub proof fn lemma_val_ext(L1: spec_fn(int) -> Seq<i64>, L2: spec_fn(int) -> Seq<i64>, i: int, j: int, size: int, b: nat)
    requires forall|t: int| j <= t < size ==> #[trigger] L1(t)[i] == L2(t)[i]
    ensures val(L1, i, j, size, b) == val(L2, i, j, size, b)
    decreases size - j
{ if j < size { lemma_val_ext(L1, L2, i, j + 1, size, b); } }

pub proof fn lemma_scale_mod(k: int, m: int, w: int)
    requires m > 0, w > 0, k % m == 0
    ensures (k * w) % (m * w) == 0
{
    vstd::arithmetic::div_mod::lemma_fundamental_div_mod(k, m);
    let q = k / m;
    assert(k == m * q);
    assert(k * w == q * (m * w)) by (nonlinear_arith) requires k == m * q;
    assert(m * w > 0) by (nonlinear_arith) requires m > 0, w > 0;
    vstd::arithmetic::div_mod::lemma_mod_multiples_basic(q, m * w);
}

pub open spec fn col_fn(v: VecZnx<&mut [u8]>, col: int) -> spec_fn(int) -> Seq<i64> { |t: int| v.limb(col, t) }
pub open spec fn owner_fn<R: VecZnxToMut>(r: &R, col: int) -> spec_fn(int) -> Seq<i64> { |t: int| r.smut_limb(col, t) }
