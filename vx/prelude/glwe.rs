// ---------- prelude/glwe (R6, trusted interface I-GLWE): GLWE = VecZnx (rank+1 columns) + limb radix ----------
// poulpy-core/src/layouts/glwe.rs: `pub struct GLWE<D: Data> { pub(crate) data: VecZnx<D>, pub(crate) base2k: Base2K }`.
// The accessors below are the real one-line bodies (`&self.data`, `Degree(self.data.n() as u32)`, `Rank(self.data.cols() as u32 - 1)`);
// the casts and the `- 1` are obligations (requires), `data_mut` is the field borrow.
pub struct GLWE<D> { pub data: VecZnx<D>, pub base2k: Base2K }
impl<D> GLWE<D> {
    pub fn data(&self) -> (r: &VecZnx<D>) ensures *r == self.data { &self.data }
    #[verifier::external_body]
    pub fn data_mut(&mut self) -> (r: &mut VecZnx<D>)
        ensures *r == old(self).data, final(self).data == *final(r), final(self).base2k == old(self).base2k
    { &mut self.data }
    pub fn base2k(&self) -> (r: Base2K) ensures r == self.base2k { self.base2k }
    pub fn n(&self) -> (r: Degree) requires self.data.n <= u32::MAX ensures r.0 == self.data.n { Degree(self.data.n() as u32) }
    pub fn size(&self) -> (r: usize) ensures r == self.data.size { self.data.size() }
    pub fn rank(&self) -> (r: Rank) requires 1 <= self.data.cols <= u32::MAX ensures r.0 == self.data.cols - 1 { Rank(self.data.cols() as u32 - 1) }
}
pub open spec fn glwe_ok<D: I64View>(g: GLWE<D>) -> bool { g.data.wf() && 1 <= g.data.cols <= u32::MAX && g.data.n <= u32::MAX }

pub trait GLWEToRef {
    spec fn gref(&self) -> GLWE<&[u8]>;
    fn to_ref(&self) -> (r: GLWE<&[u8]>) ensures r == self.gref();
}
// owner of a mutable GLWE: what a `to_mut()` view shows, and write-through of the limbs when the view's borrow ends.
// The view holds `base2k` BY VALUE: assigning it on the view does not reach the owner.
pub trait GLWEToMut: GLWEToRef {
    spec fn gm_n(&self) -> usize; spec fn gm_cols(&self) -> usize; spec fn gm_size(&self) -> usize; spec fn gm_wf(&self) -> bool;
    spec fn gm_base2k(&self) -> Base2K;
    spec fn gm_limb(&self, i: int, j: int) -> Seq<i64>;
    fn to_mut(&mut self) -> (r: GLWE<&mut [u8]>)
      ensures r.data.n == old(self).gm_n(), r.data.cols == old(self).gm_cols(), r.data.size == old(self).gm_size(), r.data.wf() == old(self).gm_wf(),
        r.base2k == old(self).gm_base2k(),
        forall|i: int, j: int| #[trigger] r.data.limb(i, j) == old(self).gm_limb(i, j),
        final(self).gm_n() == old(self).gm_n(), final(self).gm_cols() == old(self).gm_cols(), final(self).gm_size() == old(self).gm_size(),
        final(self).gm_wf() == old(self).gm_wf(), final(self).gm_base2k() == old(self).gm_base2k(),
        forall|i: int, j: int| #[trigger] final(self).gm_limb(i, j) == limb_of(v64(final(r.data.data)@), r.data.n as int, r.data.cols as int, i, j);
}
pub open spec fn gowner_limbs<R: GLWEToMut>(r: &R) -> spec_fn(int, int) -> Seq<i64> { |i: int, j: int| r.gm_limb(i, j) }
