// ---------- prelude/io_stream (R6): std::io Read / Write with the byteorder extension methods, restated over an ABSTRACT byte stream; the MatZnx payload ----------
pub struct IoError {}
pub enum IoKind { InvalidData }
pub type IoResult<T> = core::result::Result<T, IoError>;
#[verifier::external_body] pub fn io_error_new(kind: IoKind, msg: String) -> (r: IoError) { IoError {} }
pub struct LittleEndian {}
pub uninterp spec fn le32(s: Seq<u8>, pos: int) -> u32;
pub uninterp spec fn le64(s: Seq<u8>, pos: int) -> u64;
// a reader over the abstract stream `s`
pub struct Rd { pub s: Ghost<Seq<u8>>, pub pos: Ghost<int> }
impl Rd {
    #[verifier::external_body] pub fn read_u32<E>(&mut self) -> (r: IoResult<u32>)
        ensures final(self).s@ == old(self).s@, r.is_ok() ==> r->Ok_0 == le32(old(self).s@, old(self).pos@) && final(self).pos@ == old(self).pos@ + 4 && old(self).pos@ + 4 <= old(self).s@.len() { unimplemented!() }
    #[verifier::external_body] pub fn read_u64<E>(&mut self) -> (r: IoResult<u64>)
        ensures final(self).s@ == old(self).s@, r.is_ok() ==> r->Ok_0 == le64(old(self).s@, old(self).pos@) && final(self).pos@ == old(self).pos@ + 8 && old(self).pos@ + 8 <= old(self).s@.len() { unimplemented!() }
    #[verifier::external_body] pub fn read_exact(&mut self, buf: &mut [u8; 32]) -> (r: IoResult<()>)
        ensures final(self).s@ == old(self).s@, r.is_ok() ==> final(buf)@ == old(self).s@.subrange(old(self).pos@, old(self).pos@ + 32) && final(self).pos@ == old(self).pos@ + 32 && old(self).pos@ + 32 <= old(self).s@.len() { unimplemented!() }
}
pub struct Wr { pub out: Ghost<Seq<u8>> }
pub uninterp spec fn enc32(v: u32) -> Seq<u8>;
pub uninterp spec fn enc64(v: u64) -> Seq<u8>;
// decoding what was encoded (byteorder round trip of one little-endian word)
#[verifier::external_body] pub proof fn ax_le32(pre: Seq<u8>, v: u32, post: Seq<u8>) ensures le32(pre + enc32(v) + post, pre.len() as int) == v, enc32(v).len() == 4 { }
impl Wr {
    #[verifier::external_body] pub fn write_u32<E>(&mut self, v: u32) -> (r: IoResult<()>) ensures r.is_ok() ==> final(self).out@ == old(self).out@ + enc32(v) { unimplemented!() }
    #[verifier::external_body] pub fn write_all(&mut self, b: &[u8; 32]) -> (r: IoResult<()>) ensures r.is_ok() ==> final(self).out@ == old(self).out@ + b@ { unimplemented!() }
    #[verifier::external_body] pub fn write_u64<E>(&mut self, v: u64) -> (r: IoResult<()>) ensures r.is_ok() ==> final(self).out@ == old(self).out@ + enc64(v) { unimplemented!() }
    #[verifier::external_body] pub fn write_bytes(&mut self, b: &[u8]) -> (r: IoResult<()>) ensures r.is_ok() ==> final(self).out@ == old(self).out@ + b@ { unimplemented!() }
}
pub struct MatZnx<D> { pub d: D, pub shape: Ghost<int>, pub content: Ghost<Seq<u8>> }
pub uninterp spec fn mat_len(s: Seq<u8>, pos: int) -> int;
impl<D> MatZnx<D> {
    // payload: on success the stream position advances past it; on failure the receiver's shape is untouched (Kani c18_mat_znx_read_header)
    #[verifier::external_body] pub fn read_from(&mut self, reader: &mut Rd) -> (r: IoResult<()>)
        ensures final(reader).s@ == old(reader).s@, r.is_err() ==> final(self).shape == old(self).shape,
            r.is_ok() ==> final(reader).pos@ == old(reader).pos@ + mat_len(old(reader).s@, old(reader).pos@) && final(self).content@ == old(reader).s@.subrange(old(reader).pos@, final(reader).pos@) { unimplemented!() }
    #[verifier::external_body] pub fn write_to(&self, writer: &mut Wr) -> (r: IoResult<()>) ensures r.is_ok() ==> final(writer).out@ == old(writer).out@ + self.content@ { unimplemented!() }
}
