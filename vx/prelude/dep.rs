// ---------- prelude/dep: which inputs a limb may depend on (the abstract domain of the core-layer units) ----------
// The core layer never looks inside a limb: it only routes limbs through HAL operations.  Each limb therefore carries, as ghost state, the set
// of SOURCES it may depend on: input limbs (object id, column, limb) or the token GARBAGE (bytes the buffer held before: scratch memory that was
// taken but not yet written, stale output limbs).  HAL contracts say how the sets flow; the properties are then statements about these sets:
// C11/C12 "no GARBAGE reaches the output", C01/C03 "every limb of the operand reaches the output".
pub struct Src { pub obj: int, pub col: int, pub limb: int }
pub open spec fn GARBAGE() -> Src { Src { obj: -1, col: 0, limb: 0 } }
pub open spec fn clean(d: ISet<Src>) -> bool { !d.contains(GARBAGE()) }
// dependency set of a coefficient-domain limb: an uninterpreted attribute of its contents (VecZnx limbs are real i64 data in the prelude)
pub uninterp spec fn depl(L: Seq<i64>) -> ISet<Src>;
// union of the dependency sets f(0), .., f(n-1)
pub open spec fn dunion(f: spec_fn(int) -> ISet<Src>, n: int) -> ISet<Src> { ISet::new(|s: Src| exists|l: int| 0 <= l < n && #[trigger] f(l).contains(s)) }
