// ---------- prelude/hal_scratch: Backend marker, scratch arena reduced to its available-byte ledger, ModuleN ----------
pub trait Backend {}
pub struct Scratch<BE> { pub avail: usize, pub _p: core::marker::PhantomData<BE> }
impl<BE> Scratch<BE> { pub fn available(&self) -> (r: usize) ensures r == self.avail { self.avail } }
pub trait ModuleN { spec fn sn(&self) -> usize; fn n(&self) -> (r: usize) ensures r == self.sn(); }
pub trait ScratchTakeCore<BE: Backend> {}
pub trait ScratchAvailable {}
impl<BE: Backend> ScratchTakeCore<BE> for Scratch<BE> {}
impl<BE: Backend> ScratchAvailable for Scratch<BE> {}
