// ---------- prelude/vec_znx_big (R6): FFT64 big accumulator = same i64 layout as VecZnx, tagged with the backend ----------
pub trait Backend { type ScalarBig; type ScalarPrep; }
pub struct VecZnxBig<D, BE> { pub data: D, pub n: usize, pub cols: usize, pub size: usize, pub max_size: usize, pub _phantom: core::marker::PhantomData<BE> }
impl<D: I64View, BE> VecZnxBig<D, BE> {
    pub open spec fn wf(&self) -> bool {
        self.n * self.cols * self.size <= self.data.view64().len() && self.size <= self.max_size
        && self.n * self.cols * self.max_size <= self.data.view64().len()
    }
    pub open spec fn limb(&self, i: int, j: int) -> Seq<i64> { limb_of(self.data.view64(), self.n as int, self.cols as int, i, j) }
    pub open spec fn as_vec(&self) -> VecZnx<D> { VecZnx { data: self.data, n: self.n, cols: self.cols, size: self.size, max_size: self.max_size } }
}
pub trait VecZnxBigToRef<BE> {
    spec fn bref(&self) -> VecZnxBig<&[u8], BE>;
    fn to_ref(&self) -> (r: VecZnxBig<&[u8], BE>) ensures r == self.bref();
}
pub trait VecZnxBigToMut<BE> {
    spec fn bmut_n(&self) -> usize; spec fn bmut_cols(&self) -> usize; spec fn bmut_size(&self) -> usize; spec fn bmut_wf(&self) -> bool;
    spec fn bmut_limb(&self, i: int, j: int) -> Seq<i64>;
    fn to_mut(&mut self) -> (r: VecZnxBig<&mut [u8], BE>)
      ensures r.n == old(self).bmut_n(), r.cols == old(self).bmut_cols(), r.size == old(self).bmut_size(), r.wf() == old(self).bmut_wf(),
        forall|i: int, j: int| #[trigger] r.limb(i, j) == old(self).bmut_limb(i, j),
        final(self).bmut_n() == old(self).bmut_n(), final(self).bmut_cols() == old(self).bmut_cols(), final(self).bmut_size() == old(self).bmut_size(),
        final(self).bmut_wf() == old(self).bmut_wf(),
        forall|i: int, j: int| #[trigger] final(self).bmut_limb(i, j) == limb_of(v64(final(r.data)@), r.n as int, r.cols as int, i, j);
}
pub open spec fn big_owner_limbs<BE, R: VecZnxBigToMut<BE>>(r: &R) -> spec_fn(int, int) -> Seq<i64> { |i: int, j: int| r.bmut_limb(i, j) }
