// ---------- prelude/vec_znx_dft_ntt120 (R6): NTT120 VecZnxDft over an abstract u64 view (4 CRT residues per coefficient) ----------
// Trusted interface: `limb_u64 / limb_u64_mut` (bytemuck casts of `at / at_mut`) return the 4n-element block of limb (col, j).
pub trait Backend { type ScalarBig; type ScalarPrep; }
pub struct Q120bScalar(pub [u64; 4]);
pub struct VecZnxDft<D, BE> { pub data: D, pub n: usize, pub cols: usize, pub size: usize, pub max_size: usize, pub _phantom: core::marker::PhantomData<BE> }
pub uninterp spec fn vf(b: Seq<u8>) -> Seq<u64>;
pub trait F64View { spec fn viewf(&self) -> Seq<u64>; }
impl<'a> F64View for &'a [u8] { open spec fn viewf(&self) -> Seq<u64> { vf(self@) } }
impl<'a> F64View for &'a mut [u8] { open spec fn viewf(&self) -> Seq<u64> { vf(self@) } }
pub open spec fn flimb_of(d: Seq<u64>, n: int, cols: int, i: int, j: int) -> Seq<u64> { d.subrange(4 * n * (j * cols + i), 4 * n * (j * cols + i) + 4 * n) }
impl<D: F64View, BE> VecZnxDft<D, BE> {
    pub open spec fn wf(&self) -> bool {
        4 * self.n * self.cols * self.size <= self.data.viewf().len() && self.size <= self.max_size
        && 4 * self.n * self.cols * self.max_size <= self.data.viewf().len() && self.n <= 0x1000_0000
    }
    pub open spec fn limb(&self, i: int, j: int) -> Seq<u64> { flimb_of(self.data.viewf(), self.n as int, self.cols as int, i, j) }
}
impl<D, BE> VecZnxDft<D, BE> {
    pub fn n(&self) -> (r: usize) ensures r == self.n { self.n }
    pub fn size(&self) -> (r: usize) ensures r == self.size { self.size }
    pub fn cols(&self) -> (r: usize) ensures r == self.cols { self.cols }
    pub fn max_size(&self) -> (r: usize) ensures r == self.max_size { self.max_size }
}
#[verifier::external_body]
pub fn limb_u64<'a, 'b, BE>(v: &'a VecZnxDft<&'b [u8], BE>, col: usize, limb: usize) -> (r: &'a [u64])
    requires v.wf(), col < v.cols, limb < v.size
    ensures r@ == v.limb(col as int, limb as int), r@.len() == 4 * v.n
{ unimplemented!() }
#[verifier::external_body]
pub fn limb_u64_mut<'a, 'b, BE>(v: &'a mut VecZnxDft<&'b mut [u8], BE>, col: usize, limb: usize) -> (r: &'a mut [u64])
    requires old(v).wf(), col < old(v).cols, limb < old(v).size
    ensures r@ == old(v).limb(col as int, limb as int), r@.len() == 4 * old(v).n, final(r)@.len() == 4 * old(v).n,
        final(v).n == old(v).n, final(v).cols == old(v).cols, final(v).size == old(v).size, final(v).max_size == old(v).max_size,
        final(v).wf(), final(v).data.viewf().len() == old(v).data.viewf().len(),
        final(v).limb(col as int, limb as int) == final(r)@, final(final(v).data)@ == final(old(v).data)@,
        forall|i2: int, j2: int| 0 <= i2 < old(v).cols && 0 <= j2 && (i2 != col || j2 != limb) ==> #[trigger] final(v).limb(i2, j2) == old(v).limb(i2, j2),
{ unimplemented!() }
pub trait VecZnxDftToRef<BE> {
    spec fn dref(&self) -> VecZnxDft<&[u8], BE>;
    fn to_ref(&self) -> (r: VecZnxDft<&[u8], BE>) ensures r == self.dref();
}
pub trait VecZnxDftToMut<BE> {
    spec fn dmut_n(&self) -> usize; spec fn dmut_cols(&self) -> usize; spec fn dmut_size(&self) -> usize; spec fn dmut_wf(&self) -> bool;
    spec fn dmut_limb(&self, i: int, j: int) -> Seq<u64>;
    fn to_mut(&mut self) -> (r: VecZnxDft<&mut [u8], BE>)
      ensures r.n == old(self).dmut_n(), r.cols == old(self).dmut_cols(), r.size == old(self).dmut_size(), r.wf() == old(self).dmut_wf(),
        forall|i: int, j: int| #[trigger] r.limb(i, j) == old(self).dmut_limb(i, j),
        final(self).dmut_n() == old(self).dmut_n(), final(self).dmut_cols() == old(self).dmut_cols(), final(self).dmut_size() == old(self).dmut_size(),
        final(self).dmut_wf() == old(self).dmut_wf(),
        forall|i: int, j: int| #[trigger] final(self).dmut_limb(i, j) == flimb_of(vf(final(r.data)@), r.n as int, r.cols as int, i, j);
}
pub open spec fn dft_owner_limbs<BE, R: VecZnxDftToMut<BE>>(r: &R) -> spec_fn(int, int) -> Seq<u64> { |i: int, j: int| r.dmut_limb(i, j) }
pub open spec fn fframe_ok(new: spec_fn(int, int) -> Seq<u64>, old: spec_fn(int, int) -> Seq<u64>, cols: int, col: int, size: int) -> bool {
    forall|i2: int, j2: int| 0 <= i2 < cols && 0 <= j2 && (i2 != col || j2 >= size) ==> #[trigger] new(i2, j2) == old(i2, j2)
}

// ---------- abstract kernel contracts (Ntt* traits): block-level q120b operations left uninterpreted ----------
pub uninterp spec fn q_add(a: Seq<u64>, b: Seq<u64>) -> Seq<u64>;
pub uninterp spec fn q_sub(a: Seq<u64>, b: Seq<u64>) -> Seq<u64>;
pub uninterp spec fn q_neg(a: Seq<u64>) -> Seq<u64>;
pub uninterp spec fn q_zero(len: int) -> Seq<u64>;
pub uninterp spec fn q_from_znx(a: Seq<i64>) -> Seq<u64>;
pub open spec fn is_fadd(r: Seq<u64>, a: Seq<u64>, b: Seq<u64>) -> bool { r.len() == a.len() && r == q_add(a, b) }
pub open spec fn is_fsub(r: Seq<u64>, a: Seq<u64>, b: Seq<u64>) -> bool { r.len() == a.len() && r == q_sub(a, b) }
pub open spec fn is_fneg(r: Seq<u64>, a: Seq<u64>) -> bool { r.len() == a.len() && r == q_neg(a) }
pub open spec fn is_fzero(r: Seq<u64>, n: int) -> bool { r.len() == 4 * n && r == q_zero(4 * n) }
pub open spec fn is_from_znx(r: Seq<u64>, a: Seq<i64>) -> bool { r.len() == 4 * a.len() && r == q_from_znx(a) }
pub trait NttFromZnx64 { fn ntt_from_znx64(res: &mut [u64], a: &[i64]) requires old(res).len() == 4 * a.len() ensures is_from_znx(final(res)@, a@); }
pub trait NttAdd { fn ntt_add(res: &mut [u64], a: &[u64], b: &[u64]) requires old(res).len() == a.len(), a.len() == b.len() ensures is_fadd(final(res)@, a@, b@); }
pub trait NttAddAssign { fn ntt_add_assign(res: &mut [u64], a: &[u64]) requires old(res).len() == a.len() ensures is_fadd(final(res)@, old(res)@, a@); }
pub trait NttSub { fn ntt_sub(res: &mut [u64], a: &[u64], b: &[u64]) requires old(res).len() == a.len(), a.len() == b.len() ensures is_fsub(final(res)@, a@, b@); }
pub trait NttSubAssign { fn ntt_sub_assign(res: &mut [u64], a: &[u64]) requires old(res).len() == a.len() ensures is_fsub(final(res)@, old(res)@, a@); }
pub trait NttSubNegateAssign { fn ntt_sub_negate_assign(res: &mut [u64], a: &[u64]) requires old(res).len() == a.len() ensures is_fsub(final(res)@, a@, old(res)@); }
pub trait NttNegate { fn ntt_negate(res: &mut [u64], a: &[u64]) requires old(res).len() == a.len() ensures is_fneg(final(res)@, a@); }
pub trait NttNegateAssign { fn ntt_negate_assign(res: &mut [u64]) ensures is_fneg(final(res)@, old(res)@); }
pub trait NttCopy { fn ntt_copy(res: &mut [u64], a: &[u64]) requires old(res).len() == a.len() ensures final(res)@ == a@; }
pub trait NttZero { fn ntt_zero(res: &mut [u64]) ensures final(res).len() == old(res).len(), final(res)@ == q_zero(old(res).len() as int); }
pub struct Primes30;
pub struct NttTable<P> { pub n: usize, pub _p: core::marker::PhantomData<P> }
pub trait NttDFTExecute<Table> { spec fn exec_spec(table: &Table, x: Seq<u64>) -> Seq<u64>;
    fn ntt_dft_execute(table: &Table, data: &mut [u64]) ensures final(data)@ == Self::exec_spec(table, old(data)@), final(data).len() == old(data).len(); }
pub trait NttModuleHandle { spec fn table_spec(&self) -> &NttTable<Primes30>; fn get_ntt_table(&self) -> (r: &NttTable<Primes30>) ensures r == self.table_spec(); }
