// ---------- prelude/dft_api (R5): transform-domain HAL traits with dependency-flow contracts ----------
// ASSUMED contracts (listed in evidence): for vec_znx_dft_{copy,add_assign,apply,zero} they are the dependency abstraction of the limb-selection
// contracts proved in units vec_znx_dft / vec_znx_dft_ntt120 (limb j of res = kernel(limb offset + j*step of a), zero past the source, frame);
// for vmp / svp / idft / big-normalise they restate the documented size rules of poulpy-hal/src/api (every limb of every column of `res` is written).
pub trait VecZnxDftBytesOf { spec fn s_bytes_of_dft(&self, cols: int, size: int) -> int; fn bytes_of_vec_znx_dft(&self, cols: usize, size: usize) -> (r: usize) ensures r == self.s_bytes_of_dft(cols as int, size as int); }
pub trait VecZnxDftCopy<BE: Backend> {
    fn vec_znx_dft_copy<D: DataMut, A: VecZnxDftToRef<BE>>(&self, step: usize, offset: usize, res: &mut VecZnxDft<D, BE>, res_col: usize, a: &A, a_col: usize)
        requires res_col < old(res).cols, a_col < a.dref().cols, old(res).n == a.dref().n, step >= 1,
        ensures final(res).n == old(res).n, final(res).cols == old(res).cols, final(res).size == old(res).size, final(res).max_size == old(res).max_size, final(res).rad == a.dref().rad,
            forall|j: int| 0 <= j < old(res).size ==> #[trigger] final(res).dep(res_col as int, j) == (if offset + j * step < a.dref().size { a.dref().dep(a_col as int, offset + j * step) } else { ISet::<Src>::empty() }),
            forall|i: int, j: int| (i != res_col || j < 0 || j >= old(res).size) ==> #[trigger] final(res).dep(i, j) == old(res).dep(i, j);
}
pub trait VecZnxDftAddAssign<BE: Backend> {
    fn vec_znx_dft_add_assign<D: DataMut, A: VecZnxDftToRef<BE>>(&self, res: &mut VecZnxDft<D, BE>, res_col: usize, a: &A, a_col: usize)
        requires res_col < old(res).cols, a_col < a.dref().cols, old(res).n == a.dref().n,
        ensures final(res).n == old(res).n, final(res).cols == old(res).cols, final(res).size == old(res).size, final(res).max_size == old(res).max_size, final(res).rad == old(res).rad,
            forall|j: int| 0 <= j < old(res).size ==> #[trigger] final(res).dep(res_col as int, j) == (if j < a.dref().size { old(res).dep(res_col as int, j).union(a.dref().dep(a_col as int, j)) } else { old(res).dep(res_col as int, j) }),
            forall|i: int, j: int| (i != res_col || j < 0 || j >= old(res).size) ==> #[trigger] final(res).dep(i, j) == old(res).dep(i, j);
}
// union of the dependency sets of the operand limbs a vector-matrix product reads: rows r < row_max of every input column
pub open spec fn vmp_in<BE>(a: VecZnxDft<&[u8], BE>, row_max: int) -> ISet<Src> {
    ISet::new(|s: Src| exists|c: int, r: int| 0 <= c < a.cols && 0 <= r < row_max && #[trigger] a.dep(c, r).contains(s))
}
pub trait VmpApplyDftToDftTmpBytes {
    spec fn s_vmp_tmp(&self, res_size: int, a_size: int, rows: int, cols_in: int, cols_out: int, size: int) -> int;
    fn vmp_apply_dft_to_dft_tmp_bytes(&self, res_size: usize, a_size: usize, b_rows: usize, b_cols_in: usize, b_cols_out: usize, b_size: usize) -> (r: usize)
        ensures r == self.s_vmp_tmp(res_size as int, a_size as int, b_rows as int, b_cols_in as int, b_cols_out as int, b_size as int);
}
pub trait VmpApplyDftToDft<BE: Backend>: VmpApplyDftToDftTmpBytes {
    // res[col][j] = sum over rows r < min(a.size, pmat.rows) and input columns c of a[c][r] * pmat[r][c][col][j + limb_offset]; zero when j + limb_offset >= pmat.size
    fn vmp_apply_dft_to_dft<D: DataMut, A: VecZnxDftToRef<BE>, DP>(&self, res: &mut VecZnxDft<D, BE>, a: &A, pmat: &VmpPMat<DP, BE>, limb_offset: usize, scratch: &mut Scratch<BE>)
        requires old(res).n == pmat.n, a.dref().n == pmat.n, old(res).cols == pmat.cols_out, a.dref().cols == pmat.cols_in,
            old(scratch).avail >= self.s_vmp_tmp(old(res).size as int, a.dref().size as int, pmat.rows as int, pmat.cols_in as int, pmat.cols_out as int, pmat.size as int),
        ensures final(res).n == old(res).n, final(res).cols == old(res).cols, final(res).size == old(res).size, final(res).max_size == old(res).max_size, final(res).rad == a.dref().rad,
            final(scratch).avail == old(scratch).avail,
            forall|i: int, j: int| 0 <= i < old(res).cols && 0 <= j < old(res).size ==> #[trigger] final(res).dep(i, j) ==
                (if j + limb_offset < pmat.size { vmp_in(a.dref(), smin(a.dref().size as int, pmat.rows as int)).union(pmat.dep@) } else { ISet::<Src>::empty() }),
            forall|i: int, j: int| (i < 0 || i >= old(res).cols || j < 0 || j >= old(res).size) ==> #[trigger] final(res).dep(i, j) == old(res).dep(i, j);
}
// ---- scratch arena (C12 ledger): a take of `bytes` bytes from an arena with `avail` aligned bytes left; sizes are multiples of the 64-byte alignment for N >= 8 (assumption A-ALIGN) ----
impl<BE: Backend> Scratch<BE> {
    #[verifier::external_body]
    pub fn take_vec_znx_dft<M: VecZnxDftBytesOf + ModuleN>(&mut self, module: &M, cols: usize, size: usize) -> (r: (VecZnxDft<&mut [u8], BE>, &mut Scratch<BE>))
        requires old(self).avail >= module.s_bytes_of_dft(cols as int, size as int),     // otherwise the arena panics ("Attempted to take ...")
        ensures r.0.n == module.sn(), r.0.cols == cols, r.0.size == size, r.0.max_size == size,
            r.1.avail == old(self).avail - module.s_bytes_of_dft(cols as int, size as int),
            final(self).avail == old(self).avail,
            // taken memory holds whatever it held before
            forall|i: int, j: int| #[trigger] r.0.dep(i, j) == ISet::<Src>::empty().insert(GARBAGE()),
    { unimplemented!() }
}
