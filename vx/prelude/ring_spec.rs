// Leaf bit facts, discharged by Kani on the same expressions for every power of two m <= 2^29 and every p / x
// (cross-engine obligation chain, DESIGN.md §2.4): kx:poulpy-cpu-ref:c09_mask_mod_i64, c09_mask_mod_usize.
#[verifier::external_body]
pub proof fn kx_mask_mod_i64(p: i64, m: i64)
    requires is_pow2_i(m as int), m <= 0x2000_0000
    ensures 0 <= (p & ((m - 1) as i64)) < m, (p & ((m - 1) as i64)) as int == (p as int) % (m as int) {}
#[verifier::external_body]
pub proof fn kx_mask_mod_usize(x: usize, m: usize)
    requires is_pow2_i(m as int), m <= 0x2000_0000
    ensures (x & ((m - 1) as usize)) as int == (x as int) % (m as int) {}

pub proof fn lemma_pow2_double(m: int) requires is_pow2_i(m), m <= 0x1000_0000 ensures is_pow2_i(2 * m)
{
    let k = choose|k: nat| k < 64 && m == vstd::arithmetic::power2::pow2(k) as int;
    assert(vstd::arithmetic::power2::pow2(28) == 0x1000_0000) by { vstd::arithmetic::power2::lemma2_to64(); }
    if k > 28 { vstd::arithmetic::power2::lemma_pow2_strictly_increases(28, k); }
    vstd::arithmetic::power2::lemma_pow2_unfold(k + 1);
    assert(2 * m == vstd::arithmetic::power2::pow2(k + 1) as int);
}

// n = 2^e divides d*p with p odd  ==>  n divides d
pub proof fn lemma_odd_cancel(e: nat, d: int, p: int)
    requires p % 2 == 1, (d * p) % (pow2(e) as int) == 0
    ensures d % (pow2(e) as int) == 0
    decreases e
{
    lemma_pow2_pos(e);
    if e == 0 {
        assert(pow2(0) == 1) by { lemma2_to64(); }
        lemma_mod_bound(d, 1);
    } else {
        let n = pow2(e) as int; let h = pow2((e - 1) as nat) as int;
        lemma_pow2_pos((e - 1) as nat);
        assert(n == 2 * h) by { lemma_pow2_unfold(e); }
        lemma_fundamental_div_mod(d * p, n);
        let q = (d * p) / n;
        assert(d * p == n * q);
        lemma_fundamental_div_mod(d, 2); lemma_mod_bound(d, 2);
        lemma_fundamental_div_mod(p, 2);
        let dh = d / 2; let dr = d % 2; let ph = p / 2;
        assert(d == 2 * dh + dr); assert(p == 2 * ph + 1);
        assert(dr == 0) by (nonlinear_arith)
            requires d == 2 * dh + dr, p == 2 * ph + 1, 0 <= dr < 2, d * p == n * q, n == 2 * h
        {
            assert(d * p == 2 * (2 * dh * ph + dh + dr * ph) + dr);
            assert(d * p == 2 * (h * q));
        }
        assert(dh * p == h * q) by (nonlinear_arith) requires d == 2 * dh, d * p == n * q, n == 2 * h;
        assert((dh * p) % h == 0) by { lemma_mod_multiples_basic(q, h); assert(h * q == q * h) by (nonlinear_arith); }
        lemma_odd_cancel((e - 1) as nat, dh, p);
        lemma_fundamental_div_mod(dh, h);
        let t = dh / h;
        assert(dh == h * t);
        assert(d == n * t) by (nonlinear_arith) requires d == 2 * dh, dh == h * t, n == 2 * h;
        lemma_mod_multiples_basic(t, n); assert(n * t == t * n) by (nonlinear_arith);
    }
}

// injectivity of i -> (i*p mod 2n) mod n on [0,n) for odd p, n = 2^e
pub proof fn lemma_aut_inj(e: nat, p: int, i: int, i2: int)
    requires p % 2 == 1, 0 <= i2 < i < pow2(e) as int,
    ensures ((i * p) % (2 * (pow2(e) as int))) % (pow2(e) as int) != ((i2 * p) % (2 * (pow2(e) as int))) % (pow2(e) as int)
{
    let n = pow2(e) as int;
    lemma_pow2_pos(e);
    lemma_mod_mod(i * p, n, 2); lemma_mod_mod(i2 * p, n, 2);
    assert(n * 2 == 2 * n);
    if (i * p) % n == (i2 * p) % n {
        lemma_mod_equivalence(i * p, i2 * p, n);
        assert((i * p - i2 * p) % n == 0);
        assert(i * p - i2 * p == (i - i2) * p) by (nonlinear_arith);
        lemma_odd_cancel(e, i - i2, p);
        lemma_small_mod((i - i2) as nat, n as nat);
        assert(false);
    }
}
