// ---------- prelude/znx_traits (R5): contracts of the single-polynomial kernel traits ----------
// Each contract is discharged against the backend implementors (impl ... for FFT64Ref / NTT120Ref / ZnxRef,
// extracted from the real source in unit `znx_kernels`) whose bodies call the extracted `znx_*_ref` functions.
pub trait ZnxAdd { fn znx_add(res: &mut [i64], a: &[i64], b: &[i64])
    requires old(res).len() == a.len(), a.len() == b.len(), forall|k: int| 0 <= k < a.len() ==> i64::MIN <= #[trigger] a[k] + b[k] <= i64::MAX
    ensures final(res).len() == a.len(), forall|k: int| 0 <= k < a.len() ==> #[trigger] final(res)[k] == a[k] + b[k]; }
pub trait ZnxAddAssign { fn znx_add_assign(res: &mut [i64], a: &[i64])
    requires old(res).len() == a.len(), forall|k: int| 0 <= k < a.len() ==> i64::MIN <= #[trigger] old(res)[k] + a[k] <= i64::MAX
    ensures final(res).len() == a.len(), forall|k: int| 0 <= k < a.len() ==> #[trigger] final(res)[k] == old(res)[k] + a[k]; }
pub trait ZnxSub { fn znx_sub(res: &mut [i64], a: &[i64], b: &[i64])
    requires old(res).len() == a.len(), a.len() == b.len(), forall|k: int| 0 <= k < a.len() ==> i64::MIN <= #[trigger] a[k] - b[k] <= i64::MAX
    ensures final(res).len() == a.len(), forall|k: int| 0 <= k < a.len() ==> #[trigger] final(res)[k] == a[k] - b[k]; }
pub trait ZnxSubAssign { fn znx_sub_assign(res: &mut [i64], a: &[i64])
    requires old(res).len() == a.len(), forall|k: int| 0 <= k < a.len() ==> i64::MIN <= #[trigger] old(res)[k] - a[k] <= i64::MAX
    ensures final(res).len() == a.len(), forall|k: int| 0 <= k < a.len() ==> #[trigger] final(res)[k] == old(res)[k] - a[k]; }
pub trait ZnxSubNegateAssign { fn znx_sub_negate_assign(res: &mut [i64], a: &[i64])
    requires old(res).len() == a.len(), forall|k: int| 0 <= k < a.len() ==> i64::MIN <= #[trigger] a[k] - old(res)[k] <= i64::MAX
    ensures final(res).len() == a.len(), forall|k: int| 0 <= k < a.len() ==> #[trigger] final(res)[k] == a[k] - old(res)[k]; }
pub trait ZnxNegate { fn znx_negate(res: &mut [i64], src: &[i64])
    requires old(res).len() == src.len(), forall|k: int| 0 <= k < src.len() ==> #[trigger] src[k] > i64::MIN
    ensures final(res).len() == src.len(), forall|k: int| 0 <= k < src.len() ==> #[trigger] final(res)[k] == -src[k]; }
pub trait ZnxNegateAssign { fn znx_negate_assign(res: &mut [i64])
    requires forall|k: int| 0 <= k < old(res).len() ==> #[trigger] old(res)[k] > i64::MIN
    ensures final(res).len() == old(res).len(), forall|k: int| 0 <= k < old(res).len() ==> #[trigger] final(res)[k] == -old(res)[k]; }
pub trait ZnxCopy { fn znx_copy(res: &mut [i64], a: &[i64]) requires old(res).len() == a.len() ensures final(res)@ == a@; }
pub trait ZnxZero { fn znx_zero(res: &mut [i64]) ensures final(res).len() == old(res).len(), forall|k: int| 0 <= k < final(res).len() ==> #[trigger] final(res)[k] == 0; }
pub trait ZnxRotate { fn znx_rotate(p: i64, res: &mut [i64], src: &[i64])
    requires old(res).len() == src.len(), is_pow2_i(src.len() as int), src.len() <= 0x1000_0000, forall|i: int| 0 <= i < src.len() ==> #[trigger] src[i] > i64::MIN,
    ensures final(res).len() == src.len(), forall|j: int| 0 <= j < src.len() ==> #[trigger] final(res)[j] as int == rot_coeff(src@, p as int, j); }
pub trait ZnxAutomorphism { fn znx_automorphism(p: i64, res: &mut [i64], a: &[i64])
    requires old(res).len() == a.len(), is_pow2_i(a.len() as int), a.len() <= 0x1000_0000, (p as int) % 2 == 1, forall|i: int| 0 <= i < a.len() ==> #[trigger] a[i] > i64::MIN,
    ensures final(res).len() == a.len(), forall|i: int| 0 <= i < a.len() ==> #[trigger] aut_ok(final(res)@, a@, p as int, i); }
pub trait ZnxSwitchRing { fn znx_switch_ring(res: &mut [i64], a: &[i64])
    requires a.len() >= 1, old(res).len() >= 1, a.len() <= 0x4000_0000, old(res).len() <= 0x4000_0000, is_pow2_i(a.len() as int),
        (a.len() >= old(res).len() && a.len() % old(res).len() == 0) || (old(res).len() > a.len() && old(res).len() % a.len() == 0),
    ensures final(res).len() == old(res).len(), forall|i: int| 0 <= i < old(res).len() ==> #[trigger] final(res)[i] == switch_spec(a@, old(res).len() as int, i); }
