// ---------- prelude/col_contracts: the contracts of the coefficient-domain column operations ----------
// One text per operation ($CONTRACT_* bundles): units vec_znx_arith / vec_znx_ring DISCHARGE it against the real reference function,
// prelude/hal_api.rs ASSUMES the same text for the HAL trait method the core layer calls (same parameter names).
// ---- size rules (C09 "extra result limbs zero, extra operand limbs ignored") for limb j of the selected column ----
// ---- size rules (C09 "extra result limbs zero, extra operand limbs ignored") for limb j of the selected column ----
pub open spec fn add_into_ok(L: Seq<i64>, a: VecZnx<&[u8]>, a_col: int, b: VecZnx<&[u8]>, b_col: int, j: int, n: int) -> bool {
    if j < a.size && j < b.size { is_add(L, a.limb(a_col, j), b.limb(b_col, j)) }
    else if j < a.size { L == a.limb(a_col, j) }
    else if j < b.size { L == b.limb(b_col, j) }
    else { is_zero(L, n) }
}
pub open spec fn sub_ok(L: Seq<i64>, a: VecZnx<&[u8]>, a_col: int, b: VecZnx<&[u8]>, b_col: int, j: int, n: int) -> bool {
    if j < a.size && j < b.size { is_sub(L, a.limb(a_col, j), b.limb(b_col, j)) }
    else if j < a.size { L == a.limb(a_col, j) }
    else if j < b.size { is_neg(L, b.limb(b_col, j)) }
    else { is_zero(L, n) }
}
pub open spec fn add_assign_ok(L: Seq<i64>, O: Seq<i64>, a: VecZnx<&[u8]>, a_col: int, j: int) -> bool {
    if j < a.size { is_add(L, O, a.limb(a_col, j)) } else { L == O }
}
pub open spec fn sub_assign_ok(L: Seq<i64>, O: Seq<i64>, a: VecZnx<&[u8]>, a_col: int, j: int) -> bool {
    if j < a.size { is_sub(L, O, a.limb(a_col, j)) } else { L == O }
}
pub open spec fn sub_negate_assign_ok(L: Seq<i64>, O: Seq<i64>, a: VecZnx<&[u8]>, a_col: int, j: int) -> bool {
    if j < a.size { is_sub(L, a.limb(a_col, j), O) } else { is_neg(L, O) }
}
pub open spec fn negate_ok(L: Seq<i64>, a: VecZnx<&[u8]>, a_col: int, j: int, n: int) -> bool {
    if j < a.size { is_neg(L, a.limb(a_col, j)) } else { is_zero(L, n) }
}
pub open spec fn copy_ok(L: Seq<i64>, a: VecZnx<&[u8]>, a_col: int, j: int, n: int) -> bool {
    if j < a.size { L == a.limb(a_col, j) } else { is_zero(L, n) }
}
pub open spec fn is_rot(L: Seq<i64>, A: Seq<i64>, p: int) -> bool { L.len() == A.len() && forall|k: int| 0 <= k < A.len() ==> #[trigger] L[k] as int == rot_coeff(A, p, k) }
pub open spec fn is_aut(L: Seq<i64>, A: Seq<i64>, p: int) -> bool { L.len() == A.len() && forall|k: int| 0 <= k < A.len() ==> #[trigger] aut_ok(L, A, p, k) }
pub open spec fn is_rot_minus(L: Seq<i64>, A: Seq<i64>, p: int) -> bool { L.len() == A.len() && forall|k: int| 0 <= k < A.len() ==> #[trigger] L[k] as int == rot_coeff(A, p, k) - A[k] }
pub open spec fn rot_minus_fits(A: Seq<i64>, p: int) -> bool { forall|k: int| 0 <= k < A.len() ==> i64::MIN <= #[trigger] rot_coeff(A, p, k) - A[k] <= i64::MAX }
pub open spec fn rotate_ok(L: Seq<i64>, a: VecZnx<&[u8]>, a_col: int, j: int, n: int, p: int) -> bool {
    if j < a.size { is_rot(L, a.limb(a_col, j), p) } else { is_zero(L, n) }
}
pub open spec fn aut_limb_ok(L: Seq<i64>, a: VecZnx<&[u8]>, a_col: int, j: int, n: int, p: int) -> bool {
    if j < a.size { is_aut(L, a.limb(a_col, j), p) } else { is_zero(L, n) }
}
pub open spec fn mul_xp_ok(L: Seq<i64>, a: VecZnx<&[u8]>, a_col: int, j: int, n: int, p: int) -> bool {
    if j < a.size { is_rot_minus(L, a.limb(a_col, j), p) } else { is_zero(L, n) }
}
pub open spec fn add_scalar_ok(L: Seq<i64>, s: Seq<i64>, b: VecZnx<&[u8]>, b_col: int, b_limb: int, j: int, n: int) -> bool {
    if j < b.size { if j == b_limb { is_add(L, s, b.limb(b_col, j)) } else { L == b.limb(b_col, j) } } else { is_zero(L, n) }
}
pub open spec fn sub_scalar_ok(L: Seq<i64>, s: Seq<i64>, b: VecZnx<&[u8]>, b_col: int, b_limb: int, j: int, n: int) -> bool {
    if j < b.size { if j == b_limb { is_sub(L, b.limb(b_col, j), s) } else { L == b.limb(b_col, j) } } else { is_zero(L, n) }
}
pub open spec fn ring_n(n: usize) -> bool { is_pow2_i(n as int) && n <= 0x1000_0000 }

//@def ENS_SHAPE
        final(res).smut_size() == old(res).smut_size(), final(res).smut_n() == old(res).smut_n(), final(res).smut_cols() == old(res).smut_cols(),
        final(res).smut_wf(), final(res).smut_fut() == old(res).smut_fut(),
        frame_ok(owner_limbs(final(res)), owner_limbs(old(res)), old(res).smut_cols() as int, res_col as int, old(res).smut_size() as int)
//@enddef
//@def CONTRACT_ADD_INTO
    requires
        old(res).smut_wf(), a.sref().wf(), b.sref().wf(),
        a.sref().n == old(res).smut_n(), b.sref().n == old(res).smut_n(),
        res_col < old(res).smut_cols(), a_col < a.sref().cols, b_col < b.sref().cols,
        forall|jj: int| 0 <= jj < a.sref().size && jj < b.sref().size && jj < old(res).smut_size() ==>
            add_fits(#[trigger] a.sref().limb(a_col as int, jj), b.sref().limb(b_col as int, jj)),
    ensures
        // every limb of the selected column is a function of the inputs only (C11), by the documented size rule (C09)
        forall|jj: int| 0 <= jj < old(res).smut_size() ==>
            add_into_ok(#[trigger] final(res).smut_limb(res_col as int, jj), a.sref(), a_col as int, b.sref(), b_col as int, jj, old(res).smut_n() as int),
        $ENS_SHAPE
//@enddef
//@def CONTRACT_SUB
    requires
        old(res).smut_wf(), a.sref().wf(), b.sref().wf(),
        a.sref().n == old(res).smut_n(), b.sref().n == old(res).smut_n(),
        res_col < old(res).smut_cols(), a_col < a.sref().cols, b_col < b.sref().cols,
        forall|jj: int| 0 <= jj < a.sref().size && jj < b.sref().size && jj < old(res).smut_size() ==>
            sub_fits(#[trigger] a.sref().limb(a_col as int, jj), b.sref().limb(b_col as int, jj)),
        forall|jj: int| 0 <= jj < b.sref().size && jj >= a.sref().size && jj < old(res).smut_size() ==> no_min(#[trigger] b.sref().limb(b_col as int, jj)),
    ensures
        // every limb of the selected column is a function of the inputs only (C11), by the documented size rule (C09)
        forall|jj: int| 0 <= jj < old(res).smut_size() ==>
            sub_ok(#[trigger] final(res).smut_limb(res_col as int, jj), a.sref(), a_col as int, b.sref(), b_col as int, jj, old(res).smut_n() as int),
        $ENS_SHAPE
//@enddef
//@def CONTRACT_ADD_ASSIGN
    requires
        old(res).smut_wf(), a.sref().wf(), a.sref().n == old(res).smut_n(),
        res_col < old(res).smut_cols(), a_col < a.sref().cols,
        forall|jj: int| 0 <= jj < a.sref().size && jj < old(res).smut_size() ==> add_fits(#[trigger] owner_limbs(old(res))(res_col as int, jj), a.sref().limb(a_col as int, jj)),
    ensures
        forall|jj: int| 0 <= jj < old(res).smut_size() ==>
            add_assign_ok(#[trigger] final(res).smut_limb(res_col as int, jj), owner_limbs(old(res))(res_col as int, jj), a.sref(), a_col as int, jj),
        $ENS_SHAPE
//@enddef
//@def CONTRACT_SUB_ASSIGN
    requires
        old(res).smut_wf(), a.sref().wf(), a.sref().n == old(res).smut_n(),
        res_col < old(res).smut_cols(), a_col < a.sref().cols,
        forall|jj: int| 0 <= jj < a.sref().size && jj < old(res).smut_size() ==> sub_fits(#[trigger] owner_limbs(old(res))(res_col as int, jj), a.sref().limb(a_col as int, jj)),
    ensures
        forall|jj: int| 0 <= jj < old(res).smut_size() ==>
            sub_assign_ok(#[trigger] final(res).smut_limb(res_col as int, jj), owner_limbs(old(res))(res_col as int, jj), a.sref(), a_col as int, jj),
        $ENS_SHAPE
//@enddef
//@def CONTRACT_SUB_NEGATE_ASSIGN
    requires
        old(res).smut_wf(), a.sref().wf(), a.sref().n == old(res).smut_n(),
        res_col < old(res).smut_cols(), a_col < a.sref().cols,
        forall|jj: int| 0 <= jj < a.sref().size && jj < old(res).smut_size() ==> sub_fits(a.sref().limb(a_col as int, jj), #[trigger] owner_limbs(old(res))(res_col as int, jj)),
        forall|jj: int| a.sref().size <= jj < old(res).smut_size() ==> no_min(#[trigger] owner_limbs(old(res))(res_col as int, jj)),
    ensures
        forall|jj: int| 0 <= jj < old(res).smut_size() ==>
            sub_negate_assign_ok(#[trigger] final(res).smut_limb(res_col as int, jj), owner_limbs(old(res))(res_col as int, jj), a.sref(), a_col as int, jj),
        $ENS_SHAPE
//@enddef
//@def CONTRACT_NEGATE
    requires
        old(res).smut_wf(), a.sref().wf(), a.sref().n == old(res).smut_n(), 
        res_col < old(res).smut_cols(), a_col < a.sref().cols,
        forall|jj: int| 0 <= jj < a.sref().size && jj < old(res).smut_size() ==> no_min(#[trigger] a.sref().limb(a_col as int, jj)),
    ensures
        forall|jj: int| 0 <= jj < old(res).smut_size() ==> negate_ok(#[trigger] final(res).smut_limb(res_col as int, jj), a.sref(), a_col as int, jj, old(res).smut_n() as int),
        $ENS_SHAPE
//@enddef
//@def CONTRACT_COPY
    requires
        old(res).smut_wf(), a.sref().wf(), a.sref().n == old(res).smut_n(), 
        res_col < old(res).smut_cols(), a_col < a.sref().cols,
    ensures
        forall|jj: int| 0 <= jj < old(res).smut_size() ==> copy_ok(#[trigger] final(res).smut_limb(res_col as int, jj), a.sref(), a_col as int, jj, old(res).smut_n() as int),
        $ENS_SHAPE
//@enddef
//@def CONTRACT_ROTATE
    requires
        old(res).smut_wf(), a.sref().wf(), a.sref().n == old(res).smut_n(), ring_n(old(res).smut_n()),
        res_col < old(res).smut_cols(), a_col < a.sref().cols,
        forall|jj: int| 0 <= jj < a.sref().size && jj < old(res).smut_size() ==> no_min(#[trigger] a.sref().limb(a_col as int, jj)),
    ensures
        forall|jj: int| 0 <= jj < old(res).smut_size() ==> rotate_ok(#[trigger] final(res).smut_limb(res_col as int, jj), a.sref(), a_col as int, jj, old(res).smut_n() as int, p as int),
        $ENS_SHAPE
//@enddef
//@def CONTRACT_AUTOMORPHISM
    requires
        old(res).smut_wf(), a.sref().wf(), a.sref().n == old(res).smut_n(), ring_n(old(res).smut_n()), (p as int) % 2 == 1,
        res_col < old(res).smut_cols(), a_col < a.sref().cols,
        forall|jj: int| 0 <= jj < a.sref().size && jj < old(res).smut_size() ==> no_min(#[trigger] a.sref().limb(a_col as int, jj)),
    ensures
        forall|jj: int| 0 <= jj < old(res).smut_size() ==> aut_limb_ok(#[trigger] final(res).smut_limb(res_col as int, jj), a.sref(), a_col as int, jj, old(res).smut_n() as int, p as int),
        $ENS_SHAPE
//@enddef
//@def CONTRACT_ZERO
    requires old(res).smut_wf(), res_col < old(res).smut_cols(),
    ensures
        forall|jj: int| 0 <= jj < old(res).smut_size() ==> is_zero(#[trigger] final(res).smut_limb(res_col as int, jj), old(res).smut_n() as int),
        $ENS_SHAPE
//@enddef
//@def CONTRACT_NEGATE_ASSIGN
    requires old(res).smut_wf(), res_col < old(res).smut_cols(),
        forall|jj: int| 0 <= jj < old(res).smut_size() ==> no_min(#[trigger] owner_limbs(old(res))(res_col as int, jj)),
    ensures
        forall|jj: int| 0 <= jj < old(res).smut_size() ==> is_neg(#[trigger] final(res).smut_limb(res_col as int, jj), owner_limbs(old(res))(res_col as int, jj)),
        $ENS_SHAPE
//@enddef
//@def CONTRACT_ROTATE_ASSIGN
    requires old(res).smut_wf(), res_col < old(res).smut_cols(), ring_n(old(res).smut_n()), 
        old(tmp).len() == old(res).smut_n(),     // C12: the scratch slice handed over is exactly *_tmp_bytes(n)/8 long
        forall|jj: int| 0 <= jj < old(res).smut_size() ==> no_min(#[trigger] owner_limbs(old(res))(res_col as int, jj)),
    ensures
        forall|jj: int| 0 <= jj < old(res).smut_size() ==> is_rot(#[trigger] final(res).smut_limb(res_col as int, jj), owner_limbs(old(res))(res_col as int, jj), p as int),
        $ENS_SHAPE
//@enddef
//@def CONTRACT_AUTOMORPHISM_ASSIGN
    requires old(res).smut_wf(), res_col < old(res).smut_cols(), ring_n(old(res).smut_n()), (p as int) % 2 == 1,
        old(tmp).len() == old(res).smut_n(),     // C12: the scratch slice handed over is exactly *_tmp_bytes(n)/8 long
        forall|jj: int| 0 <= jj < old(res).smut_size() ==> no_min(#[trigger] owner_limbs(old(res))(res_col as int, jj)),
    ensures
        forall|jj: int| 0 <= jj < old(res).smut_size() ==> is_aut(#[trigger] final(res).smut_limb(res_col as int, jj), owner_limbs(old(res))(res_col as int, jj), p as int),
        $ENS_SHAPE
//@enddef
//@def CONTRACT_MUL_XP_MINUS_ONE_ASSIGN
    requires old(res).smut_wf(), res_col < old(res).smut_cols(), ring_n(old(res).smut_n()), 
        old(tmp).len() == old(res).smut_n(),     // C12: the scratch slice handed over is exactly *_tmp_bytes(n)/8 long
        forall|jj: int| 0 <= jj < old(res).smut_size() ==> no_min(#[trigger] owner_limbs(old(res))(res_col as int, jj)) && rot_minus_fits(owner_limbs(old(res))(res_col as int, jj), p as int),
    ensures
        forall|jj: int| 0 <= jj < old(res).smut_size() ==> is_rot_minus(#[trigger] final(res).smut_limb(res_col as int, jj), owner_limbs(old(res))(res_col as int, jj), p as int),
        $ENS_SHAPE
//@enddef
//@def CONTRACT_MUL_XP_MINUS_ONE
    requires
        old(res).smut_wf(), a.sref().wf(), a.sref().n == old(res).smut_n(), ring_n(old(res).smut_n()),
        res_col < old(res).smut_cols(), a_col < a.sref().cols,
        forall|jj: int| 0 <= jj < a.sref().size && jj < old(res).smut_size() ==> no_min(#[trigger] a.sref().limb(a_col as int, jj)) && rot_minus_fits(a.sref().limb(a_col as int, jj), p as int),
    ensures
        forall|jj: int| 0 <= jj < old(res).smut_size() ==> mul_xp_ok(#[trigger] final(res).smut_limb(res_col as int, jj), a.sref(), a_col as int, jj, old(res).smut_n() as int, p as int),
        $ENS_SHAPE
//@enddef
//@def CONTRACT_ADD_SCALAR_INTO
    requires
        old(res).smut_wf(), a.sref().wf(), b.sref().wf(), a.sref().n == old(res).smut_n(), b.sref().n == old(res).smut_n(),
        res_col < old(res).smut_cols(), a_col < a.sref().cols, b_col < b.sref().cols,
        b_limb < b.sref().size, b_limb < old(res).smut_size(),
        add_fits(a.sref().poly(a_col as int), b.sref().limb(b_col as int, b_limb as int)),
    ensures
        forall|jj: int| 0 <= jj < old(res).smut_size() ==>
            add_scalar_ok(#[trigger] final(res).smut_limb(res_col as int, jj), a.sref().poly(a_col as int), b.sref(), b_col as int, b_limb as int, jj, old(res).smut_n() as int),
        $ENS_SHAPE
//@enddef
//@def CONTRACT_SUB_SCALAR
    requires
        old(res).smut_wf(), a.sref().wf(), b.sref().wf(), a.sref().n == old(res).smut_n(), b.sref().n == old(res).smut_n(),
        res_col < old(res).smut_cols(), a_col < a.sref().cols, b_col < b.sref().cols,
        b_limb < b.sref().size, b_limb < old(res).smut_size(),
        sub_fits(b.sref().limb(b_col as int, b_limb as int), a.sref().poly(a_col as int)),
    ensures
        forall|jj: int| 0 <= jj < old(res).smut_size() ==>
            sub_scalar_ok(#[trigger] final(res).smut_limb(res_col as int, jj), a.sref().poly(a_col as int), b.sref(), b_col as int, b_limb as int, jj, old(res).smut_n() as int),
        $ENS_SHAPE
//@enddef
//@def CONTRACT_ADD_SCALAR_ASSIGN
    requires
        old(res).smut_wf(), a.sref().wf(), a.sref().n == old(res).smut_n(),
        res_col < old(res).smut_cols(), a_col < a.sref().cols, res_limb < old(res).smut_size(),
        add_fits(owner_limbs(old(res))(res_col as int, res_limb as int), a.sref().poly(a_col as int)),
    ensures
        is_add(final(res).smut_limb(res_col as int, res_limb as int), owner_limbs(old(res))(res_col as int, res_limb as int), a.sref().poly(a_col as int)),
        // only that one limb changes
        forall|i2: int, j2: int| 0 <= i2 < old(res).smut_cols() && 0 <= j2 && (i2 != res_col || j2 != res_limb) ==> #[trigger] final(res).smut_limb(i2, j2) == owner_limbs(old(res))(i2, j2),
        final(res).smut_size() == old(res).smut_size(), final(res).smut_n() == old(res).smut_n(), final(res).smut_cols() == old(res).smut_cols(), final(res).smut_wf(), final(res).smut_fut() == old(res).smut_fut(),
//@enddef
//@def CONTRACT_SUB_SCALAR_ASSIGN
    requires
        old(res).smut_wf(), a.sref().wf(), a.sref().n == old(res).smut_n(),
        res_col < old(res).smut_cols(), a_col < a.sref().cols, res_limb < old(res).smut_size(),
        sub_fits(owner_limbs(old(res))(res_col as int, res_limb as int), a.sref().poly(a_col as int)),
    ensures
        is_sub(final(res).smut_limb(res_col as int, res_limb as int), owner_limbs(old(res))(res_col as int, res_limb as int), a.sref().poly(a_col as int)),
        // only that one limb changes
        forall|i2: int, j2: int| 0 <= i2 < old(res).smut_cols() && 0 <= j2 && (i2 != res_col || j2 != res_limb) ==> #[trigger] final(res).smut_limb(i2, j2) == owner_limbs(old(res))(i2, j2),
        final(res).smut_size() == old(res).smut_size(), final(res).smut_n() == old(res).smut_n(), final(res).smut_cols() == old(res).smut_cols(), final(res).smut_wf(), final(res).smut_fut() == old(res).smut_fut(),
//@enddef
//@def CONTRACT_SWITCH_RING
    requires
        old(res).smut_wf(), a.sref().wf(), res_col < old(res).smut_cols(), a_col < a.sref().cols,
        switch_shapes(a.sref().n, old(res).smut_n()),
    ensures
        forall|jj: int| 0 <= jj < old(res).smut_size() ==> switch_limb_ok(#[trigger] final(res).smut_limb(res_col as int, jj), a.sref(), a_col as int, jj, old(res).smut_n() as int),
        $ENS_SHAPE
//@enddef
