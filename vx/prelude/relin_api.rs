// ---------- prelude/relin_api: tensor / prepared-key containers and the HAL / core operations shared by units core_relin and core_ggsw_expand (ledger + radix) ----------
pub struct GLWETensor<D> { pub data: VecZnx<D>, pub base2k: Base2K, pub rank: Rank }
pub open spec fn tensor_ok<D>(g: GLWETensor<D>, pairs: int) -> bool { g.rank.0 < 0x100 && g.data.cols == g.rank.0 + 1 + pairs && g.data.n <= 0x1000_0000 && g.data.size <= 0x1000 && 1 <= g.base2k.0 <= 62 && g.data.rad@ == g.base2k.0 }
impl<D> GLWETensor<D> {
    pub fn data(&self) -> (r: &VecZnx<D>) ensures *r == self.data { &self.data }
    pub fn base2k(&self) -> (r: Base2K) ensures r == self.base2k { self.base2k }
    pub fn size(&self) -> (r: usize) ensures r == self.data.size { self.data.size }
    pub fn rank(&self) -> (r: Rank) ensures r == self.rank { self.rank }
}
impl<D> GLWEInfos for GLWETensor<D> { open spec fn s_n(&self) -> u32 { self.data.n as u32 } open spec fn s_base2k(&self) -> Base2K { self.base2k } open spec fn s_size(&self) -> usize { self.data.size } open spec fn s_rank(&self) -> u32 { self.rank.0 }
    #[verifier::external_body] fn n(&self) -> (r: Degree) { unimplemented!() } fn base2k(&self) -> (r: Base2K) { self.base2k } fn size(&self) -> (r: usize) { self.data.size } fn rank(&self) -> (r: Rank) { self.rank } }
pub struct GGLWEPrepared<D, BE> { pub data: D, pub n: usize, pub size: usize, pub rank_in: u32, pub rank_out: u32, pub base2k: Base2K, pub dsize: u32, pub dnum: u32, pub _p: core::marker::PhantomData<BE> }
pub struct GLWETensorKeyPrepared<D, BE>(pub GGLWEPrepared<D, BE>);
pub trait GGLWEInfos: GLWEInfos { spec fn s_rank_in(&self) -> u32; spec fn s_rank_out(&self) -> u32; spec fn s_dsize(&self) -> u32; spec fn s_dnum(&self) -> u32;
    fn rank_in(&self) -> (r: Rank) ensures r.0 == self.s_rank_in(); fn rank_out(&self) -> (r: Rank) ensures r.0 == self.s_rank_out(); }
impl<D, BE> GLWEInfos for GLWETensorKeyPrepared<D, BE> { open spec fn s_n(&self) -> u32 { self.0.n as u32 } open spec fn s_base2k(&self) -> Base2K { self.0.base2k } open spec fn s_size(&self) -> usize { self.0.size } open spec fn s_rank(&self) -> u32 { self.0.rank_out }
    #[verifier::external_body] fn n(&self) -> (r: Degree) { unimplemented!() } fn base2k(&self) -> (r: Base2K) { self.0.base2k } fn size(&self) -> (r: usize) { self.0.size } fn rank(&self) -> (r: Rank) { Rank(self.0.rank_out) } }
impl<D, BE> GGLWEInfos for GLWETensorKeyPrepared<D, BE> { open spec fn s_rank_in(&self) -> u32 { self.0.rank_in } open spec fn s_rank_out(&self) -> u32 { self.0.rank_out } open spec fn s_dsize(&self) -> u32 { self.0.dsize } open spec fn s_dnum(&self) -> u32 { self.0.dnum }
    fn rank_in(&self) -> (r: Rank) { Rank(self.0.rank_in) } fn rank_out(&self) -> (r: Rank) { Rank(self.0.rank_out) } }
impl<D> VecZnx<D> { pub open spec fn bytes(n: int, cols: int, size: int) -> int { n * cols * size * 8 } }
impl VecZnx<Vec<u8>> { #[verifier::external_body] pub fn bytes_of(n: usize, cols: usize, size: usize) -> (r: usize) requires n * cols * size * 8 <= usize::MAX ensures r == n * cols * size * 8 { unimplemented!() } }
pub trait VecZnxNormalizeTmpBytes { spec fn s_norm_tmp(&self) -> int; fn vec_znx_normalize_tmp_bytes(&self) -> (r: usize) ensures r == self.s_norm_tmp(); }
pub trait VecZnxNormalize<BE: Backend>: VecZnxNormalizeTmpBytes {
    fn vec_znx_normalize<D, DA>(&self, res: &mut VecZnx<D>, res_base2k: usize, res_offset: i64, res_col: usize, a: &VecZnx<DA>, a_base2k: usize, a_col: usize, scratch: &mut Scratch<BE>)
        requires res_col < old(res).cols, a_col < a.cols, old(res).n == a.n, 1 <= res_base2k <= 62, 1 <= a_base2k <= 62, old(scratch).avail >= self.s_norm_tmp(), a.rad@ == a_base2k,
        ensures final(scratch).avail == old(scratch).avail, final(res).n == old(res).n, final(res).cols == old(res).cols, final(res).size == old(res).size, final(res).rad@ == res_base2k;
}
pub trait VecZnxDftApply<BE: Backend> {
    fn vec_znx_dft_apply<D, DA>(&self, step: usize, offset: usize, res: &mut VecZnxDft<D, BE>, res_col: usize, a: &VecZnx<DA>, a_col: usize)
        requires res_col < old(res).cols, a_col < a.cols, old(res).n == a.n, step >= 1,
        ensures final(res).n == old(res).n, final(res).cols == old(res).cols, final(res).size == old(res).size, final(res).rad == a.rad;
}
pub trait VecZnxBigAddSmallAssign<BE: Backend> {
    fn vec_znx_big_add_small_assign<D, DA>(&self, res: &mut VecZnxBig<D, BE>, res_col: usize, a: &VecZnx<DA>, a_col: usize)
        requires res_col < old(res).cols, a_col < a.cols, old(res).n == a.n,
            a.rad == old(res).rad,     // limb-wise addition: same radix
        ensures final(res).n == old(res).n, final(res).cols == old(res).cols, final(res).size == old(res).size, final(res).rad == old(res).rad;
}
pub trait GGLWEProduct<BE: Backend>: ModuleN + VecZnxDftBytesOf {
    spec fn s_product_tmp(&self, res_size: int, a_size: int, dsize: int, dnum: int, rank_in: int, rank_out: int, ksize: int) -> int;
    fn gglwe_product_dft_tmp_bytes<K: GGLWEInfos>(&self, res_size: usize, a_size: usize, key_infos: &K) -> (r: usize)
        ensures r == self.s_product_tmp(res_size as int, a_size as int, key_infos.s_dsize() as int, key_infos.s_dnum() as int, key_infos.s_rank_in() as int, key_infos.s_rank_out() as int, key_infos.s_size() as int);
    // (unit core_keyswitch proves this contract's scratch / cleanliness side for the real body; A-VMP-RES: the query does not depend on res_size)
    fn gglwe_product_dft<D, DA, DK>(&self, res: &mut VecZnxDft<D, BE>, a: &VecZnxDft<DA, BE>, key: &GGLWEPrepared<DK, BE>, scratch: &mut Scratch<BE>)
        requires old(res).n == key.n, a.n == key.n, old(res).cols == key.rank_out + 1, a.cols == key.rank_in, old(res).size == key.size,
            a.rad@ == key.base2k.0,     // the operand's digits are decomposed in the key's radix
            old(scratch).avail >= self.s_product_tmp(old(res).size as int, a.size as int, key.dsize as int, key.dnum as int, key.rank_in as int, key.rank_out as int, key.size as int),
        ensures final(scratch).avail == old(scratch).avail, final(res).n == old(res).n, final(res).cols == old(res).cols, final(res).size == old(res).size, final(res).rad == a.rad;
}
impl<'a, BE> VecZnxDft<&'a mut [u8], BE> { #[verifier::external_body] pub fn zero(&mut self) ensures final(self).n == old(self).n, final(self).cols == old(self).cols, final(self).size == old(self).size, final(self).rad == old(self).rad { unimplemented!() } }
impl<BE: Backend> Scratch<BE> {
    #[verifier::external_body]
    pub fn take_vec_znx(&mut self, n: usize, cols: usize, size: usize) -> (r: (VecZnx<&mut [u8]>, &mut Scratch<BE>))
        requires old(self).avail >= n * cols * size * 8
        ensures r.0.n == n, r.0.cols == cols, r.0.size == size, r.1.avail == old(self).avail - n * cols * size * 8, final(self).avail == old(self).avail { unimplemented!() }
}
