// ---------- prelude/ring_spec: Z[X]/(X^n+1) on coefficient sequences ----------

// coefficient j of X^p * a in Z[X]/(X^n+1), n = a.len()
pub open spec fn rot_coeff(a: Seq<i64>, p: int, j: int) -> int {
    let n = a.len() as int;
    let k = (j - p) % (2 * n);
    if k < n { a[k] as int } else { -(a[k - n] as int) }
}
// X^i -> X^{i*p}: where coefficient i of `a` lands in res, and with which sign
pub open spec fn aut_ok(res: Seq<i64>, a: Seq<i64>, p: int, i: int) -> bool {
    let n = a.len() as int; let k = (i * p) % (2 * n);
    if k < n { res[k] == a[i] } else { res[k - n] as int == -(a[i] as int) }
}
// ring-degree switch: fold (keep every (n_in/n_out)-th coefficient) or embed X -> X^(n_out/n_in)
pub open spec fn switch_spec(a: Seq<i64>, n_out: int, i: int) -> i64 {
    let n_in = a.len() as int;
    if n_in == n_out { a[i] }
    else if n_in > n_out { a[i * (n_in / n_out)] }
    else { if i % (n_out / n_in) == 0 { a[i / (n_out / n_in)] } else { 0 } }
}

