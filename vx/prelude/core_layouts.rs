// ---------- prelude/core_layouts (R6): prepared key material of poulpy-core/src/layouts/prepared, reduced to shape + dependency ----------
pub struct GGLWEPrepared<D, BE> { pub data: VmpPMat<D, BE>, pub base2k: Base2K, pub dsize: Dsize }
pub trait LWEInfos { spec fn s_n(&self) -> u32; spec fn s_base2k(&self) -> Base2K; spec fn s_size(&self) -> usize;
    // default method of the real trait: TorusPrecision(self.size() as u32 * self.base2k().as_u32())
    #[verifier::external_body] fn max_k(&self) -> (r: TorusPrecision) ensures r.0 == ((self.s_size() * self.s_base2k().0) as u32) { unimplemented!() }
    fn n(&self) -> (r: Degree) ensures r.0 == self.s_n(); fn base2k(&self) -> (r: Base2K) ensures r == self.s_base2k(); fn size(&self) -> (r: usize) ensures r == self.s_size(); }
pub open spec fn max_k_of<A: LWEInfos + ?Sized>(a: &A) -> u32 { (a.s_size() * a.s_base2k().0) as u32 }
pub trait GLWEInfos: LWEInfos { spec fn s_rank(&self) -> u32; fn rank(&self) -> (r: Rank) ensures r.0 == self.s_rank(); }
pub trait GGLWEInfos: GLWEInfos {
    spec fn s_rank_in(&self) -> u32; spec fn s_rank_out(&self) -> u32; spec fn s_dsize(&self) -> u32; spec fn s_dnum(&self) -> u32;
    fn rank_in(&self) -> (r: Rank) ensures r.0 == self.s_rank_in();
    fn rank_out(&self) -> (r: Rank) ensures r.0 == self.s_rank_out();
    fn dsize(&self) -> (r: Dsize) ensures r.0 == self.s_dsize();
    fn dnum(&self) -> (r: Dnum) ensures r.0 == self.s_dnum();
}
pub open spec fn pmat_ok<D, BE>(k: GGLWEPrepared<D, BE>) -> bool { k.data.n <= u32::MAX && k.data.cols_in <= u32::MAX && 1 <= k.data.cols_out <= u32::MAX && k.data.rows <= u32::MAX }
// real bodies: `Degree(self.data.n() as u32)`, `self.base2k`, `self.data.size()`, `Rank(self.data.cols_in() as u32)`, `Rank(self.data.cols_out() as u32 - 1)`, `self.dsize`, `Dnum(self.data.rows() as u32)`
// (the casts and the `- 1` hold under pmat_ok, the layout invariant of a prepared key)
impl<D, BE> LWEInfos for GGLWEPrepared<D, BE> {
    open spec fn s_n(&self) -> u32 { self.data.n as u32 } open spec fn s_base2k(&self) -> Base2K { self.base2k } open spec fn s_size(&self) -> usize { self.data.size }
    #[verifier::external_body] fn n(&self) -> (r: Degree) { Degree(self.data.n() as u32) }
    fn base2k(&self) -> (r: Base2K) { self.base2k }
    fn size(&self) -> (r: usize) { self.data.size() }
}
impl<D, BE> GLWEInfos for GGLWEPrepared<D, BE> { open spec fn s_rank(&self) -> u32 { (self.data.cols_out - 1) as u32 } #[verifier::external_body] fn rank(&self) -> (r: Rank) { unimplemented!() } }
impl<D, BE> GGLWEInfos for GGLWEPrepared<D, BE> {
    open spec fn s_rank_in(&self) -> u32 { self.data.cols_in as u32 } open spec fn s_rank_out(&self) -> u32 { (self.data.cols_out - 1) as u32 }
    open spec fn s_dsize(&self) -> u32 { self.dsize.0 } open spec fn s_dnum(&self) -> u32 { self.data.rows as u32 }
    #[verifier::external_body] fn rank_in(&self) -> (r: Rank) { unimplemented!() }
    #[verifier::external_body] fn rank_out(&self) -> (r: Rank) { unimplemented!() }
    fn dsize(&self) -> (r: Dsize) { self.dsize }
    #[verifier::external_body] fn dnum(&self) -> (r: Dnum) { unimplemented!() }
}
pub trait GGLWEPreparedToRef<BE> {
    spec fn kref(&self) -> GGLWEPrepared<&[u8], BE>;
    fn to_ref(&self) -> (r: GGLWEPrepared<&[u8], BE>) ensures r == self.kref();
}
impl<D: DataRef, BE> GGLWEPreparedToRef<BE> for GGLWEPrepared<D, BE> {
    open spec fn kref(&self) -> GGLWEPrepared<&[u8], BE> {
        GGLWEPrepared { data: VmpPMat { data: bref(self.data.data), n: self.data.n, rows: self.data.rows, cols_in: self.data.cols_in, cols_out: self.data.cols_out, size: self.data.size, dep: self.data.dep, _phantom: core::marker::PhantomData }, base2k: self.base2k, dsize: self.dsize }
    }
    #[verifier::external_body] fn to_ref(&self) -> (r: GGLWEPrepared<&[u8], BE>) { unimplemented!() }
}
