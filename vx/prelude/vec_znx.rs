// ---------- prelude/vec_znx (R6): VecZnx over an abstract i64 view of its byte buffer ----------
// Trusted interface I-LAYOUT: `at/at_mut` return the n-element block at i64-offset n*(j*cols+i) and write
// through to the underlying buffer; backed by Kani harnesses on the real unsafe accessors (C17, kx/hal/layout.rs).
pub struct VecZnx<D> { pub data: D, pub n: usize, pub cols: usize, pub size: usize, pub max_size: usize }

pub uninterp spec fn v64(b: Seq<u8>) -> Seq<i64>;
pub trait I64View { spec fn view64(&self) -> Seq<i64>; }
impl<'a> I64View for &'a [u8] { open spec fn view64(&self) -> Seq<i64> { v64(self@) } }
impl<'a> I64View for &'a mut [u8] { open spec fn view64(&self) -> Seq<i64> { v64(self@) } }
pub open spec fn limb_of(d: Seq<i64>, n: int, cols: int, i: int, j: int) -> Seq<i64> { d.subrange(n * (j * cols + i), n * (j * cols + i) + n) }

impl<D: I64View> VecZnx<D> {
    pub open spec fn wf(&self) -> bool {
        self.n * self.cols * self.size <= self.data.view64().len() && self.size <= self.max_size
        && self.n * self.cols * self.max_size <= self.data.view64().len()
    }
    pub open spec fn limb(&self, i: int, j: int) -> Seq<i64> {
        limb_of(self.data.view64(), self.n as int, self.cols as int, i, j)
    }
}
impl<D> VecZnx<D> {
    pub fn n(&self) -> (r: usize) ensures r == self.n { self.n }
    pub fn size(&self) -> (r: usize) ensures r == self.size { self.size }
    pub fn cols(&self) -> (r: usize) ensures r == self.cols { self.cols }
    pub fn max_size(&self) -> (r: usize) ensures r == self.max_size { self.max_size }
}
impl<'a> VecZnx<&'a [u8]> {
    #[verifier::external_body]
    pub fn at(&self, i: usize, j: usize) -> (r: &[i64])
        requires self.wf(), i < self.cols, j < self.size
        ensures r@ == self.limb(i as int, j as int), r@.len() == self.n
    { unimplemented!() }
}
impl<'a> VecZnx<&'a mut [u8]> {
    #[verifier::external_body]
    pub fn at(&self, i: usize, j: usize) -> (r: &[i64])
        requires self.wf(), i < self.cols, j < self.size
        ensures r@ == self.limb(i as int, j as int), r@.len() == self.n
    { unimplemented!() }
    #[verifier::external_body]
    pub fn at_mut(&mut self, i: usize, j: usize) -> (r: &mut [i64])
        requires old(self).wf(), i < old(self).cols, j < old(self).size
        ensures r@ == old(self).limb(i as int, j as int), r@.len() == old(self).n, final(r)@.len() == old(self).n,
            final(self).n == old(self).n, final(self).cols == old(self).cols, final(self).size == old(self).size, final(self).max_size == old(self).max_size,
            final(self).wf(), final(self).data.view64().len() == old(self).data.view64().len(),
            final(self).limb(i as int, j as int) == final(r)@, final(final(self).data)@ == final(old(self).data)@,
            forall|i2: int, j2: int| 0 <= i2 < old(self).cols && 0 <= j2 && (i2 != i || j2 != j) ==> #[trigger] final(self).limb(i2, j2) == old(self).limb(i2, j2),
    { unimplemented!() }
}
pub trait VecZnxToRef {
    spec fn sref(&self) -> VecZnx<&[u8]>;
    fn to_ref(&self) -> (r: VecZnx<&[u8]>) ensures r == self.sref();
}
pub trait VecZnxToMut {
    spec fn smut_n(&self) -> usize; spec fn smut_cols(&self) -> usize; spec fn smut_size(&self) -> usize; spec fn smut_wf(&self) -> bool;
    spec fn smut_limb(&self, i: int, j: int) -> Seq<i64>;
    // identity of the underlying buffer borrow (for views: the final contents of the borrowed bytes); never changed by any operation
    #[verifier::prophetic]
    spec fn smut_fut(&self) -> Seq<u8>;
    fn to_mut(&mut self) -> (r: VecZnx<&mut [u8]>)
      ensures r.n == old(self).smut_n(), r.cols == old(self).smut_cols(), r.size == old(self).smut_size(), r.wf() == old(self).smut_wf(),
        forall|i: int, j: int| #[trigger] r.limb(i, j) == old(self).smut_limb(i, j),
        forall|i: int, j: int| #[trigger] limb_of(v64(r.data@), r.n as int, r.cols as int, i, j) == old(self).smut_limb(i, j),   // the same clause unfolded (for views never named in the caller)
        // write-through: after the borrow ends the owner shows what the view holds
        final(self).smut_n() == old(self).smut_n(), final(self).smut_cols() == old(self).smut_cols(), final(self).smut_size() == old(self).smut_size(),
        final(self).smut_wf() == old(self).smut_wf(), final(self).smut_fut() == old(self).smut_fut(),
        forall|i: int, j: int| #[trigger] final(self).smut_limb(i, j) == limb_of(v64(final(r.data)@), r.n as int, r.cols as int, i, j);
}
// views are themselves owners (the real crate has `impl<D: DataMut> VecZnxToMut for VecZnx<D>`): re-borrowing a view
#[verifier::external_body]
pub fn reborrow_ref<'b>(v: &'b VecZnx<&[u8]>) -> (r: VecZnx<&'b [u8]>) ensures r == *v { unimplemented!() }
impl<'a> VecZnxToRef for VecZnx<&'a [u8]> {
    open spec fn sref(&self) -> VecZnx<&[u8]> { *self }
    fn to_ref(&self) -> (r: VecZnx<&[u8]>) { reborrow_ref(self) }
}
impl<'a> VecZnxToMut for VecZnx<&'a mut [u8]> {
    open spec fn smut_n(&self) -> usize { self.n }
    open spec fn smut_cols(&self) -> usize { self.cols }
    open spec fn smut_size(&self) -> usize { self.size }
    open spec fn smut_wf(&self) -> bool { self.wf() }
    open spec fn smut_limb(&self, i: int, j: int) -> Seq<i64> { self.limb(i, j) }
    #[verifier::prophetic]
    open spec fn smut_fut(&self) -> Seq<u8> { final(self.data)@ }
    #[verifier::external_body]
    fn to_mut(&mut self) -> (r: VecZnx<&mut [u8]>) { unimplemented!() }
}
// L-layout: a limb block of a well-formed VecZnx lies inside the buffer and has n elements
pub proof fn lemma_limb_len<D: I64View>(v: VecZnx<D>, i: int, j: int)
    requires v.wf(), 0 <= i < v.cols, 0 <= j < v.size
    ensures v.limb(i, j).len() == v.n, 0 <= v.n * (j * v.cols + i), v.n * (j * v.cols + i) + v.n <= v.data.view64().len()
{
    let n = v.n as int; let c = v.cols as int; let s = v.size as int;
    assert(j * c + i + 1 <= s * c) by (nonlinear_arith) requires 0 <= i < c, 0 <= j < s;
    assert(n * (j * c + i) + n == n * (j * c + i + 1)) by (nonlinear_arith);
    assert(n * (j * c + i + 1) <= n * (s * c)) by (nonlinear_arith) requires j * c + i + 1 <= s * c, n >= 0;
    assert(n * (s * c) == n * c * s) by (nonlinear_arith);
    assert(0 <= n * (j * c + i)) by (nonlinear_arith) requires n >= 0, i >= 0, j >= 0, c >= 0;
}
