// ---------- prelude/scalar_znx (R6): ScalarZnx = one limb per column ----------
pub struct ScalarZnx<D> { pub data: D, pub n: usize, pub cols: usize }
impl<D: I64View> ScalarZnx<D> {
    pub open spec fn wf(&self) -> bool { self.n * self.cols <= self.data.view64().len() }
    pub open spec fn poly(&self, i: int) -> Seq<i64> { limb_of(self.data.view64(), self.n as int, self.cols as int, i, 0) }
}
impl<D> ScalarZnx<D> {
    pub fn n(&self) -> (r: usize) ensures r == self.n { self.n }
    pub fn cols(&self) -> (r: usize) ensures r == self.cols { self.cols }
    pub fn size(&self) -> (r: usize) ensures r == 1 { 1 }
}
impl<'a> ScalarZnx<&'a [u8]> {
    #[verifier::external_body]
    pub fn at(&self, i: usize, j: usize) -> (r: &[i64])
        requires self.wf(), i < self.cols, j < 1
        ensures r@ == self.poly(i as int), r@.len() == self.n
    { unimplemented!() }
}
pub trait ScalarZnxToRef {
    spec fn sref(&self) -> ScalarZnx<&[u8]>;
    fn to_ref(&self) -> (r: ScalarZnx<&[u8]>) ensures r == self.sref();
}
