// ---------- prelude/newtypes (R6, trusted interface I-NEWTYPE): the `newtype_u32!` wrappers of poulpy-core/src/layouts/mod.rs ----------
// The real types are macro-generated (`#[repr(transparent)] struct $name(pub u32)` with saturating arithmetic and comparisons
// against the same type and against u32); they are restated here with their specifications.  Conversions from usize carry a
// debug_assert!(v <= u32::MAX) in the real code, which cannot be stated on a trait impl: they are specified in range only.

#[derive(Clone, Copy)]
pub struct Rank(pub u32);
impl vstd::std_specs::ops::AddSpecImpl<u32> for Rank {
    open spec fn obeys_add_spec() -> bool { true }
    open spec fn add_req(self, rhs: u32) -> bool { true }
    open spec fn add_spec(self, rhs: u32) -> Rank { Rank(if self.0 + rhs > u32::MAX { u32::MAX } else { (self.0 + rhs) as u32 }) }
}
impl core::ops::Add<u32> for Rank { type Output = Rank; #[verifier::external_body] fn add(self, rhs: u32) -> Rank { Rank(self.0.saturating_add(rhs)) } }
impl vstd::std_specs::cmp::PartialEqSpecImpl<u32> for Rank {
    open spec fn obeys_eq_spec() -> bool { true }
    open spec fn eq_spec(&self, other: &u32) -> bool { self.0 == *other }
}
impl core::cmp::PartialEq<u32> for Rank { #[verifier::external_body] fn eq(&self, other: &u32) -> bool { self.0 == *other } }
impl vstd::std_specs::cmp::PartialEqSpecImpl<Rank> for Rank {
    open spec fn obeys_eq_spec() -> bool { true }
    open spec fn eq_spec(&self, other: &Rank) -> bool { self.0 == other.0 }
}
impl vstd::std_specs::cmp::PartialEqSpecImpl<Rank> for u32 {
    open spec fn obeys_eq_spec() -> bool { true }
    open spec fn eq_spec(&self, other: &Rank) -> bool { *self == other.0 }
}
impl core::cmp::PartialEq<Rank> for u32 { #[verifier::external_body] fn eq(&self, other: &Rank) -> bool { *self == other.0 } }
impl core::cmp::PartialEq<Rank> for Rank { #[verifier::external_body] fn eq(&self, other: &Rank) -> bool { self.0 == other.0 } }
impl core::cmp::Eq for Rank {}
impl vstd::std_specs::cmp::PartialOrdSpecImpl<Rank> for Rank {
    open spec fn obeys_partial_cmp_spec() -> bool { true }
    open spec fn partial_cmp_spec(&self, other: &Rank) -> Option<core::cmp::Ordering> {
        if self.0 < other.0 { Some(core::cmp::Ordering::Less) } else if self.0 == other.0 { Some(core::cmp::Ordering::Equal) } else { Some(core::cmp::Ordering::Greater) }
    }
}
impl core::cmp::PartialOrd<Rank> for Rank {
    #[verifier::external_body] fn partial_cmp(&self, other: &Rank) -> Option<core::cmp::Ordering> {
        if self.0 < other.0 { Some(core::cmp::Ordering::Less) } else if self.0 == other.0 { Some(core::cmp::Ordering::Equal) } else { Some(core::cmp::Ordering::Greater) }
    }
}
impl vstd::std_specs::convert::FromSpecImpl<Rank> for usize {
    open spec fn obeys_from_spec() -> bool { true }
    open spec fn from_spec(v: Rank) -> usize { v.0 as usize }
}
impl From<Rank> for usize { #[verifier::external_body] fn from(v: Rank) -> (r: usize) { v.0 as usize } }
impl vstd::std_specs::convert::FromSpecImpl<Rank> for u32 {
    open spec fn obeys_from_spec() -> bool { true }
    open spec fn from_spec(v: Rank) -> u32 { v.0 }
}
impl From<Rank> for u32 { #[verifier::external_body] fn from(v: Rank) -> (r: u32) { v.0 } }
impl Rank {
    pub fn as_usize(self) -> (r: usize) ensures r == self.0 { self.0 as usize }
    pub fn as_u32(self) -> (r: u32) ensures r == self.0 { self.0 }
    // derived `Ord::min` / `Ord::max`
    pub fn min(self, o: Rank) -> (r: Rank) ensures r.0 == (if self.0 <= o.0 { self.0 } else { o.0 }) { if self.0 <= o.0 { self } else { o } }
    pub fn max(self, o: Rank) -> (r: Rank) ensures r.0 == (if self.0 >= o.0 { self.0 } else { o.0 }) { if self.0 >= o.0 { self } else { o } }
}

#[derive(Clone, Copy)]
pub struct Base2K(pub u32);
impl vstd::std_specs::ops::AddSpecImpl<u32> for Base2K {
    open spec fn obeys_add_spec() -> bool { true }
    open spec fn add_req(self, rhs: u32) -> bool { true }
    open spec fn add_spec(self, rhs: u32) -> Base2K { Base2K(if self.0 + rhs > u32::MAX { u32::MAX } else { (self.0 + rhs) as u32 }) }
}
impl core::ops::Add<u32> for Base2K { type Output = Base2K; #[verifier::external_body] fn add(self, rhs: u32) -> Base2K { Base2K(self.0.saturating_add(rhs)) } }
impl vstd::std_specs::cmp::PartialEqSpecImpl<u32> for Base2K {
    open spec fn obeys_eq_spec() -> bool { true }
    open spec fn eq_spec(&self, other: &u32) -> bool { self.0 == *other }
}
impl core::cmp::PartialEq<u32> for Base2K { #[verifier::external_body] fn eq(&self, other: &u32) -> bool { self.0 == *other } }
impl vstd::std_specs::cmp::PartialEqSpecImpl<Base2K> for Base2K {
    open spec fn obeys_eq_spec() -> bool { true }
    open spec fn eq_spec(&self, other: &Base2K) -> bool { self.0 == other.0 }
}
impl vstd::std_specs::cmp::PartialEqSpecImpl<Base2K> for u32 {
    open spec fn obeys_eq_spec() -> bool { true }
    open spec fn eq_spec(&self, other: &Base2K) -> bool { *self == other.0 }
}
impl core::cmp::PartialEq<Base2K> for u32 { #[verifier::external_body] fn eq(&self, other: &Base2K) -> bool { *self == other.0 } }
impl core::cmp::PartialEq<Base2K> for Base2K { #[verifier::external_body] fn eq(&self, other: &Base2K) -> bool { self.0 == other.0 } }
impl core::cmp::Eq for Base2K {}
impl vstd::std_specs::cmp::PartialOrdSpecImpl<Base2K> for Base2K {
    open spec fn obeys_partial_cmp_spec() -> bool { true }
    open spec fn partial_cmp_spec(&self, other: &Base2K) -> Option<core::cmp::Ordering> {
        if self.0 < other.0 { Some(core::cmp::Ordering::Less) } else if self.0 == other.0 { Some(core::cmp::Ordering::Equal) } else { Some(core::cmp::Ordering::Greater) }
    }
}
impl core::cmp::PartialOrd<Base2K> for Base2K {
    #[verifier::external_body] fn partial_cmp(&self, other: &Base2K) -> Option<core::cmp::Ordering> {
        if self.0 < other.0 { Some(core::cmp::Ordering::Less) } else if self.0 == other.0 { Some(core::cmp::Ordering::Equal) } else { Some(core::cmp::Ordering::Greater) }
    }
}
impl vstd::std_specs::convert::FromSpecImpl<Base2K> for usize {
    open spec fn obeys_from_spec() -> bool { true }
    open spec fn from_spec(v: Base2K) -> usize { v.0 as usize }
}
impl From<Base2K> for usize { #[verifier::external_body] fn from(v: Base2K) -> (r: usize) { v.0 as usize } }
impl vstd::std_specs::convert::FromSpecImpl<Base2K> for u32 {
    open spec fn obeys_from_spec() -> bool { true }
    open spec fn from_spec(v: Base2K) -> u32 { v.0 }
}
impl From<Base2K> for u32 { #[verifier::external_body] fn from(v: Base2K) -> (r: u32) { v.0 } }
impl Base2K {
    pub fn as_usize(self) -> (r: usize) ensures r == self.0 { self.0 as usize }
    pub fn as_u32(self) -> (r: u32) ensures r == self.0 { self.0 }
    // derived `Ord::min` / `Ord::max`
    pub fn min(self, o: Base2K) -> (r: Base2K) ensures r.0 == (if self.0 <= o.0 { self.0 } else { o.0 }) { if self.0 <= o.0 { self } else { o } }
    pub fn max(self, o: Base2K) -> (r: Base2K) ensures r.0 == (if self.0 >= o.0 { self.0 } else { o.0 }) { if self.0 >= o.0 { self } else { o } }
}

#[derive(Clone, Copy)]
pub struct Degree(pub u32);
impl vstd::std_specs::ops::AddSpecImpl<u32> for Degree {
    open spec fn obeys_add_spec() -> bool { true }
    open spec fn add_req(self, rhs: u32) -> bool { true }
    open spec fn add_spec(self, rhs: u32) -> Degree { Degree(if self.0 + rhs > u32::MAX { u32::MAX } else { (self.0 + rhs) as u32 }) }
}
impl core::ops::Add<u32> for Degree { type Output = Degree; #[verifier::external_body] fn add(self, rhs: u32) -> Degree { Degree(self.0.saturating_add(rhs)) } }
impl vstd::std_specs::cmp::PartialEqSpecImpl<u32> for Degree {
    open spec fn obeys_eq_spec() -> bool { true }
    open spec fn eq_spec(&self, other: &u32) -> bool { self.0 == *other }
}
impl core::cmp::PartialEq<u32> for Degree { #[verifier::external_body] fn eq(&self, other: &u32) -> bool { self.0 == *other } }
impl vstd::std_specs::cmp::PartialEqSpecImpl<Degree> for Degree {
    open spec fn obeys_eq_spec() -> bool { true }
    open spec fn eq_spec(&self, other: &Degree) -> bool { self.0 == other.0 }
}
impl vstd::std_specs::cmp::PartialEqSpecImpl<Degree> for u32 {
    open spec fn obeys_eq_spec() -> bool { true }
    open spec fn eq_spec(&self, other: &Degree) -> bool { *self == other.0 }
}
impl core::cmp::PartialEq<Degree> for u32 { #[verifier::external_body] fn eq(&self, other: &Degree) -> bool { *self == other.0 } }
impl core::cmp::PartialEq<Degree> for Degree { #[verifier::external_body] fn eq(&self, other: &Degree) -> bool { self.0 == other.0 } }
impl core::cmp::Eq for Degree {}
impl vstd::std_specs::cmp::PartialOrdSpecImpl<Degree> for Degree {
    open spec fn obeys_partial_cmp_spec() -> bool { true }
    open spec fn partial_cmp_spec(&self, other: &Degree) -> Option<core::cmp::Ordering> {
        if self.0 < other.0 { Some(core::cmp::Ordering::Less) } else if self.0 == other.0 { Some(core::cmp::Ordering::Equal) } else { Some(core::cmp::Ordering::Greater) }
    }
}
impl core::cmp::PartialOrd<Degree> for Degree {
    #[verifier::external_body] fn partial_cmp(&self, other: &Degree) -> Option<core::cmp::Ordering> {
        if self.0 < other.0 { Some(core::cmp::Ordering::Less) } else if self.0 == other.0 { Some(core::cmp::Ordering::Equal) } else { Some(core::cmp::Ordering::Greater) }
    }
}
impl vstd::std_specs::convert::FromSpecImpl<Degree> for usize {
    open spec fn obeys_from_spec() -> bool { true }
    open spec fn from_spec(v: Degree) -> usize { v.0 as usize }
}
impl From<Degree> for usize { #[verifier::external_body] fn from(v: Degree) -> (r: usize) { v.0 as usize } }
impl vstd::std_specs::convert::FromSpecImpl<Degree> for u32 {
    open spec fn obeys_from_spec() -> bool { true }
    open spec fn from_spec(v: Degree) -> u32 { v.0 }
}
impl From<Degree> for u32 { #[verifier::external_body] fn from(v: Degree) -> (r: u32) { v.0 } }
impl Degree {
    pub fn as_usize(self) -> (r: usize) ensures r == self.0 { self.0 as usize }
    pub fn as_u32(self) -> (r: u32) ensures r == self.0 { self.0 }
    // derived `Ord::min` / `Ord::max`
    pub fn min(self, o: Degree) -> (r: Degree) ensures r.0 == (if self.0 <= o.0 { self.0 } else { o.0 }) { if self.0 <= o.0 { self } else { o } }
    pub fn max(self, o: Degree) -> (r: Degree) ensures r.0 == (if self.0 >= o.0 { self.0 } else { o.0 }) { if self.0 >= o.0 { self } else { o } }
}

#[derive(Clone, Copy)]
pub struct TorusPrecision(pub u32);
impl vstd::std_specs::ops::AddSpecImpl<u32> for TorusPrecision {
    open spec fn obeys_add_spec() -> bool { true }
    open spec fn add_req(self, rhs: u32) -> bool { true }
    open spec fn add_spec(self, rhs: u32) -> TorusPrecision { TorusPrecision(if self.0 + rhs > u32::MAX { u32::MAX } else { (self.0 + rhs) as u32 }) }
}
impl core::ops::Add<u32> for TorusPrecision { type Output = TorusPrecision; #[verifier::external_body] fn add(self, rhs: u32) -> TorusPrecision { TorusPrecision(self.0.saturating_add(rhs)) } }
impl vstd::std_specs::cmp::PartialEqSpecImpl<u32> for TorusPrecision {
    open spec fn obeys_eq_spec() -> bool { true }
    open spec fn eq_spec(&self, other: &u32) -> bool { self.0 == *other }
}
impl core::cmp::PartialEq<u32> for TorusPrecision { #[verifier::external_body] fn eq(&self, other: &u32) -> bool { self.0 == *other } }
impl vstd::std_specs::cmp::PartialEqSpecImpl<TorusPrecision> for TorusPrecision {
    open spec fn obeys_eq_spec() -> bool { true }
    open spec fn eq_spec(&self, other: &TorusPrecision) -> bool { self.0 == other.0 }
}
impl vstd::std_specs::cmp::PartialEqSpecImpl<TorusPrecision> for u32 {
    open spec fn obeys_eq_spec() -> bool { true }
    open spec fn eq_spec(&self, other: &TorusPrecision) -> bool { *self == other.0 }
}
impl core::cmp::PartialEq<TorusPrecision> for u32 { #[verifier::external_body] fn eq(&self, other: &TorusPrecision) -> bool { *self == other.0 } }
impl core::cmp::PartialEq<TorusPrecision> for TorusPrecision { #[verifier::external_body] fn eq(&self, other: &TorusPrecision) -> bool { self.0 == other.0 } }
impl core::cmp::Eq for TorusPrecision {}
impl vstd::std_specs::cmp::PartialOrdSpecImpl<TorusPrecision> for TorusPrecision {
    open spec fn obeys_partial_cmp_spec() -> bool { true }
    open spec fn partial_cmp_spec(&self, other: &TorusPrecision) -> Option<core::cmp::Ordering> {
        if self.0 < other.0 { Some(core::cmp::Ordering::Less) } else if self.0 == other.0 { Some(core::cmp::Ordering::Equal) } else { Some(core::cmp::Ordering::Greater) }
    }
}
impl core::cmp::PartialOrd<TorusPrecision> for TorusPrecision {
    #[verifier::external_body] fn partial_cmp(&self, other: &TorusPrecision) -> Option<core::cmp::Ordering> {
        if self.0 < other.0 { Some(core::cmp::Ordering::Less) } else if self.0 == other.0 { Some(core::cmp::Ordering::Equal) } else { Some(core::cmp::Ordering::Greater) }
    }
}
impl vstd::std_specs::convert::FromSpecImpl<TorusPrecision> for usize {
    open spec fn obeys_from_spec() -> bool { true }
    open spec fn from_spec(v: TorusPrecision) -> usize { v.0 as usize }
}
impl From<TorusPrecision> for usize { #[verifier::external_body] fn from(v: TorusPrecision) -> (r: usize) { v.0 as usize } }
impl vstd::std_specs::convert::FromSpecImpl<TorusPrecision> for u32 {
    open spec fn obeys_from_spec() -> bool { true }
    open spec fn from_spec(v: TorusPrecision) -> u32 { v.0 }
}
impl From<TorusPrecision> for u32 { #[verifier::external_body] fn from(v: TorusPrecision) -> (r: u32) { v.0 } }
impl TorusPrecision {
    pub fn as_usize(self) -> (r: usize) ensures r == self.0 { self.0 as usize }
    pub fn as_u32(self) -> (r: u32) ensures r == self.0 { self.0 }
    // derived `Ord::min` / `Ord::max`
    pub fn min(self, o: TorusPrecision) -> (r: TorusPrecision) ensures r.0 == (if self.0 <= o.0 { self.0 } else { o.0 }) { if self.0 <= o.0 { self } else { o } }
    pub fn max(self, o: TorusPrecision) -> (r: TorusPrecision) ensures r.0 == (if self.0 >= o.0 { self.0 } else { o.0 }) { if self.0 >= o.0 { self } else { o } }
}

#[derive(Clone, Copy)]
pub struct Dnum(pub u32);
impl vstd::std_specs::ops::AddSpecImpl<u32> for Dnum {
    open spec fn obeys_add_spec() -> bool { true }
    open spec fn add_req(self, rhs: u32) -> bool { true }
    open spec fn add_spec(self, rhs: u32) -> Dnum { Dnum(if self.0 + rhs > u32::MAX { u32::MAX } else { (self.0 + rhs) as u32 }) }
}
impl core::ops::Add<u32> for Dnum { type Output = Dnum; #[verifier::external_body] fn add(self, rhs: u32) -> Dnum { Dnum(self.0.saturating_add(rhs)) } }
impl vstd::std_specs::cmp::PartialEqSpecImpl<u32> for Dnum {
    open spec fn obeys_eq_spec() -> bool { true }
    open spec fn eq_spec(&self, other: &u32) -> bool { self.0 == *other }
}
impl core::cmp::PartialEq<u32> for Dnum { #[verifier::external_body] fn eq(&self, other: &u32) -> bool { self.0 == *other } }
impl vstd::std_specs::cmp::PartialEqSpecImpl<Dnum> for Dnum {
    open spec fn obeys_eq_spec() -> bool { true }
    open spec fn eq_spec(&self, other: &Dnum) -> bool { self.0 == other.0 }
}
impl vstd::std_specs::cmp::PartialEqSpecImpl<Dnum> for u32 {
    open spec fn obeys_eq_spec() -> bool { true }
    open spec fn eq_spec(&self, other: &Dnum) -> bool { *self == other.0 }
}
impl core::cmp::PartialEq<Dnum> for u32 { #[verifier::external_body] fn eq(&self, other: &Dnum) -> bool { *self == other.0 } }
impl core::cmp::PartialEq<Dnum> for Dnum { #[verifier::external_body] fn eq(&self, other: &Dnum) -> bool { self.0 == other.0 } }
impl core::cmp::Eq for Dnum {}
impl vstd::std_specs::cmp::PartialOrdSpecImpl<Dnum> for Dnum {
    open spec fn obeys_partial_cmp_spec() -> bool { true }
    open spec fn partial_cmp_spec(&self, other: &Dnum) -> Option<core::cmp::Ordering> {
        if self.0 < other.0 { Some(core::cmp::Ordering::Less) } else if self.0 == other.0 { Some(core::cmp::Ordering::Equal) } else { Some(core::cmp::Ordering::Greater) }
    }
}
impl core::cmp::PartialOrd<Dnum> for Dnum {
    #[verifier::external_body] fn partial_cmp(&self, other: &Dnum) -> Option<core::cmp::Ordering> {
        if self.0 < other.0 { Some(core::cmp::Ordering::Less) } else if self.0 == other.0 { Some(core::cmp::Ordering::Equal) } else { Some(core::cmp::Ordering::Greater) }
    }
}
impl vstd::std_specs::convert::FromSpecImpl<Dnum> for usize {
    open spec fn obeys_from_spec() -> bool { true }
    open spec fn from_spec(v: Dnum) -> usize { v.0 as usize }
}
impl From<Dnum> for usize { #[verifier::external_body] fn from(v: Dnum) -> (r: usize) { v.0 as usize } }
impl vstd::std_specs::convert::FromSpecImpl<Dnum> for u32 {
    open spec fn obeys_from_spec() -> bool { true }
    open spec fn from_spec(v: Dnum) -> u32 { v.0 }
}
impl From<Dnum> for u32 { #[verifier::external_body] fn from(v: Dnum) -> (r: u32) { v.0 } }
impl Dnum {
    pub fn as_usize(self) -> (r: usize) ensures r == self.0 { self.0 as usize }
    pub fn as_u32(self) -> (r: u32) ensures r == self.0 { self.0 }
    // derived `Ord::min` / `Ord::max`
    pub fn min(self, o: Dnum) -> (r: Dnum) ensures r.0 == (if self.0 <= o.0 { self.0 } else { o.0 }) { if self.0 <= o.0 { self } else { o } }
    pub fn max(self, o: Dnum) -> (r: Dnum) ensures r.0 == (if self.0 >= o.0 { self.0 } else { o.0 }) { if self.0 >= o.0 { self } else { o } }
}

#[derive(Clone, Copy)]
pub struct Dsize(pub u32);
impl vstd::std_specs::ops::AddSpecImpl<u32> for Dsize {
    open spec fn obeys_add_spec() -> bool { true }
    open spec fn add_req(self, rhs: u32) -> bool { true }
    open spec fn add_spec(self, rhs: u32) -> Dsize { Dsize(if self.0 + rhs > u32::MAX { u32::MAX } else { (self.0 + rhs) as u32 }) }
}
impl core::ops::Add<u32> for Dsize { type Output = Dsize; #[verifier::external_body] fn add(self, rhs: u32) -> Dsize { Dsize(self.0.saturating_add(rhs)) } }
impl vstd::std_specs::cmp::PartialEqSpecImpl<u32> for Dsize {
    open spec fn obeys_eq_spec() -> bool { true }
    open spec fn eq_spec(&self, other: &u32) -> bool { self.0 == *other }
}
impl core::cmp::PartialEq<u32> for Dsize { #[verifier::external_body] fn eq(&self, other: &u32) -> bool { self.0 == *other } }
impl vstd::std_specs::cmp::PartialEqSpecImpl<Dsize> for Dsize {
    open spec fn obeys_eq_spec() -> bool { true }
    open spec fn eq_spec(&self, other: &Dsize) -> bool { self.0 == other.0 }
}
impl vstd::std_specs::cmp::PartialEqSpecImpl<Dsize> for u32 {
    open spec fn obeys_eq_spec() -> bool { true }
    open spec fn eq_spec(&self, other: &Dsize) -> bool { *self == other.0 }
}
impl core::cmp::PartialEq<Dsize> for u32 { #[verifier::external_body] fn eq(&self, other: &Dsize) -> bool { *self == other.0 } }
impl core::cmp::PartialEq<Dsize> for Dsize { #[verifier::external_body] fn eq(&self, other: &Dsize) -> bool { self.0 == other.0 } }
impl core::cmp::Eq for Dsize {}
impl vstd::std_specs::cmp::PartialOrdSpecImpl<Dsize> for Dsize {
    open spec fn obeys_partial_cmp_spec() -> bool { true }
    open spec fn partial_cmp_spec(&self, other: &Dsize) -> Option<core::cmp::Ordering> {
        if self.0 < other.0 { Some(core::cmp::Ordering::Less) } else if self.0 == other.0 { Some(core::cmp::Ordering::Equal) } else { Some(core::cmp::Ordering::Greater) }
    }
}
impl core::cmp::PartialOrd<Dsize> for Dsize {
    #[verifier::external_body] fn partial_cmp(&self, other: &Dsize) -> Option<core::cmp::Ordering> {
        if self.0 < other.0 { Some(core::cmp::Ordering::Less) } else if self.0 == other.0 { Some(core::cmp::Ordering::Equal) } else { Some(core::cmp::Ordering::Greater) }
    }
}
impl vstd::std_specs::convert::FromSpecImpl<Dsize> for usize {
    open spec fn obeys_from_spec() -> bool { true }
    open spec fn from_spec(v: Dsize) -> usize { v.0 as usize }
}
impl From<Dsize> for usize { #[verifier::external_body] fn from(v: Dsize) -> (r: usize) { v.0 as usize } }
impl vstd::std_specs::convert::FromSpecImpl<Dsize> for u32 {
    open spec fn obeys_from_spec() -> bool { true }
    open spec fn from_spec(v: Dsize) -> u32 { v.0 }
}
impl From<Dsize> for u32 { #[verifier::external_body] fn from(v: Dsize) -> (r: u32) { v.0 } }
impl Dsize {
    pub fn as_usize(self) -> (r: usize) ensures r == self.0 { self.0 as usize }
    pub fn as_u32(self) -> (r: u32) ensures r == self.0 { self.0 }
    // derived `Ord::min` / `Ord::max`
    pub fn min(self, o: Dsize) -> (r: Dsize) ensures r.0 == (if self.0 <= o.0 { self.0 } else { o.0 }) { if self.0 <= o.0 { self } else { o } }
    pub fn max(self, o: Dsize) -> (r: Dsize) ensures r.0 == (if self.0 >= o.0 { self.0 } else { o.0 }) { if self.0 >= o.0 { self } else { o } }
}

// ---- `$name::div_ceil<T: Into<u32>>(self, rhs: T) -> u32 { self.0.div_ceil(rhs.into()) }` and `PartialOrd<u32> for $name` of the newtype macro ----
// U32Like names the u32 a right-hand side converts into (`Into<u32>` itself has no specification for a generic T)
pub trait U32Like { spec fn to_u32(self) -> u32; }
impl U32Like for u32 { open spec fn to_u32(self) -> u32 { self } }
impl U32Like for Base2K { open spec fn to_u32(self) -> u32 { self.0 } }
impl U32Like for Dsize { open spec fn to_u32(self) -> u32 { self.0 } }
pub open spec fn cdiv(a: int, b: int) -> int { if b <= 0 { 0 } else if a % b == 0 { a / b } else { a / b + 1 } }
pub assume_specification[ u32::div_ceil ](a: u32, b: u32) -> (r: u32)
    requires b > 0
    ensures r == cdiv(a as int, b as int);
impl TorusPrecision {
    #[verifier::external_body]
    pub fn div_ceil<T: Into<u32> + U32Like>(self, rhs: T) -> (r: u32) requires rhs.to_u32() > 0 ensures r == cdiv(self.0 as int, rhs.to_u32() as int) { self.0.div_ceil(rhs.into()) }
}
impl vstd::std_specs::cmp::PartialOrdSpecImpl<u32> for Dsize {
    open spec fn obeys_partial_cmp_spec() -> bool { true }
    open spec fn partial_cmp_spec(&self, other: &u32) -> Option<core::cmp::Ordering> {
        if self.0 < *other { Some(core::cmp::Ordering::Less) } else if self.0 == *other { Some(core::cmp::Ordering::Equal) } else { Some(core::cmp::Ordering::Greater) }
    }
}
impl core::cmp::PartialOrd<u32> for Dsize {
    #[verifier::external_body] fn partial_cmp(&self, other: &u32) -> Option<core::cmp::Ordering> { self.0.partial_cmp(other) }
}
// `impl From<usize> for $name { fn from(v: usize) -> Self { $name(v as u32) } }` of the newtype macro (Degree)
impl vstd::std_specs::convert::FromSpecImpl<usize> for Degree {
    open spec fn obeys_from_spec() -> bool { true }
    open spec fn from_spec(v: usize) -> Degree { Degree(v as u32) }
}
impl From<usize> for Degree { #[verifier::external_body] fn from(v: usize) -> (r: Degree) { Degree(v as u32) } }
impl vstd::std_specs::cmp::PartialOrdSpecImpl<u32> for Degree {
    open spec fn obeys_partial_cmp_spec() -> bool { true }
    open spec fn partial_cmp_spec(&self, other: &u32) -> Option<core::cmp::Ordering> {
        if self.0 < *other { Some(core::cmp::Ordering::Less) } else if self.0 == *other { Some(core::cmp::Ordering::Equal) } else { Some(core::cmp::Ordering::Greater) }
    }
}
impl core::cmp::PartialOrd<u32> for Degree {
    #[verifier::external_body] fn partial_cmp(&self, other: &u32) -> Option<core::cmp::Ordering> { self.0.partial_cmp(other) }
}
