// ---------- prelude/core_decrypt_api (R5/R6): secret keys, plaintexts and the remaining HAL operations of the decryption / encryption glue ----------
pub struct GLWESecretPrepared<D, BE> { pub data: SvpPPol<D, BE>, pub dist: Distribution }
pub struct Distribution { pub tag: u8 }
impl<D, BE> GLWESecretPrepared<D, BE> {
    // real bodies: Degree(self.data.n() as u32), Rank(self.data.cols() as u32)
    #[verifier::external_body] pub fn n(&self) -> (r: Degree) ensures r.0 == self.data.n as u32 { unimplemented!() }
    #[verifier::external_body] pub fn rank(&self) -> (r: Rank) ensures r.0 == self.data.cols as u32 { unimplemented!() }
}
pub trait GLWESecretPreparedToRef<BE> {
    spec fn skref(&self) -> GLWESecretPrepared<&[u8], BE>;
    fn to_ref(&self) -> (r: GLWESecretPrepared<&[u8], BE>) ensures r == self.skref();
}
pub struct GLWEPlaintext<D> { pub data: VecZnx<D>, pub base2k: Base2K }
impl<D> GLWEPlaintext<D> {
    #[verifier::external_body]
    pub fn data_mut(&mut self) -> (r: &mut VecZnx<D>)
        ensures *r == old(self).data, final(self).data == *final(r), final(self).base2k == old(self).base2k
    { &mut self.data }
}
// owner of a plaintext: what a `to_mut()` view shows and write-through of its limbs (same interface as GLWEToMut, one column)
pub trait GLWEPlaintextToMut {
    spec fn pm_n(&self) -> usize; spec fn pm_cols(&self) -> usize; spec fn pm_size(&self) -> usize; spec fn pm_wf(&self) -> bool;
    spec fn pm_limb(&self, i: int, j: int) -> Seq<i64>;
    fn to_mut(&mut self) -> (r: GLWEPlaintext<&mut [u8]>)
      ensures r.data.n == old(self).pm_n(), r.data.cols == old(self).pm_cols(), r.data.size == old(self).pm_size(), r.data.wf() == old(self).pm_wf(),
        forall|i: int, j: int| #[trigger] r.data.limb(i, j) == old(self).pm_limb(i, j),
        final(self).pm_n() == old(self).pm_n(), final(self).pm_cols() == old(self).pm_cols(), final(self).pm_size() == old(self).pm_size(), final(self).pm_wf() == old(self).pm_wf(),
        forall|i: int, j: int| #[trigger] final(self).pm_limb(i, j) == limb_of(v64(final(r.data.data)@), r.data.n as int, r.data.cols as int, i, j);
}
pub trait SetLWEInfos {}
pub trait VecZnxBigBytesOf { spec fn s_bytes_of_big(&self, cols: int, size: int) -> int; fn bytes_of_vec_znx_big(&self, cols: usize, size: usize) -> (r: usize) ensures r == self.s_bytes_of_big(cols as int, size as int); }
impl<BE: Backend> Scratch<BE> {
    #[verifier::external_body]
    pub fn take_vec_znx_big<M: VecZnxBigBytesOf + ModuleN>(&mut self, module: &M, cols: usize, size: usize) -> (r: (VecZnxBig<&mut [u8], BE>, &mut Scratch<BE>))
        requires old(self).avail >= module.s_bytes_of_big(cols as int, size as int),
        ensures r.0.n == module.sn(), r.0.cols == cols, r.0.size == size, r.0.max_size == size,
            r.1.avail == old(self).avail - module.s_bytes_of_big(cols as int, size as int), final(self).avail == old(self).avail,
            forall|i: int, j: int| #[trigger] r.0.dep(i, j) == ISet::<Src>::empty().insert(GARBAGE()),
    { unimplemented!() }
}
pub trait SvpApplyDftToDftAssign<BE: Backend> {
    // res[res_col][j] *= a[a_col] for every active limb j
    fn svp_apply_dft_to_dft_assign<D: DataMut, DS>(&self, res: &mut VecZnxDft<D, BE>, res_col: usize, a: &SvpPPol<DS, BE>, a_col: usize)
        requires res_col < old(res).cols, a_col < a.cols, old(res).n == a.n,
        ensures final(res).n == old(res).n, final(res).cols == old(res).cols, final(res).size == old(res).size, final(res).max_size == old(res).max_size, final(res).rad == old(res).rad,
            forall|j: int| 0 <= j < old(res).size ==> #[trigger] final(res).dep(res_col as int, j) == old(res).dep(res_col as int, j).union(a.deps@[a_col as int]),
            forall|i: int, j: int| (i != res_col || j < 0 || j >= old(res).size) ==> #[trigger] final(res).dep(i, j) == old(res).dep(i, j);
}
pub trait VecZnxBigAddAssign<BE: Backend> {
    fn vec_znx_big_add_assign<D: DataMut, A: VecZnxBigToRef<BE>>(&self, res: &mut VecZnxBig<D, BE>, res_col: usize, a: &A, a_col: usize)
        requires res_col < old(res).cols, a_col < a.bigref().cols, old(res).n == a.bigref().n, a.bigref().rad == old(res).rad || big_cleared(*old(res)),
        ensures final(res).n == old(res).n, final(res).cols == old(res).cols, final(res).size == old(res).size, final(res).max_size == old(res).max_size, final(res).rad == a.bigref().rad,
            forall|j: int| 0 <= j < old(res).size ==> #[trigger] final(res).dep(res_col as int, j) == (if j < a.bigref().size { old(res).dep(res_col as int, j).union(a.bigref().dep(a_col as int, j)) } else { old(res).dep(res_col as int, j) }),
            forall|i: int, j: int| (i != res_col || j < 0 || j >= old(res).size) ==> #[trigger] final(res).dep(i, j) == old(res).dep(i, j);
}
