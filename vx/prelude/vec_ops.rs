// ---------- prelude/vec_ops: limb-level relations used by the column-operation contracts ----------
pub open spec fn is_add(r: Seq<i64>, a: Seq<i64>, b: Seq<i64>) -> bool { r.len() == a.len() && forall|k: int| 0 <= k < a.len() ==> #[trigger] r[k] == a[k] + b[k] }
pub open spec fn is_sub(r: Seq<i64>, a: Seq<i64>, b: Seq<i64>) -> bool { r.len() == a.len() && forall|k: int| 0 <= k < a.len() ==> #[trigger] r[k] == a[k] - b[k] }
pub open spec fn is_neg(r: Seq<i64>, a: Seq<i64>) -> bool { r.len() == a.len() && forall|k: int| 0 <= k < a.len() ==> #[trigger] r[k] == -a[k] }
pub open spec fn is_zero(r: Seq<i64>, n: int) -> bool { r.len() == n && forall|k: int| 0 <= k < n ==> #[trigger] r[k] == 0 }
pub open spec fn no_min(a: Seq<i64>) -> bool { forall|k: int| 0 <= k < a.len() ==> #[trigger] a[k] > i64::MIN }
pub open spec fn add_fits(a: Seq<i64>, b: Seq<i64>) -> bool { forall|k: int| 0 <= k < a.len() ==> i64::MIN <= #[trigger] a[k] + b[k] <= i64::MAX }
pub open spec fn sub_fits(a: Seq<i64>, b: Seq<i64>) -> bool { forall|k: int| 0 <= k < a.len() ==> i64::MIN <= #[trigger] a[k] - b[k] <= i64::MAX }

pub open spec fn owner_limbs<R: VecZnxToMut>(r: &R) -> spec_fn(int, int) -> Seq<i64> { |i: int, j: int| r.smut_limb(i, j) }
pub open spec fn view_limbs(v: VecZnx<&mut [u8]>) -> spec_fn(int, int) -> Seq<i64> { |i: int, j: int| v.limb(i, j) }
// frame: every limb block outside (col, 0..size) is unchanged
pub open spec fn frame_ok(new: spec_fn(int, int) -> Seq<i64>, old: spec_fn(int, int) -> Seq<i64>, cols: int, col: int, size: int) -> bool {
    forall|i2: int, j2: int| 0 <= i2 < cols && 0 <= j2 && (i2 != col || j2 >= size) ==> #[trigger] new(i2, j2) == old(i2, j2)
}
