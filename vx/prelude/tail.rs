} // verus!
fn main() {}
