// ---------- prelude/core_ggsw (R6): prepared GGSW of poulpy-core/src/layouts/prepared/ggsw.rs, reduced to shape + dependency ----------
// `pub struct GGSWPrepared<D: Data, B: Backend> { pub(crate) data: VmpPMat<D, B>, pub(crate) base2k: Base2K, pub(crate) dsize: Dsize }`
pub struct GGSWPrepared<D, BE> { pub data: VmpPMat<D, BE>, pub base2k: Base2K, pub dsize: Dsize }
pub trait GGSWInfos: GLWEInfos {
    spec fn s_dsize(&self) -> u32; spec fn s_dnum(&self) -> u32;
    fn dsize(&self) -> (r: Dsize) ensures r.0 == self.s_dsize();
    fn dnum(&self) -> (r: Dnum) ensures r.0 == self.s_dnum();
}
// layout invariant of a prepared GGSW: rows = dnum, cols_in = cols_out = rank + 1 (ggsw_prepared_alloc)
pub open spec fn ggsw_ok<D, BE>(k: GGSWPrepared<D, BE>) -> bool { k.data.n <= u32::MAX && 1 <= k.data.cols_out <= u32::MAX && k.data.cols_in == k.data.cols_out && k.data.rows <= u32::MAX }
// real bodies: `Degree(self.data.n() as u32)`, `self.base2k`, `self.data.size()`, `Rank(self.data.cols_out() as u32 - 1)`, `self.dsize`, `Dnum(self.data.rows() as u32)`
impl<D, BE> LWEInfos for GGSWPrepared<D, BE> {
    open spec fn s_n(&self) -> u32 { self.data.n as u32 } open spec fn s_base2k(&self) -> Base2K { self.base2k } open spec fn s_size(&self) -> usize { self.data.size }
    #[verifier::external_body] fn n(&self) -> (r: Degree) { Degree(self.data.n() as u32) }
    fn base2k(&self) -> (r: Base2K) { let r = self.base2k; assert(r == self.s_base2k()); r }
    fn size(&self) -> (r: usize) { self.data.size() }
}
impl<D, BE> GLWEInfos for GGSWPrepared<D, BE> { open spec fn s_rank(&self) -> u32 { (self.data.cols_out - 1) as u32 } #[verifier::external_body] fn rank(&self) -> (r: Rank) { unimplemented!() } }
impl<D, BE> GGSWInfos for GGSWPrepared<D, BE> {
    open spec fn s_dsize(&self) -> u32 { self.dsize.0 } open spec fn s_dnum(&self) -> u32 { self.data.rows as u32 }
    fn dsize(&self) -> (r: Dsize) { self.dsize }
    #[verifier::external_body] fn dnum(&self) -> (r: Dnum) { unimplemented!() }
}
pub trait GGSWPreparedToRef<BE> {
    spec fn wref(&self) -> GGSWPrepared<&[u8], BE>;
    fn to_ref(&self) -> (r: GGSWPrepared<&[u8], BE>) ensures r == self.wref();
}
impl<D: DataRef, BE> GGSWPreparedToRef<BE> for GGSWPrepared<D, BE> {
    open spec fn wref(&self) -> GGSWPrepared<&[u8], BE> {
        GGSWPrepared { data: VmpPMat { data: bref(self.data.data), n: self.data.n, rows: self.data.rows, cols_in: self.data.cols_in, cols_out: self.data.cols_out, size: self.data.size, dep: self.data.dep, _phantom: core::marker::PhantomData }, base2k: self.base2k, dsize: self.dsize }
    }
    #[verifier::external_body] fn to_ref(&self) -> (r: GGSWPrepared<&[u8], BE>) { unimplemented!() }
}
// infos of an owner agree with its view (the real impls read the same fields)
pub open spec fn ggsw_infos<G: GGSWPreparedToRef<BE> + GGSWInfos, BE>(g: &G) -> bool {
    g.s_n() == g.wref().data.n && g.s_rank() + 1 == g.wref().data.cols_out && g.s_base2k() == g.wref().base2k && g.s_size() == g.wref().data.size && g.s_dsize() == g.wref().dsize.0 && g.s_dnum() == g.wref().data.rows
}
