// ---------- prelude/core: panic obligations and arithmetic helpers used by the rewrite rules ----------
// R3: every panic site of the real code is an obligation (`requires false`).
#[verifier::external_body]
pub fn vpanic() -> ! requires false { panic!() }

pub fn vmin(a: usize, b: usize) -> (r: usize) ensures r == (if a <= b { a } else { b }) { if a <= b { a } else { b } }
pub fn vsub_sat(a: usize, b: usize) -> (r: usize) ensures r == (if a >= b { a - b } else { 0 }) { if a >= b { a - b } else { 0 } }
// number of elements visited by `.step_by(s)` over `len` elements
pub fn vdiv_ceil(len: usize, s: usize) -> (r: usize)
    requires s > 0
    ensures (r as int) * (s as int) < len + s, r > 0 ==> ((r - 1) * (s as int)) < len, len > 0 ==> r > 0, r <= len
{
    let q = len / s;
    let m = len % s;
    proof {
        vstd::arithmetic::div_mod::lemma_fundamental_div_mod(len as int, s as int);
        assert(len == (s as int) * (q as int) + (m as int));
        assert((q as int) * (s as int) == (s as int) * (q as int)) by (nonlinear_arith);
    }
    if m == 0 {
        proof {
            assert(q > 0 ==> ((q - 1) * (s as int)) < len) by (nonlinear_arith) requires len == (s as int) * (q as int), s > 0;
            assert(len > 0 ==> q > 0) by (nonlinear_arith) requires len == (s as int) * (q as int), s > 0;
            assert(q <= len) by (nonlinear_arith) requires len == (s as int) * (q as int), s > 0, q >= 0;
        }
        q
    } else {
        proof {
            assert(s >= 2);
            assert(q < len) by (nonlinear_arith) requires len == (s as int) * (q as int) + (m as int), s >= 2, m > 0, q >= 0;
            assert(((q + 1) as int) * (s as int) == (s as int) * (q as int) + s) by (nonlinear_arith);
        }
        q + 1
    }
}

pub open spec fn p2(k: nat) -> int decreases k { if k == 0 { 1 } else { 2 * p2((k - 1) as nat) } }
pub proof fn lemma_p2_pos(a: nat) ensures p2(a) > 0 decreases a { if a > 0 { lemma_p2_pos((a - 1) as nat); } }
pub proof fn lemma_p2_add(a: nat, b: nat) ensures p2(a + b) == p2(a) * p2(b) decreases a
{
    if a > 0 {
        lemma_p2_add((a - 1) as nat, b);
        assert(p2(a + b) == 2 * p2((a - 1 + b) as nat));
        assert(2 * (p2((a - 1) as nat) * p2(b)) == (2 * p2((a - 1) as nat)) * p2(b)) by (nonlinear_arith);
    } else {
        assert(p2(0) * p2(b) == p2(b)) by (nonlinear_arith) requires p2(0) == 1;
    }
}
pub open spec fn zeros(n: nat) -> Seq<i64> { Seq::new(n, |k: int| 0i64) }
