// ---------- prelude/core: panic obligations and arithmetic helpers used by the rewrite rules ----------
// R3: every panic site of the real code is an obligation (`requires false`).
#[verifier::external_body]
pub fn vpanic() -> ! requires false { panic!() }

// R3c: `format!(..)` outside a panic: an opaque message
#[verifier::external_body]
pub fn vfmt() -> String { String::new() }

pub fn vmin(a: usize, b: usize) -> (r: usize) ensures r == (if a <= b { a } else { b }) { if a <= b { a } else { b } }
pub fn vsub_sat(a: usize, b: usize) -> (r: usize) ensures r == (if a >= b { a - b } else { 0 }) { if a >= b { a - b } else { 0 } }
// number of elements visited by `.step_by(s)` over `len` elements: the unique r with (r-1)*s < len <= r*s (0 for len = 0)
pub open spec fn vdiv_ceil_spec(len: int, s: int) -> int { if len <= 0 { 0 } else { (len - 1) / s + 1 } }
pub proof fn lemma_div_ceil_exact(len: int, s: int, r: int)
    requires s > 0, r >= 0, len == r * s
    ensures vdiv_ceil_spec(len, s) == r
{
    if len > 0 {
        assert(r >= 1) by (nonlinear_arith) requires len == r * s, len > 0, s > 0, r >= 0;
        assert(len - 1 == s * (r - 1) + (s - 1)) by (nonlinear_arith) requires len == r * s;
        vstd::arithmetic::div_mod::lemma_fundamental_div_mod_converse(len - 1, s, r - 1, s - 1);
    } else {
        assert(r == 0) by (nonlinear_arith) requires len == r * s, len <= 0, s > 0, r >= 0;
    }
}
pub fn vdiv_ceil(len: usize, s: usize) -> (r: usize)
    requires s > 0
    ensures r == vdiv_ceil_spec(len as int, s as int), r <= len, len > 0 ==> r > 0,
        r > 0 ==> ((r - 1) * (s as int)) < len, len <= (r as int) * (s as int)
{
    if len == 0 { return 0; }
    let q = (len - 1) / s;
    proof {
        vstd::arithmetic::div_mod::lemma_fundamental_div_mod((len - 1) as int, s as int);
        vstd::arithmetic::div_mod::lemma_mod_bound((len - 1) as int, s as int);
        let m = ((len - 1) as int) % (s as int);
        assert((len - 1) == (s as int) * (q as int) + m);
        assert((q as int) * (s as int) == (s as int) * (q as int)) by (nonlinear_arith);
        assert(((q + 1) as int) * (s as int) == (s as int) * (q as int) + s) by (nonlinear_arith);
        assert(q <= len - 1) by (nonlinear_arith) requires (len - 1) == (s as int) * (q as int) + m, s >= 1, m >= 0, q >= 0;
    }
    q + 1
}

pub open spec fn smin(a: int, b: int) -> int { if a <= b { a } else { b } }
pub open spec fn smax(a: int, b: int) -> int { if a >= b { a } else { b } }
pub open spec fn p2(k: nat) -> int decreases k { if k == 0 { 1 } else { 2 * p2((k - 1) as nat) } }
pub proof fn lemma_p2_pos(a: nat) ensures p2(a) > 0 decreases a { if a > 0 { lemma_p2_pos((a - 1) as nat); } }
pub proof fn lemma_p2_add(a: nat, b: nat) ensures p2(a + b) == p2(a) * p2(b) decreases a
{
    if a > 0 {
        lemma_p2_add((a - 1) as nat, b);
        assert(p2(a + b) == 2 * p2((a - 1 + b) as nat));
        assert(2 * (p2((a - 1) as nat) * p2(b)) == (2 * p2((a - 1) as nat)) * p2(b)) by (nonlinear_arith);
    } else {
        assert(p2(0) * p2(b) == p2(b)) by (nonlinear_arith) requires p2(0) == 1;
    }
}
pub open spec fn zeros(n: nat) -> Seq<i64> { Seq::new(n, |k: int| 0i64) }
