#!/usr/bin/env python3
"""Generates vx/units/glwe_ops.vx (the invariants of the GLWE wrappers are the same text up to the per-operation column spec).
Run:  python3 vx/gen/glwe_ops_gen.py     (the generated .vx is committed; this script is only a convenience)"""
import os
ROOT = os.path.dirname(os.path.dirname(os.path.abspath(__file__)))

HEAD = open(os.path.join(ROOT, 'gen', 'glwe_ops_head.vx')).read()
AFTER_RES = """//@after "let res: &mut GLWE<&mut [u8]> = &mut res.to_mut();"
        let ghost fut = final(res.data.data)@;
"""
AFTER_RES2 = """//@after "let res = &mut res.to_mut();"
        let ghost fut = final(res.data.data)@;
"""
TOP = """//@top
        let ghost G0 = gowner_limbs(old(res)); let ghost g_n = old(res).gm_n(); let ghost g_cols = old(res).gm_cols(); let ghost g_size = old(res).gm_size(); let ghost rb = old(res).gm_base2k().0;
"""
def rinv(cs, inplace):
    s = """res.data.wf(), final(res.data.data)@ == fut, res.data.n == g_n, res.data.cols == g_cols, res.data.size == g_size, g_n == self.sn(), 1 <= g_cols <= u32::MAX,
                forall|i2: int, jj: int| 0 <= i2 < g_cols && jj >= g_size ==> #[trigger] res.data.limb(i2, jj) == G0(i2, jj),
                forall|i2: int, jj: int| 0 <= i2 < i && 0 <= jj < g_size ==> %s,""" % cs('#[trigger] res.data.limb(i2, jj)', 'i2', 'jj')
    if inplace:
        s += """
                forall|i2: int, jj: int| i <= i2 < g_cols && 0 <= jj ==> #[trigger] res.data.limb(i2, jj) == G0(i2, jj),"""
    return s
def lend(cs, inplace, hint=''):
    s = """                proof {
                    let Q = owner_limbs(&res.data);
                    assert forall|i2: int, jj: int| 0 <= i2 < g_cols && jj >= g_size implies #[trigger] res.data.limb(i2, jj) == G0(i2, jj) by { assert(Q(i2, jj) == P(i2, jj)); }
"""
    if inplace:
        s += """                    assert forall|i2: int, jj: int| i + 1 <= i2 < g_cols && 0 <= jj implies #[trigger] res.data.limb(i2, jj) == G0(i2, jj) by { assert(Q(i2, jj) == P(i2, jj)); }
"""
    s += """                    assert forall|i2: int, jj: int| 0 <= i2 < i + 1 && 0 <= jj < g_size implies %s by {
                        if i2 < i { assert(Q(i2, jj) == P(i2, jj)); } else { assert(Q(i2, jj) == res.data.smut_limb(i as int, jj)); %s %s }
                    }
                }
""" % (cs('#[trigger] res.data.limb(i2, jj)', 'i2', 'jj'), 'assert(P(i2, jj) == G0(i2, jj));' if inplace else '', hint)
    return s
def loops(cs, invs, inplace, hint=''):
    out = ''
    for k, inv in enumerate(invs, 1):
        out += '//@loop %d iter=it\n            invariant %s\n                %s\n' % (k, inv, rinv(cs, inplace))
        out += '//@loop_start %d\n                let ghost P = owner_limbs(&res.data);\n//@loop_end %d\n%s' % (k, k, lend(cs, inplace, hint))
    out += '//@expect_loops %d\n' % len(invs)
    return out
def end(cs):
    return """//@end_body
        proof {
            assert(res.data.data@ == fut);
            assert forall|i2: int, jj: int| 0 <= i2 < g_cols && 0 <= jj < g_size implies %s by {
                assert(limb_of(v64(fut), g_n as int, g_cols as int, i2, jj) == res.data.limb(i2, jj));
            }
            assert forall|i2: int, jj: int| 0 <= i2 < g_cols && jj >= g_size implies #[trigger] limb_of(v64(fut), g_n as int, g_cols as int, i2, jj) == G0(i2, jj) by {
                assert(limb_of(v64(fut), g_n as int, g_cols as int, i2, jj) == res.data.limb(i2, jj));
            }
        }
//@end
""" % cs('#[trigger] limb_of(v64(fut), g_n as int, g_cols as int, i2, jj)', 'i2', 'jj')
REQ_RES = 'old(res).gm_wf(), 1 <= old(res).gm_cols() <= u32::MAX, old(res).gm_n() <= u32::MAX, self.sn() <= u32::MAX, old(res).gm_n() == self.sn()'
ENS_RES = """final(res).gm_n() == old(res).gm_n(), final(res).gm_cols() == old(res).gm_cols(), final(res).gm_size() == old(res).gm_size(), final(res).gm_wf(),
            final(res).gm_base2k() == old(res).gm_base2k(),
            forall|i: int, jj: int| 0 <= i < old(res).gm_cols() && jj >= old(res).gm_size() ==> #[trigger] final(res).gm_limb(i, jj) == old(res).gm_limb(i, jj)"""
def ens_cols(cs_final):
    return """            forall|i: int, jj: int| 0 <= i < old(res).gm_cols() && 0 <= jj < old(res).gm_size() ==>
                %s,""" % cs_final

def fn(trait_hdr, name, requires, ens, ghosts, cs, invs, inplace, after=AFTER_RES, path='poulpy-core/src/api/operations.rs', hint=''):
    """one extracted wrapper"""
    s = '//@extract %s::%s impl="%s"\n//@spec\n        requires %s,\n%s\n        ensures %s,\n%s\n' % (path, name, trait_hdr, REQ_RES, requires, ENS_RES, ens_cols(ens))
    s += TOP + ghosts + after + loops(cs, invs, inplace, hint) + end(cs)
    return s

U = HEAD
A_OK = 'glwe_ok(a.gref()), a.gref().data.n == self.sn()'
AINV = '*a == A0, glwe_ok(A0), A0.data.n == g_n,'
# ------------------------------------------------------------------ GLWEAdd
cs_add = lambda L, i, j: 'glwe_add_col_ok(%s, A0.data, B0.data, %s, %s, g_n as int)' % (L, i, j)
binv = """*a == A0, *b == B0, glwe_ok(A0), glwe_ok(B0), A0.data.n == g_n, B0.data.n == g_n,
                min_col == smin(A0.data.cols as int, B0.data.cols as int), max_col == smax(A0.data.cols as int, B0.data.cols as int), self_col == g_cols, max_col <= self_col,
                forall|i2: int, jj: int| 0 <= i2 < A0.data.cols && i2 < B0.data.cols && 0 <= jj < A0.data.size && jj < B0.data.size && jj < g_size ==>
                    %s(#[trigger] A0.data.limb(i2, jj), B0.data.limb(i2, jj)),"""
U += '\npub trait GLWEAdd: ModuleN + VecZnxAddInto + VecZnxCopy + VecZnxAddAssign + VecZnxZero {\n'
U += fn('pub trait GLWEAdd', 'glwe_add_into',
    """            glwe_ok(a.gref()), glwe_ok(b.gref()),
            // admissible call (the asserts of the real code): equal ring degree and radix, ranks equal or one operand of rank 0
            a.gref().data.n == self.sn(), b.gref().data.n == self.sn(), a.gref().base2k == b.gref().base2k, old(res).gm_base2k() == b.gref().base2k,
            rank_rule(old(res).gm_cols() as int, a.gref().data.cols as int, b.gref().data.cols as int),
            forall|i: int, jj: int| 0 <= i < a.gref().data.cols && i < b.gref().data.cols && 0 <= jj < a.gref().data.size && jj < b.gref().data.size && jj < old(res).gm_size() ==>
                add_fits(#[trigger] a.gref().data.limb(i, jj), b.gref().data.limb(i, jj)),""",
    'glwe_add_col_ok(#[trigger] final(res).gm_limb(i, jj), a.gref().data, b.gref().data, i, jj, old(res).gm_n() as int)',
    '        let ghost A0 = a.gref(); let ghost B0 = b.gref();\n', cs_add,
    ['it.iter.end == min_col, ' + binv % 'add_fits',
     'it.iter.end == max_col, it.iter.start >= min_col, A0.data.cols > B0.data.cols, ' + binv % 'add_fits',
     'it.iter.end == max_col, it.iter.start >= min_col, A0.data.cols <= B0.data.cols, ' + binv % 'add_fits',
     'it.iter.end == self_col, it.iter.start >= max_col, ' + binv % 'add_fits'], False)
cs = lambda L, i, j: 'glwe_add_assign_col_ok(%s, G0(%s, %s), A0.data, %s, %s)' % (L, i, j, i, j)
U += '\n' + fn('pub trait GLWEAdd', 'glwe_add_assign',
    """            %s, old(res).gm_base2k() == a.gref().base2k, old(res).gm_cols() >= a.gref().data.cols,
            forall|i: int, jj: int| 0 <= i < a.gref().data.cols && 0 <= jj < a.gref().data.size && jj < old(res).gm_size() ==> add_fits(#[trigger] old(res).gm_limb(i, jj), a.gref().data.limb(i, jj)),""" % A_OK,
    'glwe_add_assign_col_ok(#[trigger] final(res).gm_limb(i, jj), old(res).gm_limb(i, jj), a.gref().data, i, jj)',
    '        let ghost A0 = a.gref();\n', cs,
    ["""it.iter.end == A0.data.cols, %s A0.data.cols <= g_cols,
                forall|i2: int, jj: int| 0 <= i2 < A0.data.cols && 0 <= jj < A0.data.size && jj < g_size ==> add_fits(#[trigger] G0(i2, jj), A0.data.limb(i2, jj)),""" % AINV], True)
U += '}\n'
# ------------------------------------------------------------------ GLWENegate
U += '\npub trait GLWENegate: VecZnxNegate + VecZnxNegateAssign + VecZnxZero + ModuleN {\n'
cs = lambda L, i, j: 'negate_ok(%s, A0.data, %s, %s, g_n as int)' % (L, i, j)
U += fn('pub trait GLWENegate', 'glwe_negate',
    """            %s, a.gref().data.cols == old(res).gm_cols(), cols_no_min(a.gref().data),
            // NOT asserted by the real code, but needed for the result to mean anything: `res.base2k = a.base2k` is assigned on the to_mut() view, which
            // holds the radix by value, so the owner keeps its own radix (observation recorded in DESIGN.md)
            old(res).gm_base2k() == a.gref().base2k,""" % A_OK,
    'negate_ok(#[trigger] final(res).gm_limb(i, jj), a.gref().data, i, jj, old(res).gm_n() as int)',
    '        let ghost A0 = a.gref();\n', cs,
    ['it.iter.end == cols, cols == g_cols, %s A0.data.cols == g_cols, cols_no_min(A0.data),' % AINV], False)
cs = lambda L, i, j: 'is_neg(%s, G0(%s, %s))' % (L, i, j)
U += '\n' + fn('pub trait GLWENegate', 'glwe_negate_assign',
    '            owner_no_min(old(res)),',
    'is_neg(#[trigger] final(res).gm_limb(i, jj), old(res).gm_limb(i, jj))',
    '', cs,
    ['it.iter.end == cols, cols == g_cols, forall|i2: int, jj: int| 0 <= i2 < g_cols && 0 <= jj < g_size ==> no_min(#[trigger] G0(i2, jj)),'], True)
U += '}\n'
# ------------------------------------------------------------------ GLWESub
U += '\npub trait GLWESub: ModuleN + VecZnxSub + VecZnxCopy + VecZnxNegate + VecZnxNegateAssign + VecZnxZero + VecZnxSubAssign + VecZnxSubNegateAssign {\n'
cs_sub = lambda L, i, j: 'glwe_sub_col_ok(%s, A0.data, B0.data, %s, %s, g_n as int)' % (L, i, j)
binv_s = binv % 'sub_fits' + ' cols_no_min(B0.data),'
U += fn('pub trait GLWESub', 'glwe_sub',
    """            glwe_ok(a.gref()), glwe_ok(b.gref()), cols_no_min(b.gref().data),
            a.gref().data.n == self.sn(), b.gref().data.n == self.sn(), a.gref().base2k == old(res).gm_base2k(), b.gref().base2k == old(res).gm_base2k(),
            rank_rule(old(res).gm_cols() as int, a.gref().data.cols as int, b.gref().data.cols as int),
            forall|i: int, jj: int| 0 <= i < a.gref().data.cols && i < b.gref().data.cols && 0 <= jj < a.gref().data.size && jj < b.gref().data.size && jj < old(res).gm_size() ==>
                sub_fits(#[trigger] a.gref().data.limb(i, jj), b.gref().data.limb(i, jj)),""",
    'glwe_sub_col_ok(#[trigger] final(res).gm_limb(i, jj), a.gref().data, b.gref().data, i, jj, old(res).gm_n() as int)',
    '        let ghost A0 = a.gref(); let ghost B0 = b.gref();\n', cs_sub,
    ['it.iter.end == min_col, ' + binv_s,
     'it.iter.end == max_col, it.iter.start >= min_col, A0.data.cols > B0.data.cols, ' + binv_s,
     'it.iter.end == max_col, it.iter.start >= min_col, A0.data.cols <= B0.data.cols, ' + binv_s,
     'it.iter.end == self_col, it.iter.start >= max_col, ' + binv_s], False)
cs = lambda L, i, j: 'glwe_sub_assign_col_ok(%s, G0(%s, %s), A0.data, %s, %s)' % (L, i, j, i, j)
U += '\n' + fn('pub trait GLWESub', 'glwe_sub_assign',
    """            %s, old(res).gm_base2k() == a.gref().base2k, old(res).gm_cols() == a.gref().data.cols || a.gref().data.cols == 1,
            forall|i: int, jj: int| 0 <= i < a.gref().data.cols && 0 <= jj < a.gref().data.size && jj < old(res).gm_size() ==> sub_fits(#[trigger] old(res).gm_limb(i, jj), a.gref().data.limb(i, jj)),""" % A_OK,
    'glwe_sub_assign_col_ok(#[trigger] final(res).gm_limb(i, jj), old(res).gm_limb(i, jj), a.gref().data, i, jj)',
    '        let ghost A0 = a.gref();\n', cs,
    ["""it.iter.end == A0.data.cols, %s A0.data.cols <= g_cols,
                forall|i2: int, jj: int| 0 <= i2 < A0.data.cols && 0 <= jj < A0.data.size && jj < g_size ==> sub_fits(#[trigger] G0(i2, jj), A0.data.limb(i2, jj)),""" % AINV], True)
cs = lambda L, i, j: 'glwe_sub_negate_assign_col_ok(%s, G0(%s, %s), A0.data, %s, %s)' % (L, i, j, i, j)
sninv = """%s A0.data.cols <= g_cols,
                forall|i2: int, jj: int| 0 <= i2 < A0.data.cols && 0 <= jj < A0.data.size && jj < g_size ==> sub_fits(A0.data.limb(i2, jj), #[trigger] G0(i2, jj)),
                forall|i2: int, jj: int| 0 <= i2 < g_cols && 0 <= jj < g_size ==> no_min(#[trigger] G0(i2, jj)),""" % AINV
U += '\n' + fn('pub trait GLWESub', 'glwe_sub_negate_assign',
    """            %s, old(res).gm_base2k() == a.gref().base2k, old(res).gm_cols() == a.gref().data.cols || a.gref().data.cols == 1, owner_no_min(old(res)),
            forall|i: int, jj: int| 0 <= i < a.gref().data.cols && 0 <= jj < a.gref().data.size && jj < old(res).gm_size() ==> sub_fits(a.gref().data.limb(i, jj), #[trigger] old(res).gm_limb(i, jj)),""" % A_OK,
    'glwe_sub_negate_assign_col_ok(#[trigger] final(res).gm_limb(i, jj), old(res).gm_limb(i, jj), a.gref().data, i, jj)',
    '        let ghost A0 = a.gref();\n', cs,
    ['it.iter.end == A0.data.cols, ' + sninv, 'it.iter.end == res.data.cols, A0.data.cols <= i, ' + sninv], True)
U += '}\n'
# ------------------------------------------------------------------ GLWERotate / GLWEMulXpMinusOne
# two copies of the same text exist in the real crate: the public API trait's default methods (api/operations.rs) and the `*Default` traits
# (operations/glwe.rs) that `Module<BE>` actually dispatches to through CoreImpl; both are extracted and verified.
def rotate_family(path, rot_hdr, rot_decl, mul_hdr, mul_decl):
    U = ''
    U += '\npub trait %s: ModuleN + VecZnxRotate + VecZnxRotateAssign<BE> + VecZnxRotateAssignTmpBytes + VecZnxZero {\n' % rot_decl
    U += """//@extract %s::glwe_rotate_tmp_bytes impl="%s" ret=r
//@spec
        requires self.sn() <= 0x1000_0000 ensures r == self.sn() * 8
//@end
""" % (path, rot_hdr)
    cs = lambda L, i, j: 'glwe_rotate_col_ok(%s, A0.data, %s, %s, g_n as int, k as int)' % (L, i, j)
    rinv_ = '%s cols_no_min(A0.data), ring_n(g_n), a_cols == A0.data.cols, res_cols == g_cols, a_cols <= res_cols,' % AINV
    U += fn(rot_hdr, 'glwe_rotate',
        '            %s, cols_no_min(a.gref().data), ring_n(self.sn()), old(res).gm_cols() == a.gref().data.cols || a.gref().data.cols == 1,' % A_OK,
        'glwe_rotate_col_ok(#[trigger] final(res).gm_limb(i, jj), a.gref().data, i, jj, old(res).gm_n() as int, k as int)',
        '        let ghost A0 = a.gref();\n', cs,
        ['it.iter.end == a_cols, ' + rinv_, 'it.iter.end == res_cols, a_cols <= i, ' + rinv_], False, path=path)
    cs = lambda L, i, j: 'is_rot(%s, G0(%s, %s), k as int)' % (L, i, j)
    U += '\n' + fn(rot_hdr, 'glwe_rotate_assign',
        '            owner_no_min(old(res)), ring_n(self.sn()), old(scratch).avail >= self.sn() * 8,   // C12: exactly glwe_rotate_tmp_bytes() suffices',
        'is_rot(#[trigger] final(res).gm_limb(i, jj), old(res).gm_limb(i, jj), k as int)',
        '', cs,
        ['it.iter.end == g_cols, ring_n(g_n), scratch.avail >= g_n * 8, forall|i2: int, jj: int| 0 <= i2 < g_cols && 0 <= jj < g_size ==> no_min(#[trigger] G0(i2, jj)),'], True, path=path)
    U += '}\n'
    U += '\npub trait %s: ModuleN + VecZnxMulXpMinusOne + VecZnxMulXpMinusOneAssign<BE> {\n' % mul_decl
    cs = lambda L, i, j: 'mul_xp_ok(%s, A0.data, %s, %s, g_n as int, k as int)' % (L, i, j)
    U += fn(mul_hdr, 'glwe_mul_xp_minus_one',
        """            %s, ring_n(self.sn()), old(res).gm_cols() == a.gref().data.cols,
                forall|i: int, jj: int| 0 <= i < a.gref().data.cols && 0 <= jj < a.gref().data.size ==> no_min(#[trigger] a.gref().data.limb(i, jj)) && rot_minus_fits(a.gref().data.limb(i, jj), k as int),""" % A_OK,
        'mul_xp_ok(#[trigger] final(res).gm_limb(i, jj), a.gref().data, i, jj, old(res).gm_n() as int, k as int)',
        '        let ghost A0 = a.gref();\n', cs,
        ["""it.iter.end == g_cols, %s ring_n(g_n), A0.data.cols == g_cols,
                    forall|i2: int, jj: int| 0 <= i2 < A0.data.cols && 0 <= jj < A0.data.size ==> no_min(#[trigger] A0.data.limb(i2, jj)) && rot_minus_fits(A0.data.limb(i2, jj), k as int),""" % AINV], False, path=path)
    cs = lambda L, i, j: 'is_rot_minus(%s, G0(%s, %s), k as int)' % (L, i, j)
    U += '\n' + fn(mul_hdr, 'glwe_mul_xp_minus_one_assign',
        """            ring_n(self.sn()), old(scratch).avail >= self.sn() * 8,
                forall|i: int, jj: int| 0 <= i < old(res).gm_cols() && 0 <= jj < old(res).gm_size() ==> no_min(#[trigger] old(res).gm_limb(i, jj)) && rot_minus_fits(old(res).gm_limb(i, jj), k as int),""",
        'is_rot_minus(#[trigger] final(res).gm_limb(i, jj), old(res).gm_limb(i, jj), k as int)',
        '', cs,
        ["""it.iter.end == g_cols, ring_n(g_n), scratch.avail >= g_n * 8,
                    forall|i2: int, jj: int| 0 <= i2 < g_cols && 0 <= jj < g_size ==> no_min(#[trigger] G0(i2, jj)) && rot_minus_fits(G0(i2, jj), k as int),"""], True, path=path)
    U += '}\n'

    return U
U += rotate_family('poulpy-core/src/api/operations.rs', 'pub trait GLWERotate<BE: Backend>', 'GLWERotate<BE: Backend>', 'pub trait GLWEMulXpMinusOne<BE: Backend>', 'GLWEMulXpMinusOne<BE: Backend>')
U += rotate_family('poulpy-core/src/operations/glwe.rs', 'pub trait GLWERotateDefault<BE: Backend>', 'GLWERotateDefault<BE: Backend>', 'pub trait GLWEMulXpMinusOneDefault<BE: Backend>', 'GLWEMulXpMinusOneDefault<BE: Backend>')
# ------------------------------------------------------------------ GLWEShift / GLWENormalize (HAL value contracts abstract: column delegation, rank rule, frame, scratch)
OCOL_HINT = 'assert(ocol(P, i as int, g_size as int) =~= ocol(G0, i as int, g_size as int));'
def shift_family(path, sh_hdr, sh_decl, nz_hdr, nz_decl, tmp_suffix):
    U = '\npub trait %s: ModuleN + VecZnxRshAssign<BE> + VecZnxLshAddInto<BE> + VecZnxLshSub<BE> + VecZnxRshTmpBytes + VecZnxLshTmpBytes + VecZnxLshAssign<BE> + VecZnxLsh<BE> + VecZnxZero {\n' % sh_decl
    U += """//@extract %s::glwe_shift_tmp_bytes impl="%s" ret=r
//@spec
        requires self.sn() <= 0x1000_0000 ensures r == 2 * self.sn() * 8
//@end
""" % (path, sh_hdr)
    SC = 'self.sn() <= 0x1000_0000, old(scratch).avail >= 2 * self.sn() * 8, 1 <= old(res).gm_base2k().0 <= 62,   // C12: exactly glwe_shift_tmp_bytes() suffices'
    SI = 'g_n <= 0x1000_0000, scratch.avail >= 2 * g_n * 8, 1 <= base2k <= 62,'
    cs = lambda L, i, j: '%s == hal_rsh_assign(base2k as int, k as int, ocol(G0, %s, g_size as int), %s)' % (L, i, j)
    U += fn(sh_hdr, 'glwe_rsh', '            ' + SC,
        'final(res).gm_limb(i, jj) == hal_rsh_assign(old(res).gm_base2k().0 as int, k as int, ocol(gowner_limbs(old(res)), i, old(res).gm_size() as int), jj)',
        '', lambda L, i, j: '%s == hal_rsh_assign(base2k as int, k as int, ocol(G0, %s, g_size as int), %s)' % (L.replace('#[trigger] ', '#[trigger] '), i, j),
        ['it.iter.end == g_cols, base2k == rb, ' + SI], True, after=AFTER_RES2, path=path, hint=OCOL_HINT)
    U += '\n' + fn(sh_hdr, 'glwe_lsh_assign', '            ' + SC,
        'final(res).gm_limb(i, jj) == hal_lsh_assign(old(res).gm_base2k().0 as int, k as int, ocol(gowner_limbs(old(res)), i, old(res).gm_size() as int), jj)',
        '', lambda L, i, j: '%s == hal_lsh_assign(base2k as int, k as int, ocol(G0, %s, g_size as int), %s)' % (L, i, j),
        ['it.iter.end == g_cols, base2k == rb, ' + SI], True, after=AFTER_RES2, path=path, hint=OCOL_HINT)
    AREQ = '            %s, %s, old(res).gm_base2k() == a.gref().base2k, old(res).gm_cols() >= a.gref().data.cols,' % (SC.split('   //')[0].rstrip().rstrip(','), A_OK)
    U += '\n' + fn(sh_hdr, 'glwe_lsh', AREQ,
        'final(res).gm_limb(i, jj) == (if i < a.gref().data.cols { hal_lsh(old(res).gm_base2k().0 as int, k as int, acol(a.gref().data, i), old(res).gm_size() as int, jj) } else { zeros(old(res).gm_n() as nat) })',
        '        let ghost A0 = a.gref();\n', lambda L, i, j: '%s == (if %s < A0.data.cols { hal_lsh(base2k as int, k as int, acol(A0.data, %s), g_size as int, %s) } else { zeros(g_n as nat) })' % (L, i, i, j),
        ['it.iter.end == a_cols, a_cols == A0.data.cols, a_cols <= g_cols, base2k == rb, %s %s' % (AINV, SI),
         'it.iter.end == res.data.cols, a_cols <= i, a_cols == A0.data.cols, a_cols <= g_cols, base2k == rb, %s %s' % (AINV, SI)], False, after=AFTER_RES2, path=path,
        hint='if i >= a_cols { assert(res.data.smut_limb(i as int, jj) =~= zeros(g_n as nat)); }')
    for nm, sub in (('glwe_lsh_add', 'false'), ('glwe_lsh_sub', 'true')):
        U += '\n' + fn(sh_hdr, nm, AREQ,
            'final(res).gm_limb(i, jj) == (if i < a.gref().data.cols { hal_lsh_acc(%s, old(res).gm_base2k().0 as int, k as int, ocol(gowner_limbs(old(res)), i, old(res).gm_size() as int), acol(a.gref().data, i), jj) } else { old(res).gm_limb(i, jj) })' % sub,
            '        let ghost A0 = a.gref();\n', lambda L, i, j, sub=sub: '%s == (if %s < A0.data.cols { hal_lsh_acc(%s, base2k as int, k as int, ocol(G0, %s, g_size as int), acol(A0.data, %s), %s) } else { G0(%s, %s) })' % (L, i, sub, i, i, j, i, j),
            ['it.iter.end == A0.data.cols, A0.data.cols <= g_cols, base2k == rb, %s %s' % (AINV, SI)], True, after=AFTER_RES2, path=path, hint=OCOL_HINT)
    U += '}\n'
    U += '\npub trait %s: ModuleN + VecZnxNormalize<BE> + VecZnxNormalizeAssign<BE> + VecZnxNormalizeTmpBytes {\n' % nz_decl
    U += """//@extract %s::glwe_normalize_tmp_bytes impl="%s" ret=r
//@spec
        requires self.sn() <= 0x1000_0000 ensures r == 3 * self.sn() * 8
//@end
""" % (path, nz_hdr)
    NC = 'self.sn() <= 0x1000_0000, old(scratch).avail >= 3 * self.sn() * 8, 1 <= old(res).gm_base2k().0 <= 62'
    U += fn(nz_hdr, 'glwe_normalize', '            %s, %s, old(res).gm_cols() == a.gref().data.cols, 1 <= a.gref().base2k.0 <= 62,' % (NC, A_OK),
        'final(res).gm_limb(i, jj) == hal_normalize(old(res).gm_base2k().0 as int, 0, a.gref().base2k.0 as int, acol(a.gref().data, i), old(res).gm_size() as int, jj)',
        '        let ghost A0 = a.gref();\n', lambda L, i, j: '%s == hal_normalize(rb as int, 0, A0.base2k.0 as int, acol(A0.data, %s), g_size as int, %s)' % (L, i, j),
        ['it.iter.end == g_cols, A0.data.cols == g_cols, res_base2k == rb, 1 <= rb <= 62, 1 <= A0.base2k.0 <= 62, g_n <= 0x1000_0000, scratch.avail >= 3 * g_n * 8, %s' % AINV], False, path=path)
    U += '\n' + fn(nz_hdr, 'glwe_normalize_assign', '            %s,' % NC,
        'final(res).gm_limb(i, jj) == hal_normalize_assign(old(res).gm_base2k().0 as int, ocol(gowner_limbs(old(res)), i, old(res).gm_size() as int), jj)',
        '', lambda L, i, j: '%s == hal_normalize_assign(rb as int, ocol(G0, %s, g_size as int), %s)' % (L, i, j),
        ['it.iter.end == g_cols, res.base2k.0 == rb, 1 <= rb <= 62, g_n <= 0x1000_0000, scratch.avail >= 3 * g_n * 8,'], True, path=path, hint=OCOL_HINT)
    U += '}\n'
    return U
U += shift_family('poulpy-core/src/api/operations.rs', 'pub trait GLWEShift<BE: Backend>', 'GLWEShift<BE: Backend>', 'pub trait GLWENormalize<BE: Backend>', 'GLWENormalize<BE: Backend>', '')
U += shift_family('poulpy-core/src/operations/glwe.rs', 'pub trait GLWEShiftDefault<BE: Backend>', 'GLWEShiftDefault<BE: Backend>', 'pub trait GLWENormalizeDefault<BE: Backend>', 'GLWENormalizeDefault<BE: Backend>', '')
# ------------------------------------------------------------------ GLWECopy
U += '\npub trait GLWECopy: ModuleN + VecZnxCopy + VecZnxZero {\n'
cs = lambda L, i, j: 'glwe_copy_col_ok(%s, A0.data, %s, %s, g_n as int)' % (L, i, j)
cinv = '%s min_rank == A0.data.cols, A0.data.cols <= g_cols,' % AINV
U += fn('pub trait GLWECopy', 'glwe_copy',
    '            %s, old(res).gm_cols() == a.gref().data.cols || a.gref().data.cols == 1,' % A_OK,
    'glwe_copy_col_ok(#[trigger] final(res).gm_limb(i, jj), a.gref().data, i, jj, old(res).gm_n() as int)',
    '        let ghost A0 = a.gref();\n', cs,
    ['it.iter.end == min_rank, ' + cinv, 'it.iter.end == res.data.cols, min_rank <= i, ' + cinv], False)
U += '}\n'
open(os.path.join(ROOT, 'units', 'glwe_ops.vx'), 'w').write(U + '\n//@include prelude/tail.rs\n')
print('glwe_ops.vx written')
