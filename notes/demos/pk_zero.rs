// Regression test: public-key encryption under a public key whose secret distribution is
// `Distribution::ZERO` must use the zero polynomial as the ephemeral `u`, whatever bytes the
// scratch arena holds on entry.
//
// Where it goes : poulpy-cpu-ref/tests/pk_zero.rs (integration test of the poulpy-cpu-ref crate)
// How to run    : cargo test -p poulpy-cpu-ref --test pk_zero --offline -j 4 -- --nocapture
//
// Modelled on `poulpy_core::test_suite::encryption::test_glwe_encrypt_pk` (same ring degree and
// base2k as the FFT64Ref instantiation of the suite in poulpy-cpu-ref/src/tests.rs, same layout,
// same seeds, same noise bound).
//
// For each rank in {1, 2} and each secret kind (zero, ternary) the same plaintext is encrypted from
// identical seeds three times:
//   clean  : freshly allocated (all zero) scratch arena,
//   dirty  : scratch arena with every byte set to 0x5a,
//   reused : scratch arena that was last used by a public-key encryption under a ternary key
//            of the same layout (the realistic way an arena gets dirty).
// Every ciphertext must be bit-for-bit equal to the clean one and must decrypt, under the secret the
// public key was generated from, to the plaintext within the suite's noise bound.

use poulpy_core::{
    DEFAULT_SIGMA_XE, EncryptionLayout, GLWEEncryptPk, GLWENoise, GLWEPublicKeyGenerate,
    layouts::{
        GLWE, GLWELayout, GLWEPlaintext, GLWEPublicKey, GLWEPublicKeyPrepared, GLWEPublicKeyPreparedFactory, GLWESecret,
        GLWESecretPrepared, GLWESecretPreparedFactory,
    },
};
use poulpy_cpu_ref::FFT64Ref;
use poulpy_hal::{
    api::{ModuleNew, ScratchOwnedAlloc, ScratchOwnedBorrow, VecZnxFillUniform},
    layouts::{DeviceBuf, Module, ScratchOwned, ZnxInfos, ZnxView},
    source::Source,
};

use std::panic::{AssertUnwindSafe, catch_unwind};

type BE = FFT64Ref;

const N: usize = 1 << 8;
const BASE2K: usize = 17;
const K_CT: usize = BASE2K * 4 + 1;

#[derive(Clone, Copy, Debug, PartialEq)]
enum SecretKind {
    Zero,
    Ternary,
}

#[derive(Clone, Copy, Debug, PartialEq)]
enum ScratchState {
    Clean,
    Dirty(u8),
    Reused,
}

struct Outcome {
    ct: GLWE<Vec<u8>>,
    noise_log2: f64,
}

fn layout(rank: usize) -> EncryptionLayout<GLWELayout> {
    EncryptionLayout::new_from_default_sigma(GLWELayout {
        n: (N as u32).into(),
        base2k: (BASE2K as u32).into(),
        k: (K_CT as u32).into(),
        rank: (rank as u32).into(),
    })
    .unwrap()
}

fn noise_bound_log2(rank: usize) -> f64 {
    // Bound of poulpy_core::test_suite::encryption::test_glwe_encrypt_pk.
    ((((rank as f64) + 1.0) * N as f64 * 0.5 * DEFAULT_SIGMA_XE * DEFAULT_SIGMA_XE).sqrt()).log2() - (K_CT as f64)
}

/// Runs one public-key encryption under a ternary key to leave its temporaries in `scratch`.
fn use_scratch_for_ternary_pk_encryption(module: &Module<BE>, rank: usize, scratch: &mut ScratchOwned<BE>) {
    let glwe_infos = layout(rank);

    let mut source_xs: Source = Source::new([7u8; 32]);
    let mut source_xe: Source = Source::new([8u8; 32]);
    let mut source_xa: Source = Source::new([9u8; 32]);
    let mut source_xu: Source = Source::new([10u8; 32]);

    let mut sk: GLWESecret<Vec<u8>> = GLWESecret::alloc_from_infos(&glwe_infos);
    sk.fill_ternary_prob(0.5, &mut source_xs);
    let mut sk_prepared: GLWESecretPrepared<DeviceBuf<BE>, BE> = module.glwe_secret_prepared_alloc((rank as u32).into());
    module.glwe_secret_prepare(&mut sk_prepared, &sk);

    let mut pk: GLWEPublicKey<Vec<u8>> = GLWEPublicKey::alloc_from_infos(&glwe_infos);
    module.glwe_public_key_generate(&mut pk, &sk_prepared, &glwe_infos, &mut source_xe, &mut source_xa);
    let mut pk_prepared: GLWEPublicKeyPrepared<DeviceBuf<BE>, BE> = module.glwe_public_key_prepared_alloc_from_infos(&glwe_infos);
    module.glwe_public_key_prepare(&mut pk_prepared, &pk);

    let mut pt: GLWEPlaintext<Vec<u8>> = GLWEPlaintext::alloc_from_infos(&glwe_infos);
    module.vec_znx_fill_uniform(BASE2K, &mut pt.data, 0, &mut source_xa);

    let mut ct: GLWE<Vec<u8>> = GLWE::alloc_from_infos(&glwe_infos);
    module.glwe_encrypt_pk(
        &mut ct,
        &pt,
        &pk_prepared,
        &glwe_infos,
        &mut source_xu,
        &mut source_xe,
        scratch.borrow(),
    );
}

fn encrypt_pk_once(module: &Module<BE>, rank: usize, kind: SecretKind, state: ScratchState) -> Outcome {
    let glwe_infos = layout(rank);

    let mut ct: GLWE<Vec<u8>> = GLWE::alloc_from_infos(&glwe_infos);
    let mut pt_want: GLWEPlaintext<Vec<u8>> = GLWEPlaintext::alloc_from_infos(&glwe_infos);

    // Identical seeds in every run.
    let mut source_xs: Source = Source::new([0u8; 32]);
    let mut source_xe: Source = Source::new([0u8; 32]);
    let mut source_xa: Source = Source::new([0u8; 32]);
    let mut source_xu: Source = Source::new([0u8; 32]);

    let scratch_bytes: usize = module
        .glwe_noise_tmp_bytes(&glwe_infos)
        .max(module.glwe_encrypt_pk_tmp_bytes(&glwe_infos));

    let mut sk: GLWESecret<Vec<u8>> = GLWESecret::alloc_from_infos(&glwe_infos);
    match kind {
        SecretKind::Zero => sk.fill_zero(),
        SecretKind::Ternary => sk.fill_ternary_prob(0.5, &mut source_xs),
    }

    let mut sk_prepared: GLWESecretPrepared<DeviceBuf<BE>, BE> = module.glwe_secret_prepared_alloc((rank as u32).into());
    module.glwe_secret_prepare(&mut sk_prepared, &sk);

    let mut pk: GLWEPublicKey<Vec<u8>> = GLWEPublicKey::alloc_from_infos(&glwe_infos);
    module.glwe_public_key_generate(&mut pk, &sk_prepared, &glwe_infos, &mut source_xe, &mut source_xa);

    module.vec_znx_fill_uniform(BASE2K, &mut pt_want.data, 0, &mut source_xa);

    let mut pk_prepared: GLWEPublicKeyPrepared<DeviceBuf<BE>, BE> = module.glwe_public_key_prepared_alloc_from_infos(&glwe_infos);
    module.glwe_public_key_prepare(&mut pk_prepared, &pk);

    // The scratch arena, in the requested state.
    let mut scratch: ScratchOwned<BE> = ScratchOwned::alloc(scratch_bytes);
    match state {
        ScratchState::Clean => assert!(scratch.borrow().data.iter().all(|&b| b == 0)),
        ScratchState::Dirty(pattern) => scratch.borrow().data.fill(pattern),
        ScratchState::Reused => use_scratch_for_ternary_pk_encryption(module, rank, &mut scratch),
    }

    module.glwe_encrypt_pk(
        &mut ct,
        &pt_want,
        &pk_prepared,
        &glwe_infos,
        &mut source_xu,
        &mut source_xe,
        scratch.borrow(),
    );

    // Decrypt with the secret the key was generated from and measure the error.
    let noise_log2: f64 = module.glwe_noise(&ct, &pt_want, &sk_prepared, scratch.borrow()).std().log2();

    Outcome { ct, noise_log2 }
}

/// Number of (column, limb) pairs on which the two ciphertexts differ, out of the total.
fn differing_limbs(a: &GLWE<Vec<u8>>, b: &GLWE<Vec<u8>>) -> (usize, usize) {
    let (a, b) = (a.data(), b.data());
    assert_eq!(a.cols(), b.cols());
    assert_eq!(a.size(), b.size());
    let mut diff: usize = 0;
    for col in 0..a.cols() {
        for limb in 0..a.size() {
            if a.at(col, limb) != b.at(col, limb) {
                diff += 1;
            }
        }
    }
    (diff, a.cols() * a.size())
}

fn check(kind: SecretKind) {
    let module: Module<BE> = Module::<BE>::new(N as u64);
    let mut failures: Vec<String> = Vec::new();

    for rank in 1_usize..3 {
        let bound: f64 = noise_bound_log2(rank);
        let clean: Outcome = encrypt_pk_once(&module, rank, kind, ScratchState::Clean);
        println!(
            "{kind:?} rank={rank} scratch=Clean: noise_log2={:.3} (bound {bound:.3})",
            clean.noise_log2
        );
        if !(clean.noise_log2 <= bound) {
            failures.push(format!(
                "{kind:?} rank={rank} scratch=Clean: noise_log2 {} > bound {bound}",
                clean.noise_log2
            ));
        }

        for state in [ScratchState::Dirty(0x5a), ScratchState::Reused] {
            // With overflow checks on (debug profile) a garbage `u` can trip an arithmetic-overflow panic
            // inside the encryption; record it as a failure of this configuration and keep going.
            let other: Outcome = match catch_unwind(AssertUnwindSafe(|| encrypt_pk_once(&module, rank, kind, state))) {
                Ok(outcome) => outcome,
                Err(_) => {
                    println!("{kind:?} rank={rank} scratch={state:?}: glwe_encrypt_pk panicked");
                    failures.push(format!("{kind:?} rank={rank} scratch={state:?}: glwe_encrypt_pk panicked"));
                    continue;
                }
            };
            let (diff, total) = differing_limbs(&clean.ct, &other.ct);
            println!(
                "{kind:?} rank={rank} scratch={state:?}: noise_log2={:.3} (bound {bound:.3}), differing limbs vs clean: \
                 {diff}/{total}",
                other.noise_log2
            );
            if diff != 0 || clean.ct != other.ct {
                failures.push(format!(
                    "{kind:?} rank={rank} scratch={state:?}: ciphertext depends on stale scratch contents ({diff}/{total} limbs \
                     differ from the clean-scratch ciphertext)"
                ));
            }
            if !(other.noise_log2 <= bound) {
                failures.push(format!(
                    "{kind:?} rank={rank} scratch={state:?}: noise_log2 {} > bound {bound}",
                    other.noise_log2
                ));
            }
        }
    }

    assert!(failures.is_empty(), "\n{}", failures.join("\n"));
}

#[test]
fn glwe_encrypt_pk_zero_secret_ignores_scratch_contents() {
    check(SecretKind::Zero);
}

#[test]
fn glwe_encrypt_pk_ternary_secret_ignores_scratch_contents() {
    check(SecretKind::Ternary);
}
