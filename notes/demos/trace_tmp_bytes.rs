// Demo: `glwe_trace_tmp_bytes` / `glwe_pack_tmp_bytes` must be sufficient.
//
// Place this file at: poulpy-cpu-ref/tests/trace_tmp_bytes.rs
// Run with:           cargo test -p poulpy-cpu-ref --test trace_tmp_bytes --offline -j 4
//
// Every operation is executed with a scratch arena of EXACTLY the size returned by its `*_tmp_bytes`
// query (this must not panic), and a second time with a much larger arena; both results must be
// bit-identical (the amount of spare scratch must not change the result).
//
// Before the fix `glwe_trace` (all layouts) and `glwe_pack` (layouts whose base2k differs from the key's)
// panic with "scratch.available(): .. < GLWETrace::glwe_trace_tmp_bytes: ..": `glwe_trace` takes a full
// temporary GLWE out of the scratch and then calls `glwe_trace_assign`, whose entry assertion again
// demands the complete `glwe_trace_tmp_bytes` (which itself includes that temporary GLWE).

use std::collections::HashMap;

use poulpy_core::{
    EncryptionLayout, GLWEAutomorphismKeyEncryptSk, GLWEPacking, GLWETrace,
    layouts::{
        GLWE, GLWEAutomorphismKey, GLWEAutomorphismKeyLayout, GLWEAutomorphismKeyPreparedFactory, GLWELayout, GLWESecret,
        LWEInfos, prepared::GLWEAutomorphismKeyPrepared,
    },
};
use poulpy_hal::{
    api::{ModuleNew, ScratchOwnedAlloc, ScratchOwnedBorrow},
    layouts::{DeviceBuf, Module, Scratch, ScratchOwned, ZnxView, ZnxViewMut},
    source::Source,
};

const N: usize = 64;

#[derive(Clone, Copy, Debug)]
struct Cfg {
    rank: usize,
    in_b2k: usize,
    key_b2k: usize,
    out_b2k: usize,
    /// k of the input is `in_limbs * in_b2k`; the output always has k = k_key = k_in + dsize * key_b2k.
    in_limbs: usize,
}

fn cfgs(b: usize) -> Vec<Cfg> {
    let mut v = Vec::new();
    for rank in 1..3 {
        v.push(Cfg { rank, in_b2k: b, key_b2k: b, out_b2k: b, in_limbs: 6 });
        v.push(Cfg { rank, in_b2k: b - 1, key_b2k: b, out_b2k: b - 2, in_limbs: 6 });
        v.push(Cfg { rank, in_b2k: b - 1, key_b2k: b, out_b2k: b - 1, in_limbs: 6 });
        v.push(Cfg { rank, in_b2k: b, key_b2k: b - 1, out_b2k: b, in_limbs: 4 });
    }
    v
}

fn xorshift(x: &mut u64) -> u64 {
    *x ^= *x << 13;
    *x ^= *x >> 7;
    *x ^= *x << 17;
    *x
}

fn rand_glwe(infos: &GLWELayout, seed: u64) -> GLWE<Vec<u8>> {
    let mut ct: GLWE<Vec<u8>> = GLWE::alloc_from_infos(infos);
    let base2k: usize = ct.base2k().into();
    let mut x = seed | 1;
    for v in ct.data_mut().raw_mut().iter_mut() {
        *v = (xorshift(&mut x) as i64) >> (64 - base2k);
    }
    ct
}

fn copy_glwe(a: &GLWE<Vec<u8>>, infos: &GLWELayout) -> GLWE<Vec<u8>> {
    let mut ct: GLWE<Vec<u8>> = GLWE::alloc_from_infos(infos);
    ct.data_mut().raw_mut().copy_from_slice(a.data().raw());
    ct
}

macro_rules! suite {
    ($modname:ident, $be:ty, $base2k:expr) => {
        mod $modname {
            use super::*;

            type BE = $be;
            const B: usize = $base2k;

            type Keys = HashMap<i64, GLWEAutomorphismKeyPrepared<DeviceBuf<BE>, BE>>;

            fn keys(module: &Module<BE>, layout: &GLWEAutomorphismKeyLayout, gal_els: Vec<i64>) -> Keys {
                let infos = EncryptionLayout::new_from_default_sigma(*layout).unwrap();
                let mut scratch: ScratchOwned<BE> = ScratchOwned::alloc(1 << 22);
                let mut source_xs: Source = Source::new([1u8; 32]);
                let mut source_xe: Source = Source::new([2u8; 32]);
                let mut source_xa: Source = Source::new([3u8; 32]);
                let mut sk: GLWESecret<Vec<u8>> = GLWESecret::alloc(N.into(), layout.rank);
                sk.fill_ternary_prob(0.5, &mut source_xs);
                let mut keys: Keys = HashMap::new();
                for p in gal_els {
                    let mut atk: GLWEAutomorphismKey<Vec<u8>> = GLWEAutomorphismKey::alloc_from_infos(&infos);
                    module.glwe_automorphism_key_encrypt_sk(&mut atk, p, &sk, &infos, &mut source_xe, &mut source_xa, scratch.borrow());
                    let mut prep: GLWEAutomorphismKeyPrepared<DeviceBuf<BE>, BE> =
                        module.glwe_automorphism_key_prepared_alloc_from_infos(&atk);
                    module.glwe_automorphism_key_prepare(&mut prep, &atk, scratch.borrow());
                    keys.insert(p, prep);
                }
                keys
            }

            fn layouts(cfg: &Cfg, dsize: usize) -> (GLWELayout, GLWELayout, GLWEAutomorphismKeyLayout) {
                let k_in = cfg.in_limbs * cfg.in_b2k;
                let k_key = k_in + cfg.key_b2k * dsize;
                let key_l = GLWEAutomorphismKeyLayout {
                    n: N.into(),
                    base2k: cfg.key_b2k.into(),
                    k: k_key.into(),
                    dnum: k_in.div_ceil(cfg.key_b2k * dsize).into(),
                    dsize: dsize.into(),
                    rank: cfg.rank.into(),
                };
                let in_l = GLWELayout {
                    n: N.into(),
                    base2k: cfg.in_b2k.into(),
                    k: k_in.into(),
                    rank: cfg.rank.into(),
                };
                let out_l = GLWELayout {
                    n: N.into(),
                    base2k: cfg.out_b2k.into(),
                    k: k_key.into(),
                    rank: cfg.rank.into(),
                };
                (in_l, out_l, key_l)
            }

            /// exact-size run (must not panic) == oversized run
            fn check<F: FnMut(&mut Scratch<BE>) -> Vec<i64>>(what: &str, cfg: &Cfg, tmp_bytes: usize, mut f: F) {
                let mut exact: ScratchOwned<BE> = ScratchOwned::alloc(tmp_bytes);
                let have = f(exact.borrow());
                let mut large: ScratchOwned<BE> = ScratchOwned::alloc(8 * tmp_bytes + (1 << 16));
                let want = f(large.borrow());
                assert!(have == want, "{what} {cfg:?}: result changes with the amount of spare scratch");
            }

            fn trace(dsize: usize) {
                let module: Module<BE> = Module::<BE>::new(N as u64);
                for cfg in cfgs(B) {
                    let (in_l, out_l, key_l) = layouts(&cfg, dsize);
                    let keys = keys(&module, &key_l, module.glwe_trace_galois_elements());
                    let a = rand_glwe(&in_l, 7);
                    // res <- trace(a), output larger than input
                    check("glwe_trace(out, in)", &cfg, module.glwe_trace_tmp_bytes(&out_l, &in_l, &key_l), |scratch| {
                        let mut res: GLWE<Vec<u8>> = GLWE::alloc_from_infos(&out_l);
                        module.glwe_trace(&mut res, 0, &a, &keys, scratch);
                        res.data().raw().to_vec()
                    });
                    // res <- trace(a), same layout for input and output, partial trace
                    check("glwe_trace(in, in)", &cfg, module.glwe_trace_tmp_bytes(&in_l, &in_l, &key_l), |scratch| {
                        let mut res: GLWE<Vec<u8>> = GLWE::alloc_from_infos(&in_l);
                        module.glwe_trace(&mut res, 2, &a, &keys, scratch);
                        res.data().raw().to_vec()
                    });
                }
            }

            fn trace_assign(dsize: usize) {
                let module: Module<BE> = Module::<BE>::new(N as u64);
                for cfg in cfgs(B) {
                    let (in_l, out_l, key_l) = layouts(&cfg, dsize);
                    let keys = keys(&module, &key_l, module.glwe_trace_galois_elements());
                    for l in [in_l, out_l] {
                        let a = rand_glwe(&l, 8);
                        check("glwe_trace_assign", &cfg, module.glwe_trace_tmp_bytes(&l, &l, &key_l), |scratch| {
                            let mut res = copy_glwe(&a, &l);
                            module.glwe_trace_assign(&mut res, 0, &keys, scratch);
                            res.data().raw().to_vec()
                        });
                    }
                }
            }

            fn pack(dsize: usize) {
                let module: Module<BE> = Module::<BE>::new(N as u64);
                for cfg in cfgs(B) {
                    let (in_l, out_l, key_l) = layouts(&cfg, dsize);
                    let keys = keys(&module, &key_l, module.glwe_pack_galois_elements());
                    for l in [in_l, out_l] {
                        let inputs: Vec<GLWE<Vec<u8>>> = (0..N as u64).step_by(5).map(|i| rand_glwe(&l, 90 + i)).collect();
                        check("glwe_pack", &cfg, module.glwe_pack_tmp_bytes(&l, &key_l), |scratch| {
                            let mut cts: Vec<GLWE<Vec<u8>>> = inputs.iter().map(|c| copy_glwe(c, &l)).collect();
                            let mut map: HashMap<usize, &mut GLWE<Vec<u8>>> = HashMap::new();
                            for (i, ct) in cts.iter_mut().enumerate() {
                                map.insert(5 * i, ct);
                            }
                            let mut res: GLWE<Vec<u8>> = GLWE::alloc_from_infos(&l);
                            module.glwe_pack(&mut res, map, 0, &keys, scratch);
                            res.data().raw().to_vec()
                        });
                    }
                }
            }

            #[test]
            fn glwe_trace_dsize1() {
                trace(1)
            }
            #[test]
            fn glwe_trace_dsize2() {
                trace(2)
            }
            #[test]
            fn glwe_trace_assign_dsize1() {
                trace_assign(1)
            }
            #[test]
            fn glwe_trace_assign_dsize2() {
                trace_assign(2)
            }
            #[test]
            fn glwe_pack_dsize1() {
                pack(1)
            }
            #[test]
            fn glwe_pack_dsize2() {
                pack(2)
            }
        }
    };
}

suite!(fft64, poulpy_cpu_ref::FFT64Ref, 17);
suite!(ntt120, poulpy_cpu_ref::NTT120Ref, 52);
