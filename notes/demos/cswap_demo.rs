// Demo for the cross-radix branch of `Cswap::cswap` (poulpy-bin-fhe/src/bdd_arithmetic/eval.rs).
//
// Place this file at: poulpy-bin-fhe/tests/cswap_cross_radix.rs
// Run with:           cargo test -p poulpy-bin-fhe --test cswap_cross_radix --offline -j 4
//
// `cswap(res_a, res_b, s)` must leave (a, b) unchanged when the GGSW selector `s` encrypts 0 and swap
// them when it encrypts 1. When the GLWE ciphertexts use a different base2k than the selector
// (`res_base2k != s_base2k`), the implementation re-normalises a and b into `tmp_a`, `tmp_b` (selector
// radix) but then computed the difference `b - a` from the ORIGINAL ciphertexts into a buffer in the
// selector radix: `glwe_sub(&mut tmp_c, res_b, res_a)`, which trips the base2k assertion of `glwe_sub`
// (always panics). The fix uses the re-normalised copies: `glwe_sub(&mut tmp_c, &tmp_b, &tmp_a)`.
//
// The test checks the functionality by decryption (noise of the outputs with respect to the expected
// plaintexts), for selector bit 0 and 1, rank 1 and 2, and as a control also in the same-radix case.

use poulpy_bin_fhe::bdd_arithmetic::Cswap;
use poulpy_core::{
    EncryptionLayout, GGSWEncryptSk, GLWEEncryptSk, GLWENoise,
    layouts::{
        GGSW, GGSWLayout, GGSWPreparedFactory, GLWE, GLWELayout, GLWEPlaintext, GLWESecret, GLWESecretPreparedFactory,
        prepared::{GGSWPrepared, GLWESecretPrepared},
    },
};
use poulpy_cpu_ref::FFT64Ref;
use poulpy_hal::{
    api::{ModuleNew, ScratchOwnedAlloc, ScratchOwnedBorrow, VecZnxFillUniform},
    layouts::{DeviceBuf, Module, ScalarZnx, ScratchOwned, ZnxViewMut},
    source::Source,
};

type BE = FFT64Ref;

fn run(glwe_base2k: usize, ggsw_base2k: usize, rank: usize, bit: i64) {
    let n: usize = 64;
    let module: Module<BE> = Module::<BE>::new(n as u64);

    let k_glwe: usize = 3 * glwe_base2k;
    let dsize: usize = 1;
    let k_ggsw: usize = k_glwe + ggsw_base2k * dsize;
    let dnum: usize = k_glwe.div_ceil(ggsw_base2k * dsize);

    let glwe_infos = EncryptionLayout::new_from_default_sigma(GLWELayout {
        n: n.into(),
        base2k: glwe_base2k.into(),
        k: k_glwe.into(),
        rank: rank.into(),
    })
    .unwrap();

    let ggsw_infos = EncryptionLayout::new_from_default_sigma(GGSWLayout {
        n: n.into(),
        base2k: ggsw_base2k.into(),
        k: k_ggsw.into(),
        dnum: dnum.into(),
        dsize: dsize.into(),
        rank: rank.into(),
    })
    .unwrap();

    let mut source_xs: Source = Source::new([1u8; 32]);
    let mut source_xe: Source = Source::new([2u8; 32]);
    let mut source_xa: Source = Source::new([3u8; 32]);

    let mut scratch: ScratchOwned<BE> = ScratchOwned::alloc(1 << 22);

    let mut sk: GLWESecret<Vec<u8>> = GLWESecret::alloc(n.into(), rank.into());
    sk.fill_ternary_prob(0.5, &mut source_xs);
    let mut sk_prep: GLWESecretPrepared<DeviceBuf<BE>, BE> = module.glwe_secret_prepared_alloc(rank.into());
    module.glwe_secret_prepare(&mut sk_prep, &sk);

    // Two independent uniformly random plaintexts.
    let mut pt_a: GLWEPlaintext<Vec<u8>> = GLWEPlaintext::alloc_from_infos(&glwe_infos);
    let mut pt_b: GLWEPlaintext<Vec<u8>> = GLWEPlaintext::alloc_from_infos(&glwe_infos);
    module.vec_znx_fill_uniform(glwe_base2k, &mut pt_a.data, 0, &mut source_xa);
    module.vec_znx_fill_uniform(glwe_base2k, &mut pt_b.data, 0, &mut source_xa);

    let mut ct_a: GLWE<Vec<u8>> = GLWE::alloc_from_infos(&glwe_infos);
    let mut ct_b: GLWE<Vec<u8>> = GLWE::alloc_from_infos(&glwe_infos);
    module.glwe_encrypt_sk(&mut ct_a, &pt_a, &sk_prep, &glwe_infos, &mut source_xe, &mut source_xa, scratch.borrow());
    module.glwe_encrypt_sk(&mut ct_b, &pt_b, &sk_prep, &glwe_infos, &mut source_xe, &mut source_xa, scratch.borrow());

    // Selector: GGSW encryption of the constant polynomial `bit`.
    let mut pt_s: ScalarZnx<Vec<u8>> = ScalarZnx::alloc(n, 1);
    pt_s.raw_mut()[0] = bit;
    let mut s_raw: GGSW<Vec<u8>> = GGSW::alloc_from_infos(&ggsw_infos);
    module.ggsw_encrypt_sk(&mut s_raw, &pt_s, &sk_prep, &ggsw_infos, &mut source_xe, &mut source_xa, scratch.borrow());
    let mut s: GGSWPrepared<DeviceBuf<BE>, BE> = module.ggsw_prepared_alloc_from_infos(&s_raw);
    module.ggsw_prepare(&mut s, &s_raw, scratch.borrow());

    // The operation under test, with a scratch of exactly the advertised size.
    let mut scratch_cswap: ScratchOwned<BE> = ScratchOwned::alloc(module.cswap_tmp_bytes(&glwe_infos, &glwe_infos, &ggsw_infos));
    module.cswap(&mut ct_a, &mut ct_b, &s, scratch_cswap.borrow());

    let (want_a, want_b) = if bit == 0 { (&pt_a, &pt_b) } else { (&pt_b, &pt_a) };

    let noise_a: f64 = module.glwe_noise(&ct_a, want_a, &sk_prep, scratch.borrow()).std().log2();
    let noise_b: f64 = module.glwe_noise(&ct_b, want_b, &sk_prep, scratch.borrow()).std().log2();
    // Control: with respect to the OTHER plaintext the "noise" is a uniformly random polynomial (log2(std) ~ -1.8).
    let ctrl_a: f64 = module.glwe_noise(&ct_a, want_b, &sk_prep, scratch.borrow()).std().log2();
    let ctrl_b: f64 = module.glwe_noise(&ct_b, want_a, &sk_prep, scratch.borrow()).std().log2();

    // Fresh noise is ~2^-(k_glwe - 2); the external product adds a few bits. 12 bits of margin.
    let max_noise: f64 = -(k_glwe as f64) + 12.0;
    println!(
        "glwe_base2k={glwe_base2k} ggsw_base2k={ggsw_base2k} rank={rank} bit={bit}: noise_a={noise_a:.2} noise_b={noise_b:.2} (max {max_noise:.2}), control {ctrl_a:.2} {ctrl_b:.2}"
    );
    assert!(noise_a <= max_noise, "res_a is not the expected ciphertext: noise {noise_a} > {max_noise}");
    assert!(noise_b <= max_noise, "res_b is not the expected ciphertext: noise {noise_b} > {max_noise}");
    assert!(ctrl_a > -4.0 && ctrl_b > -4.0, "control failed: outputs decrypt to both plaintexts?");
}

#[test]
fn cswap_cross_radix_bit0() {
    for rank in 1..3 {
        run(16, 17, rank, 0);
        run(17, 16, rank, 0);
    }
}

#[test]
fn cswap_cross_radix_bit1() {
    for rank in 1..3 {
        run(16, 17, rank, 1);
        run(17, 16, rank, 1);
    }
}

#[test]
fn cswap_same_radix_control() {
    for rank in 1..3 {
        run(17, 17, rank, 0);
        run(17, 17, rank, 1);
    }
}
