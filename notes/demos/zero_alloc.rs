// place at poulpy-hal/tests/zero_alloc.rs; run: cargo +nightly miri test -p poulpy-hal --test zero_alloc --offline
use poulpy_hal::layouts::{VecZnx, ZnxInfos};

#[test]
fn vec_znx_with_zero_limbs() {
    // a zero-limb vector (e.g. the result of set_size(0) + reallocate_limbs, or a zero-byte scratch) asks the global allocator for 0 bytes
    let v: VecZnx<Vec<u8>> = VecZnx::alloc(8, 1, 0);
    assert_eq!(v.size(), 0);
}

#[test]
fn alloc_aligned_zero() {
    let v: Vec<u8> = poulpy_hal::alloc_aligned::<u8>(0);
    assert_eq!(v.len(), 0);
}
