// relin_radix.rs -- radix-combination test of `glwe_tensor_relinearize`.
//
// PLACE AT: poulpy-cpu-ref/tests/relin_radix.rs   (integration test of the poulpy-cpu-ref crate)
// RUN WITH: cargo test -p poulpy-cpu-ref --test relin_radix --offline -j 6 -- --nocapture --test-threads 1
//
// Same construction as poulpy-core/src/test_suite/glwe_tensor.rs::test_glwe_tensoring
// (same helpers, same plaintext, same noise bound); the only thing that changes is that
// the radix of the tensor (`a_base2k` of glwe_tensor_relinearize), of the tensor key
// (`key_base2k`) and of the relinearised result (`res_base2k`) are three independent
// parameters (the suite always uses tensor radix == result radix).
//
// The relinearisation is run on a scratch of EXACTLY `glwe_tensor_relinearize_tmp_bytes`
// bytes, so the test also checks that the size query covers what the body takes.
//
// A combination "passes" iff, for every rank in 1..=3 and every res_offset in 0..2*in_base2k,
// log2(std(decrypt(relin) - clear product)) <= noise_want + 0.5 (the bound of the suite).

use std::f64::consts::SQRT_2;

use poulpy_core::{
    EncryptionLayout, GLWEDecrypt, GLWEEncryptSk, GLWESub, GLWETensorDecrypt, GLWETensorKeyEncryptSk, GLWETensoring,
    ScratchTakeCore,
    layouts::{
        Dsize, GLWE, GLWELayout, GLWEPlaintext, GLWESecret, GLWESecretPreparedFactory, GLWESecretTensor, GLWESecretTensorFactory,
        GLWESecretTensorPrepared, GLWESecretTensorPreparedFactory, GLWETensor, GLWETensorKey, GLWETensorKeyLayout,
        GLWETensorKeyPrepared, GLWETensorKeyPreparedFactory, LWEInfos, TorusPrecision, prepared::GLWESecretPrepared,
    },
    test_suite::TestBackend,
};
use poulpy_cpu_ref::{FFT64Ref, NTT120Ref};
use poulpy_hal::{
    api::{
        ModuleNew, ScratchAvailable, ScratchOwnedAlloc, ScratchOwnedBorrow, VecZnxCopy, VecZnxFillUniform,
        VecZnxNormalize, VecZnxNormalizeAssign,
    },
    layouts::{DeviceBuf, Module, Scratch, ScratchOwned, VecZnx},
    source::Source,
    test_suite::convolution::bivariate_convolution_naive,
};

#[derive(Clone, Copy, Debug)]
struct Radices {
    /// radix of the two input ciphertexts of the tensor product
    input: usize,
    /// radix of the GLWETensor = `a_base2k` of glwe_tensor_relinearize
    tensor: usize,
    /// radix of the tensor key = `key_base2k`
    key: usize,
    /// radix of the relinearised GLWE = `res_base2k`
    res: usize,
}

/// Returns (worst excess of the TENSOR decryption over the bound, worst excess of the RELIN decryption over the bound,
/// worst relin noise log2 std, the bound at that point), over all ranks / offsets.
fn run<BE: TestBackend>(module: &Module<BE>, base2k: usize, r: Radices) -> (f64, f64, f64, f64)
where
    Module<BE>: GLWETensoring<BE>
        + GLWEEncryptSk<BE>
        + GLWEDecrypt<BE>
        + GLWETensorDecrypt<BE>
        + VecZnxFillUniform
        + GLWESecretPreparedFactory<BE>
        + GLWESub
        + VecZnxNormalizeAssign<BE>
        + GLWESecretTensorFactory<BE>
        + GLWESecretTensorPreparedFactory<BE>
        + VecZnxCopy
        + VecZnxNormalize<BE>
        + GLWETensorKeyEncryptSk<BE>
        + GLWETensorKeyPreparedFactory<BE>,
    ScratchOwned<BE>: ScratchOwnedAlloc<BE> + ScratchOwnedBorrow<BE>,
    Scratch<BE>: ScratchAvailable + ScratchTakeCore<BE>,
{
    let in_base2k: usize = r.input;
    let tensor_base2k: usize = r.tensor;
    let out_base2k: usize = r.res;
    let tsk_base2k: usize = r.key;
    let k: usize = 8 * base2k + 1;
    let k_tsk = k + tsk_base2k;

    let mut worst_tensor_excess = f64::NEG_INFINITY;
    let mut worst_relin_excess = f64::NEG_INFINITY;
    let mut worst_relin_noise = f64::NEG_INFINITY;
    let mut worst_relin_bound = 0.0;

    for rank in 1_usize..=3 {
        let n: usize = module.n();

        let glwe_in_infos = EncryptionLayout::new_from_default_sigma(GLWELayout {
            n: n.into(),
            base2k: in_base2k.into(),
            k: k.into(),
            rank: rank.into(),
        })
        .unwrap();

        let glwe_tensor_infos: GLWELayout = GLWELayout {
            n: n.into(),
            base2k: tensor_base2k.into(),
            k: k.into(),
            rank: rank.into(),
        };

        let glwe_out_infos: GLWELayout = GLWELayout {
            n: n.into(),
            base2k: out_base2k.into(),
            k: k.into(),
            rank: rank.into(),
        };

        let tsk_infos = EncryptionLayout::new_from_default_sigma(GLWETensorKeyLayout {
            n: n.into(),
            base2k: tsk_base2k.into(),
            k: k_tsk.into(),
            rank: rank.into(),
            dnum: k.div_ceil(tsk_base2k).into(),
            dsize: Dsize(1),
        })
        .unwrap();

        let mut a: GLWE<Vec<u8>> = GLWE::alloc_from_infos(&glwe_in_infos);
        let mut b: GLWE<Vec<u8>> = GLWE::alloc_from_infos(&glwe_in_infos);
        let mut res_tensor: GLWETensor<Vec<u8>> = GLWETensor::alloc_from_infos(&glwe_tensor_infos);
        let mut res_relin: GLWE<Vec<u8>> = GLWE::alloc_from_infos(&glwe_out_infos);
        let mut pt_in: GLWEPlaintext<Vec<u8>> = GLWEPlaintext::alloc_from_infos(&glwe_in_infos);
        // tensor-radix plaintexts (sanity check of the tensor product itself)
        let mut pt_have_t: GLWEPlaintext<Vec<u8>> = GLWEPlaintext::alloc_from_infos(&glwe_tensor_infos);
        let mut pt_want_t: GLWEPlaintext<Vec<u8>> = GLWEPlaintext::alloc_from_infos(&glwe_tensor_infos);
        let mut pt_tmp_t: GLWEPlaintext<Vec<u8>> = GLWEPlaintext::alloc_from_infos(&glwe_tensor_infos);
        // result-radix plaintexts
        let mut pt_have: GLWEPlaintext<Vec<u8>> = GLWEPlaintext::alloc_from_infos(&glwe_out_infos);
        let mut pt_want: GLWEPlaintext<Vec<u8>> = GLWEPlaintext::alloc_from_infos(&glwe_out_infos);
        let mut pt_tmp: GLWEPlaintext<Vec<u8>> = GLWEPlaintext::alloc_from_infos(&glwe_out_infos);

        let relin_bytes: usize = module.glwe_tensor_relinearize_tmp_bytes(&res_relin, &res_tensor, &tsk_infos);

        let mut scratch: ScratchOwned<BE> = ScratchOwned::alloc(
            (module)
                .glwe_encrypt_sk_tmp_bytes(&glwe_in_infos)
                .max((module).glwe_decrypt_tmp_bytes(&glwe_out_infos))
                .max((module).glwe_decrypt_tmp_bytes(&glwe_tensor_infos))
                .max(module.glwe_tensor_apply_tmp_bytes(&res_tensor, &a, &b))
                .max(module.glwe_secret_tensor_prepare_tmp_bytes(rank.into()))
                .max(relin_bytes)
                .max(1 << 20),
        );
        // EXACT-size scratch for the relinearisation.
        let mut scratch_relin: ScratchOwned<BE> = ScratchOwned::alloc(relin_bytes);

        let mut source_xs: Source = Source::new([0u8; 32]);
        let mut source_xe: Source = Source::new([0u8; 32]);
        let mut source_xa: Source = Source::new([0u8; 32]);

        let mut sk: GLWESecret<Vec<u8>> = GLWESecret::alloc(module.n().into(), rank.into());
        sk.fill_ternary_prob(0.5, &mut source_xs);

        let mut sk_dft: GLWESecretPrepared<DeviceBuf<BE>, BE> = module.glwe_secret_prepared_alloc_from_infos(&sk);
        module.glwe_secret_prepare(&mut sk_dft, &sk);

        let mut sk_tensor: GLWESecretTensor<Vec<u8>> = GLWESecretTensor::alloc(module.n().into(), rank.into());
        module.glwe_secret_tensor_prepare(&mut sk_tensor, &sk, scratch.borrow());

        let mut sk_tensor_prep: GLWESecretTensorPrepared<DeviceBuf<BE>, BE> =
            module.glwe_secret_tensor_prepared_alloc(rank.into());
        module.glwe_secret_tensor_prepared_prepare(&mut sk_tensor_prep, &sk_tensor);

        let mut tsk: GLWETensorKey<Vec<u8>> = GLWETensorKey::alloc_from_infos(&tsk_infos);
        module.glwe_tensor_key_encrypt_sk(&mut tsk, &sk, &tsk_infos, &mut source_xe, &mut source_xa, scratch.borrow());

        let mut tsk_prep: GLWETensorKeyPrepared<DeviceBuf<BE>, BE> = module.alloc_tensor_key_prepared_from_infos(&tsk_infos);
        module.prepare_tensor_key(&mut tsk_prep, &tsk, scratch.borrow());

        let scale: usize = 2 * in_base2k;

        let mut data = vec![0i64; n];
        for i in data.iter_mut() {
            *i = (source_xa.next_i64() & 7) - 4;
        }

        pt_in.encode_vec_i64(&data, TorusPrecision(scale as u32));

        let mut pt_want_base2k_in = VecZnx::alloc(n, 1, pt_in.size());
        bivariate_convolution_naive(
            module,
            in_base2k,
            2,
            &mut pt_want_base2k_in,
            0,
            pt_in.data(),
            0,
            pt_in.data(),
            0,
            scratch.borrow(),
        );

        module.glwe_encrypt_sk(
            &mut a,
            &pt_in,
            &sk_dft,
            &glwe_in_infos,
            &mut source_xe,
            &mut source_xa,
            scratch.borrow(),
        );
        module.glwe_encrypt_sk(
            &mut b,
            &pt_in,
            &sk_dft,
            &glwe_in_infos,
            &mut source_xe,
            &mut source_xa,
            scratch.borrow(),
        );

        for res_offset in 0..scale {
            module.glwe_tensor_apply(
                scale + res_offset,
                &mut res_tensor,
                &a,
                a.max_k().as_usize(),
                &b,
                b.max_k().as_usize(),
                scratch.borrow(),
            );

            let noise_want = -((k - scale - res_offset - module.log_n()) as f64 - ((rank - 1) as f64) / SQRT_2);

            // ---- tensor product alone (in the tensor radix) ----
            module.glwe_tensor_decrypt(&res_tensor, &mut pt_have_t, &sk_dft, &sk_tensor_prep, scratch.borrow());
            module.vec_znx_normalize(
                pt_want_t.data_mut(),
                tensor_base2k,
                res_offset as i64,
                0,
                &pt_want_base2k_in,
                in_base2k,
                0,
                scratch.borrow(),
            );
            module.glwe_sub(&mut pt_tmp_t, &pt_have_t, &pt_want_t);
            module.vec_znx_normalize_assign(pt_tmp_t.base2k().as_usize(), &mut pt_tmp_t.data, 0, scratch.borrow());
            let noise_tensor: f64 = pt_tmp_t.stats().std().log2();
            if noise_tensor - noise_want > worst_tensor_excess {
                worst_tensor_excess = noise_tensor - noise_want;
            }

            // ---- relinearisation (exact-size scratch) ----
            module.glwe_tensor_relinearize(&mut res_relin, &res_tensor, &tsk_prep, tsk_prep.size(), scratch_relin.borrow());
            module.glwe_decrypt(&res_relin, &mut pt_have, &sk_dft, scratch.borrow());
            module.vec_znx_normalize(
                pt_want.data_mut(),
                out_base2k,
                res_offset as i64,
                0,
                &pt_want_base2k_in,
                in_base2k,
                0,
                scratch.borrow(),
            );

            module.glwe_sub(&mut pt_tmp, &pt_have, &pt_want);
            module.vec_znx_normalize_assign(pt_tmp.base2k().as_usize(), &mut pt_tmp.data, 0, scratch.borrow());

            let noise_have: f64 = pt_tmp.stats().std().log2();
            if noise_have - noise_want > worst_relin_excess {
                worst_relin_excess = noise_have - noise_want;
                worst_relin_noise = noise_have;
                worst_relin_bound = noise_want;
            }
        }
    }
    (worst_tensor_excess, worst_relin_excess, worst_relin_noise, worst_relin_bound)
}

fn check<BE: TestBackend>(label: &str, module: &Module<BE>, base2k: usize, r: Radices)
where
    Module<BE>: GLWETensoring<BE>
        + GLWEEncryptSk<BE>
        + GLWEDecrypt<BE>
        + GLWETensorDecrypt<BE>
        + VecZnxFillUniform
        + GLWESecretPreparedFactory<BE>
        + GLWESub
        + VecZnxNormalizeAssign<BE>
        + GLWESecretTensorFactory<BE>
        + GLWESecretTensorPreparedFactory<BE>
        + VecZnxCopy
        + VecZnxNormalize<BE>
        + GLWETensorKeyEncryptSk<BE>
        + GLWETensorKeyPreparedFactory<BE>,
    ScratchOwned<BE>: ScratchOwnedAlloc<BE> + ScratchOwnedBorrow<BE>,
    Scratch<BE>: ScratchAvailable + ScratchTakeCore<BE>,
{
    let (t_excess, r_excess, r_noise, r_bound) = run(module, base2k, r);
    println!(
        "[{label}] in={} tensor(a)={} key={} res={} : tensor worst (have-want)={:+.2} ; relin worst (have-want)={:+.2} \
         (log2 std err {:.2} vs bound {:.2}) => {}",
        r.input,
        r.tensor,
        r.key,
        r.res,
        t_excess,
        r_excess,
        r_noise,
        r_bound,
        if r_excess <= 0.5 { "PASS" } else { "FAIL" }
    );
    assert!(t_excess <= 0.5, "[{label}] tensor product itself is off by {t_excess}");
    assert!(
        r_excess <= 0.5,
        "[{label}] relinearised ciphertext decrypts wrongly: log2 std err {r_noise} > bound {r_bound}"
    );
}

macro_rules! combos {
    ($modname:ident, $be:ty, $b:expr) => {
        mod $modname {
            use super::*;
            const B: usize = $b;
            fn module() -> Module<$be> {
                Module::<$be>::new(1 << 8)
            }
            // (i) all three equal
            #[test]
            fn c1_all_equal() {
                check(concat!(stringify!($modname), " (i)"), &module(), B, Radices { input: B - 1, tensor: B, key: B, res: B });
            }
            #[test]
            fn c1_all_equal_low() {
                check(
                    concat!(stringify!($modname), " (i')"),
                    &module(),
                    B,
                    Radices { input: B - 1, tensor: B - 2, key: B - 2, res: B - 2 },
                );
            }
            // (ii) the combination of the suite: tensor == res == B-2, key == B
            #[test]
            fn c2_suite() {
                check(
                    concat!(stringify!($modname), " (ii)"),
                    &module(),
                    B,
                    Radices { input: B - 1, tensor: B - 2, key: B, res: B - 2 },
                );
            }
            // (iii) the suspect: tensor != key == res
            #[test]
            fn c3_suspect_tensor_lt_key() {
                check(
                    concat!(stringify!($modname), " (iii)"),
                    &module(),
                    B,
                    Radices { input: B - 1, tensor: B - 2, key: B, res: B },
                );
            }
            #[test]
            fn c3_suspect_tensor_gt_key() {
                check(
                    concat!(stringify!($modname), " (iii')"),
                    &module(),
                    B,
                    Radices { input: B - 1, tensor: B, key: B - 2, res: B - 2 },
                );
            }
            // (iv) tensor == key != res
            #[test]
            fn c4_tensor_eq_key_ne_res() {
                check(
                    concat!(stringify!($modname), " (iv)"),
                    &module(),
                    B,
                    Radices { input: B - 1, tensor: B, key: B, res: B - 2 },
                );
            }
            #[test]
            fn c4_tensor_eq_key_ne_res_up() {
                check(
                    concat!(stringify!($modname), " (iv')"),
                    &module(),
                    B,
                    Radices { input: B - 1, tensor: B - 2, key: B - 2, res: B },
                );
            }
            // (v) all three different
            #[test]
            fn c5_all_different() {
                check(
                    concat!(stringify!($modname), " (v)"),
                    &module(),
                    B,
                    Radices { input: B - 1, tensor: B - 2, key: B, res: B - 1 },
                );
            }
            #[test]
            fn c5_all_different_b() {
                check(
                    concat!(stringify!($modname), " (v')"),
                    &module(),
                    B,
                    Radices { input: B - 1, tensor: B - 1, key: B - 2, res: B },
                );
            }
        }
    };
}

combos!(fft64, FFT64Ref, 17);
combos!(ntt120, NTT120Ref, 52);
