// Scratch-size sweep for poulpy-ckks.
//
// Property: for every leveled CKKS operation taking a `&mut Scratch<BE>` that has a `*_tmp_bytes` companion, a scratch
// arena of EXACTLY the advertised number of bytes is sufficient for every admissible shape: the call neither panics for
// lack of space (`Attempted to take .. from scratch ..`, or an inner `scratch.available() >= .._tmp_bytes` assertion)
// nor writes outside of the arena (the arena is carved out of a larger canary-filled buffer).
//
// Where to place it / how to run it (debug build, both reference backends FFT64Ref and NTT120Ref, about 1 minute):
//
//   cp app_scratch_sweep_ckks.rs poulpy-ckks/tests/app_scratch_sweep_ckks.rs
//   cargo test -p poulpy-ckks --offline -j 5 --test app_scratch_sweep_ckks -- --nocapture
//
// `SWEEP_DUMP=/some/file.tsv` appends one line per case (backend, operation, tmp_bytes, shape, OK | panic message).
//
// Every context (n in {16, 64}; base2k / limb count / dsize grid per backend) generates its keys, like the crate's
// own test-suite, in a scratch of exactly `ckks_all_ops_with_atk_tmp_bytes`. Ciphertexts of three sizes (full, one
// unaligned limb less, two limbs less) are combined as destination / operands. Queries that take a ciphertext layout
// are evaluated twice: on the destination layout (plain operation name) and on the largest layout among destination
// and operands (`[query on the larger layout]`, which is how the crate's tests, benches and `ckks_all_ops_tmp_bytes`
// evaluate them). Three classes are reported:
//   FAIL  : counted, the test fails;
//   INFO  : `[query on dst, dst smaller than an operand]`: the ct x ct product queries only receive one ciphertext
//           layout (`res`) although their temporaries are sized by the operands; they are only sufficient when evaluated
//           on the largest operand layout (not counted);
//   KNOWN : the already reported poulpy-hal defect (`Module::cnv_pairwise_apply_dft_tmp_bytes` swaps its first two
//           arguments), detected at run time, which makes the ct x ct products of the FFT64 backend 64 bytes short for
//           some limb counts (not counted).
// An operation returning `Err` (e.g. exhausted budget) did not run: it is listed as `<op> (Err: not exercised)`.
// Not swept: operations without scratch (`ckks_neg_assign`, `ckks_div_pow2_assign`), the `*_unsafe` variants (same
// code path and query as the checked ones), `ckks_mul_add_pt_const_rnx_into` / `ckks_mul_sub_pt_const_znx_into` /
// `ckks_add_pt_const_rnx_assign` / `ckks_sub_pt_const_znx_assign` (their znx/rnx siblings with the same query are), the
// AVX backends and the f128 encoder.
#![allow(clippy::too_many_arguments, clippy::type_complexity, dead_code, unused_imports)]

use std::{
    collections::{BTreeMap, HashMap},
    panic::{AssertUnwindSafe, catch_unwind},
    sync::Mutex,
};

use poulpy_ckks::{
    CKKSInfos, CKKSMeta,
    encoding::reim::Encoder,
    layouts::{
        CKKSCiphertext,
        plaintext::{
            CKKSConstPlaintextConversion, CKKSPlaintextConversion, CKKSPlaintextCstRnx, CKKSPlaintextCstZnx, CKKSPlaintextRnx,
            CKKSPlaintextZnx, alloc_pt_vec_znx,
        },
    },
    leveled::{
        CKKSAddManyOps, CKKSAddOps, CKKSAllOpsTmpBytes, CKKSConjugateOps, CKKSDecrypt, CKKSDotProductOps, CKKSEncrypt,
        CKKSMulAddOps, CKKSMulManyOps, CKKSMulOps, CKKSMulSubOps, CKKSNegOps, CKKSPlaintextZnxOps, CKKSPow2Ops, CKKSRescaleOps,
        CKKSRotateOps, CKKSSubOps,
    },
};
use poulpy_core::{
    EncryptionLayout, GLWEAutomorphismKeyEncryptSk, GLWETensorKeyEncryptSk,
    layouts::{
        Base2K, Degree, GLWEAutomorphismKey, GLWEAutomorphismKeyLayout, GLWEAutomorphismKeyPrepared,
        GLWEAutomorphismKeyPreparedFactory, GLWEInfos, GLWELayout, GLWEPlaintext, GLWESecret, GLWESecretPrepared,
        GLWESecretPreparedFactory, GLWETensorKey, GLWETensorKeyLayout, GLWETensorKeyPrepared, GLWETensorKeyPreparedFactory, LWEInfos,
        Rank,
    },
};
use poulpy_cpu_ref::{FFT64Ref, NTT120Ref};
use poulpy_hal::{
    api::*,
    layouts::{Backend, DeviceBuf, GaloisElement, Module, Scratch, ScratchOwned},
    source::Source,
};

// ---------------------------------------------------------------------------------------------
// Recording infrastructure
// ---------------------------------------------------------------------------------------------

#[derive(Clone, Debug)]
struct Rec {
    backend: &'static str,
    op: String,
    shape: String,
    tmp: usize,
    panic: Option<String>,
}

static RESULTS: Mutex<Vec<Rec>> = Mutex::new(Vec::new());
static PANICS: Mutex<Vec<String>> = Mutex::new(Vec::new());
static SERIAL: Mutex<()> = Mutex::new(());
static IN_CASE: std::sync::atomic::AtomicBool = std::sync::atomic::AtomicBool::new(false);

fn install_hook() {
    std::panic::set_hook(Box::new(|info| {
        let msg: String = if let Some(s) = info.payload().downcast_ref::<&str>() {
            (*s).to_string()
        } else if let Some(s) = info.payload().downcast_ref::<String>() {
            s.clone()
        } else {
            "<non-string panic>".to_string()
        };
        let loc = info
            .location()
            .map(|l| format!("{}:{}", l.file(), l.line()))
            .unwrap_or_default();
        if !IN_CASE.load(std::sync::atomic::Ordering::SeqCst) {
            eprintln!("PANIC OUTSIDE OF A SWEEP CASE (setup bug): {msg} @ {loc}");
        }
        PANICS.lock().unwrap_or_else(|e| e.into_inner()).push(format!("{msg} @ {loc}"));
    }));
}

const GUARD: usize = 256;
const ALIGN: usize = 64;

/// Runs `op` with a scratch arena of EXACTLY `query()` bytes (64-byte aligned, surrounded by canary bytes).
fn run_case<BE: Backend>(
    backend: &'static str,
    op_name: &str,
    shape: String,
    query: impl FnOnce() -> usize,
    op: impl FnOnce(&mut Scratch<BE>),
) where
    Scratch<BE>: ScratchFromBytes<BE>,
{
    PANICS.lock().unwrap_or_else(|e| e.into_inner()).clear();
    let mut tmp_bytes: usize = usize::MAX;
    IN_CASE.store(true, std::sync::atomic::Ordering::SeqCst);
    let res = catch_unwind(AssertUnwindSafe(|| {
        tmp_bytes = query();
        let mut buf: Vec<u8> = vec![0xA5u8; tmp_bytes + 2 * GUARD + ALIGN];
        let off: usize = buf.as_ptr().align_offset(ALIGN) + GUARD;
        {
            let scratch: &mut Scratch<BE> = Scratch::<BE>::from_bytes(&mut buf[off..off + tmp_bytes]);
            op(scratch);
        }
        let lo_ok = buf[..off].iter().all(|&b| b == 0xA5);
        let hi_ok = buf[off + tmp_bytes..].iter().all(|&b| b == 0xA5);
        assert!(lo_ok && hi_ok, "CANARY: memory outside of the scratch buffer was written");
    }));
    IN_CASE.store(false, std::sync::atomic::Ordering::SeqCst);
    let panic: Option<String> = match res {
        Ok(()) => None,
        Err(_) => {
            let msgs = PANICS.lock().unwrap_or_else(|e| e.into_inner()).clone();
            Some(msgs.first().cloned().unwrap_or_else(|| "<no message>".to_string()))
        }
    };
    RESULTS.lock().unwrap_or_else(|e| e.into_inner()).push(Rec {
        backend,
        op: op_name.to_string(),
        shape,
        tmp: tmp_bytes,
        panic,
    });
}

/// Backends on which `Module::cnv_pairwise_apply_dft_tmp_bytes` was observed to swap `cnv_offset` and `res_size`
/// (known, already reported defect of poulpy-hal, not a poulpy-ckks one).
static HAL_PAIRWISE_SWAP: Mutex<Vec<&'static str>> = Mutex::new(Vec::new());

const DST_ONLY: &str = "[query on dst, dst smaller than an operand]";
const CT_MUL_FAMILY: [&str; 8] = [
    "ckks_mul_into",
    "ckks_mul_assign",
    "ckks_square_into",
    "ckks_square_assign",
    "ckks_mul_many",
    "ckks_mul_add_ct_into",
    "ckks_mul_sub_ct_into",
    "ckks_dot_product_ct",
];

/// "FAIL": counted; "INFO": size query evaluated on a destination smaller than an operand (the crate evaluates these
/// queries on the largest ciphertext layout); "KNOWN": the poulpy-hal argument swap.
fn classify(r: &Rec) -> &'static str {
    let msg = r.panic.as_deref().unwrap_or("");
    if r.op.contains(DST_ONLY) {
        return "INFO";
    }
    let swapped = HAL_PAIRWISE_SWAP.lock().unwrap_or_else(|e| e.into_inner()).contains(&r.backend);
    if swapped && msg.starts_with("Attempted to take") && CT_MUL_FAMILY.iter().any(|p| r.op.starts_with(p)) {
        return "KNOWN";
    }
    "FAIL"
}

fn report_and_check(backend: &'static str) {
    let results = RESULTS.lock().unwrap_or_else(|e| e.into_inner());
    let mut per_op: BTreeMap<String, (usize, usize, usize, usize)> = BTreeMap::new();
    for r in results.iter().filter(|r| r.backend == backend) {
        let e = per_op.entry(r.op.clone()).or_insert((0, 0, 0, 0));
        e.0 += 1;
        if r.panic.is_some() {
            match classify(r) {
                "INFO" => e.2 += 1,
                "KNOWN" => e.3 += 1,
                _ => e.1 += 1,
            }
        }
    }
    println!("==== scratch sweep summary [{backend}] ====");
    for (op, (cases, fails, info, known)) in per_op.iter() {
        println!("{op:<78} cases={cases:<5} failures={fails:<4} informational={info:<4} known-hal-swap={known}");
    }
    let mut firsts: BTreeMap<(String, String), Rec> = BTreeMap::new();
    for r in results.iter().filter(|r| r.backend == backend && r.panic.is_some()) {
        let msg = r.panic.clone().unwrap();
        let class: String = msg.chars().filter(|c| !c.is_ascii_digit()).collect();
        let key = (r.op.clone(), class);
        match firsts.get(&key) {
            Some(prev) if prev.tmp <= r.tmp => {}
            _ => {
                firsts.insert(key, r.clone());
            }
        }
    }
    if let Ok(path) = std::env::var("SWEEP_DUMP") {
        use std::io::Write;
        let mut f = std::fs::OpenOptions::new().create(true).append(true).open(path).unwrap();
        for r in results.iter().filter(|r| r.backend == backend) {
            writeln!(f, "{}\t{}\t{}\t{}\t{}", r.backend, r.op, r.tmp, r.shape, r.panic.clone().unwrap_or_else(|| "OK".into())).unwrap();
        }
    }
    for ((op, _), r) in firsts.iter() {
        println!("{} [{backend}] {op}: tmp_bytes={} shape=({}) panic={}", classify(r), r.tmp, r.shape, r.panic.as_ref().unwrap());
    }
    let total_fail: usize = per_op.values().map(|v| v.1).sum();
    assert_eq!(total_fail, 0, "[{backend}] {total_fail} scratch-size failures (see FAIL lines above)");
}

/// Parameter set of one sweep context (mirrors the crate's private test-suite parameters).
#[derive(Clone, Copy, Debug)]
pub struct CKKSTestParams {
    pub n: usize,
    pub base2k: usize,
    pub k: usize,
    pub prec: CKKSMeta,
    pub hw: usize,
    pub dsize: usize,
}

impl CKKSTestParams {
    pub fn glwe_layout(&self) -> EncryptionLayout<GLWELayout> {
        EncryptionLayout::new_from_default_sigma(GLWELayout {
            n: self.n.into(),
            base2k: self.base2k.into(),
            k: self.k.into(),
            rank: Rank(1),
        })
        .unwrap()
    }

    pub fn tsk_layout(&self) -> EncryptionLayout<GLWETensorKeyLayout> {
        let k = self.k + self.dsize * self.base2k;
        let dnum = k.div_ceil(self.dsize * self.base2k);
        EncryptionLayout::new_from_default_sigma(GLWETensorKeyLayout {
            n: self.n.into(),
            base2k: self.base2k.into(),
            k: k.into(),
            rank: Rank(1),
            dsize: (self.dsize as u32).into(),
            dnum: (dnum as u32).into(),
        })
        .unwrap()
    }

    pub fn atk_layout(&self) -> EncryptionLayout<GLWEAutomorphismKeyLayout> {
        let k = self.k + self.dsize * self.base2k;
        let dnum = k.div_ceil(self.dsize * self.base2k);
        EncryptionLayout::new_from_default_sigma(GLWEAutomorphismKeyLayout {
            n: self.n.into(),
            base2k: self.base2k.into(),
            k: k.into(),
            rank: Rank(1),
            dsize: (self.dsize as u32).into(),
            dnum: (dnum as u32).into(),
        })
        .unwrap()
    }
}

const BIG: usize = 1 << 24;

/// Like `run_case` for operations returning a `Result`: an `Err` means that the operation refused the
/// operands before doing any work, it is recorded under "<op> (Err: not exercised)".
fn run_case_res<BE: Backend>(
    backend: &'static str,
    op_name: &str,
    shape: String,
    query: impl FnOnce() -> usize,
    op: impl FnOnce(&mut Scratch<BE>) -> anyhow::Result<()>,
) where
    Scratch<BE>: ScratchFromBytes<BE>,
{
    let mut err: Option<String> = None;
    run_case::<BE>(backend, op_name, shape, query, |scratch| {
        if let Err(e) = op(scratch) {
            err = Some(format!("{e}"));
        }
    });
    if let Some(e) = err {
        let mut results = RESULTS.lock().unwrap_or_else(|e| e.into_inner());
        let last = results.last_mut().unwrap();
        last.op = format!("{} (Err: not exercised)", last.op);
        last.shape = format!("{} err={e}", last.shape);
    }
}

/// The sweep itself; `BE` (backend type), `NAME` and `param_grid()` are resolved where the macro is expanded.
macro_rules! sweep_body {
    () => {
        fn case(op: &str, shape: String, query: impl FnOnce() -> usize, f: impl FnOnce(&mut Scratch<BE>) -> anyhow::Result<()>) {
            run_case_res::<BE>(NAME, op, shape, query, f)
        }


        /// Keys and test vectors of one parameter set (a local copy of the crate's private `TestContext`).
        pub struct TestContext {
            pub module: Module<BE>,
            pub encoder: Encoder<f64>,
            pub params: CKKSTestParams,
            pub sk: GLWESecretPrepared<DeviceBuf<BE>, BE>,
            pub tsk: GLWETensorKeyPrepared<DeviceBuf<BE>, BE>,
            pub atks: HashMap<i64, GLWEAutomorphismKeyPrepared<DeviceBuf<BE>, BE>>,
            pub re1: Vec<f64>,
            pub im1: Vec<f64>,
            pub re2: Vec<f64>,
            pub im2: Vec<f64>,
        }

        impl TestContext {
            pub fn new(params: CKKSTestParams, rotations: &[i64]) -> Self {
                let module = Module::<BE>::new(params.n as u64);
                let m = module.n() / 2;
                let glwe_infos = params.glwe_layout();
                let tsk_infos = params.tsk_layout();
                let atk_infos = params.atk_layout();
                let mut xa = Source::new([1u8; 32]);
                let mut xe = Source::new([2u8; 32]);
                let mut source_xs = Source::new([0u8; 32]);
                let mut sk_raw = GLWESecret::alloc_from_infos(&glwe_infos);
                sk_raw.fill_ternary_hw(params.hw, &mut source_xs);
                let mut sk = module.glwe_secret_prepared_alloc_from_infos(&glwe_infos);
                module.glwe_secret_prepare(&mut sk, &sk_raw);

                // Key generation runs (as in the crate's own test-suite) in a scratch of exactly
                // `ckks_all_ops_with_atk_tmp_bytes`.
                let mut scratch = ScratchOwned::<BE>::alloc(module.ckks_all_ops_with_atk_tmp_bytes(
                    &params.glwe_layout(),
                    &tsk_infos,
                    &atk_infos,
                    &params.prec,
                ));
                let mut tsk = GLWETensorKey::alloc_from_infos(&tsk_infos);
                module.glwe_tensor_key_encrypt_sk(&mut tsk, &sk_raw, &tsk_infos, &mut xa, &mut xe, scratch.borrow());
                let mut tsk_prepared = module.alloc_tensor_key_prepared_from_infos(&tsk_infos);
                module.prepare_tensor_key(&mut tsk_prepared, &tsk, scratch.borrow());

                let mut indices: Vec<i64> = rotations.to_vec();
                indices.push(-1);
                indices.sort();
                indices.dedup();
                let mut atks = HashMap::new();
                for &index in &indices {
                    let mut atk = GLWEAutomorphismKey::alloc_from_infos(&atk_infos);
                    let galois_element = if index == -1 { -1 } else { module.galois_element(index) };
                    module.glwe_automorphism_key_encrypt_sk(&mut atk, galois_element, &sk_raw, &atk_infos, &mut xa, &mut xe, scratch.borrow());
                    let mut atk_prepared = module.glwe_automorphism_key_prepared_alloc_from_infos(&atk_infos);
                    module.glwe_automorphism_key_prepare(&mut atk_prepared, &atk, scratch.borrow());
                    atks.insert(index, atk_prepared);
                }

                let re1: Vec<f64> = (0..m).map(|i| (std::f64::consts::TAU * (i as f64 + 0.25) / m as f64).cos()).collect();
                let im1: Vec<f64> = (0..m).map(|i| (std::f64::consts::TAU * (i as f64 + 0.25) / m as f64).sin()).collect();
                let re2: Vec<f64> = (0..m).map(|i| (std::f64::consts::TAU * (5.0 * i as f64 + 3.0) / (2.0 * m as f64)).cos()).collect();
                let im2: Vec<f64> = (0..m).map(|i| (std::f64::consts::TAU * (5.0 * i as f64 + 3.0) / (2.0 * m as f64)).sin()).collect();

                Self {
                    module,
                    encoder: Encoder::<f64>::new(m).unwrap(),
                    params,
                    sk,
                    tsk: tsk_prepared,
                    atks,
                    re1,
                    im1,
                    re2,
                    im2,
                }
            }
            pub fn degree(&self) -> Degree {
                self.params.n.into()
            }
            pub fn base2k(&self) -> Base2K {
                self.params.base2k.into()
            }
            pub fn tsk(&self) -> &GLWETensorKeyPrepared<DeviceBuf<BE>, BE> {
                &self.tsk
            }
            pub fn atks(&self) -> &HashMap<i64, GLWEAutomorphismKeyPrepared<DeviceBuf<BE>, BE>> {
                &self.atks
            }
            pub fn atk(&self, index: i64) -> &GLWEAutomorphismKeyPrepared<DeviceBuf<BE>, BE> {
                self.atks.get(&index).unwrap()
            }
            pub fn const_rnx(&self, re: Option<f64>, im: Option<f64>) -> CKKSPlaintextCstRnx<f64> {
                CKKSPlaintextCstRnx::new(re, im)
            }
            pub fn alloc_ct(&self, k: usize) -> CKKSCiphertext<Vec<u8>> {
                let mut layout = self.params.glwe_layout();
                layout.layout.k = k.into();
                CKKSCiphertext::alloc_from_infos(&layout).unwrap()
            }
            pub fn encode_pt_rnx(&self, re: &[f64], im: &[f64]) -> CKKSPlaintextRnx<f64> {
                let mut pt_rnx = CKKSPlaintextRnx::<f64>::alloc(self.params.n).unwrap();
                self.encoder.encode_reim(&mut pt_rnx, re, im).unwrap();
                pt_rnx
            }
            pub fn encode_pt_znx_with_prec(&self, re: &[f64], im: &[f64], prec: CKKSMeta) -> CKKSPlaintextZnx<Vec<u8>> {
                let pt_rnx = self.encode_pt_rnx(re, im);
                let mut pt_znx = alloc_pt_vec_znx(self.degree(), self.base2k(), prec);
                pt_rnx.to_znx(&mut pt_znx).unwrap();
                pt_znx
            }
            pub fn encrypt(&self, k: usize, re: &[f64], im: &[f64], scratch: &mut Scratch<BE>) -> CKKSCiphertext<Vec<u8>> {
                self.encrypt_with_prec(k, re, im, self.params.prec, scratch)
            }
            pub fn encrypt_with_prec(&self, k: usize, re: &[f64], im: &[f64], prec: CKKSMeta, scratch: &mut Scratch<BE>) -> CKKSCiphertext<Vec<u8>> {
                let pt_znx = self.encode_pt_znx_with_prec(re, im, prec);
                let mut ct = self.alloc_ct(k);
                let mut xa = Source::new([3u8; 32]);
                let mut xe = Source::new([4u8; 32]);
                let mut layout = self.params.glwe_layout().layout;
                layout.k = k.into();
                let enc_infos = EncryptionLayout::new_from_default_sigma(layout).unwrap();
                self.module
                    .ckks_encrypt_sk(&mut ct, &pt_znx, &self.sk, &enc_infos, &mut xa, &mut xe, scratch)
                    .unwrap();
                ct
            }
        }

        /// Suffix of the operation name telling on which layout the size query is evaluated.
        fn qname(q_max: bool, base2k: usize, k_dst: usize, k_in: &[usize]) -> &'static str {
            let limbs = |k: usize| k.div_ceil(base2k);
            if q_max {
                "[query on the larger layout]"
            } else if k_in.iter().any(|&k| limbs(k) > limbs(k_dst)) {
                DST_ONLY
            } else {
                ""
            }
        }

        type Ct = CKKSCiphertext<Vec<u8>>;

        fn larger<'a>(a: &'a Ct, b: &'a Ct) -> &'a Ct {
            if a.max_k() >= b.max_k() { a } else { b }
        }

        pub fn sweep_ckks() {
            {
                // `cnv_pairwise_apply_dft_tmp_bytes(cnv_offset, res_size, a_size, b_size)` grows with `res_size`, not with `cnv_offset`.
                let module: Module<BE> = Module::<BE>::new(16);
                if module.cnv_pairwise_apply_dft_tmp_bytes(1, 6, 3, 3) < module.cnv_pairwise_apply_dft_tmp_bytes(6, 1, 3, 3) {
                    println!("[{NAME}] note: poulpy-hal swaps the first two arguments of cnv_pairwise_apply_dft_tmp_bytes (known defect)");
                    HAL_PAIRWISE_SWAP.lock().unwrap_or_else(|e| e.into_inner()).push(NAME);
                }
            }
            for params in param_grid() {
                let ctx: TestContext = TestContext::new(params, &[1, 3]);
                let module: &Module<BE> = &ctx.module;
                let mut big: ScratchOwned<BE> = ScratchOwned::alloc(BIG);
                let b: usize = params.base2k;
                let k_full: usize = params.k;
                // ciphertext sizes: full, one (non aligned) limb less, two limbs less
                let ks: [usize; 3] = [k_full, k_full - b - 1, k_full - 2 * b];
                let tsk_infos = params.tsk_layout();
                let atk_infos = params.atk_layout();
                let prec: CKKSMeta = params.prec;
                let prec_lo: CKKSMeta = CKKSMeta {
                    log_delta: prec.log_delta - 7,
                    log_budget: prec.log_budget,
                };
                let pshape = format!(
                    "n={} base2k={} k={} dsize={} log_delta={} log_budget={}",
                    params.n, params.base2k, params.k, params.dsize, prec.log_delta, prec.log_budget
                );

                let enc = |k: usize, which: usize, big: &mut ScratchOwned<BE>| -> Ct {
                    if which == 0 {
                        ctx.encrypt(k, &ctx.re1, &ctx.im1, big.borrow())
                    } else {
                        ctx.encrypt(k, &ctx.re2, &ctx.im2, big.borrow())
                    }
                };

                // ---- encryption / decryption / plaintext extraction ----
                for &k in &ks {
                    for p in [prec, prec_lo] {
                        let pt_znx = ctx.encode_pt_znx_with_prec(&ctx.re1, &ctx.im1, p);
                        let mut ct = ctx.alloc_ct(k);
                        let mut layout = params.glwe_layout().layout;
                        layout.k = k.into();
                        let enc_infos = EncryptionLayout::new_from_default_sigma(layout).unwrap();
                        let mut xa = Source::new([3u8; 32]);
                        let mut xe = Source::new([4u8; 32]);
                        case(
                            "ckks_encrypt_sk",
                            format!("{pshape} k_ct={k} pt_log_delta={}", p.log_delta),
                            || module.ckks_encrypt_sk_tmp_bytes(&ctx.alloc_ct(k)),
                            |scratch| module.ckks_encrypt_sk(&mut ct, &pt_znx, &ctx.sk, &enc_infos, &mut xa, &mut xe, scratch),
                        );
                        let ct = ctx.encrypt_with_prec(k, &ctx.re1, &ctx.im1, p, big.borrow());
                        for p_out in [prec, prec_lo] {
                            let mut pt_out = alloc_pt_vec_znx(ctx.degree(), ct.base2k(), p_out);
                            case(
                                "ckks_decrypt",
                                format!("{pshape} k_ct={k} ct_log_delta={} pt_log_delta={}", p.log_delta, p_out.log_delta),
                                || module.ckks_decrypt_tmp_bytes(&ct),
                                |scratch| module.ckks_decrypt(&mut pt_out, &ct, &ctx.sk, scratch),
                            );
                            let src: GLWEPlaintext<Vec<u8>> = GLWEPlaintext::alloc_from_infos(&ct);
                            let mut pt_out = alloc_pt_vec_znx(ctx.degree(), ct.base2k(), p_out);
                            case(
                                "ckks_extract_pt_znx",
                                format!("{pshape} k_ct={k} ct_log_delta={} pt_log_delta={}", p.log_delta, p_out.log_delta),
                                || module.ckks_extract_pt_znx_tmp_bytes(),
                                |scratch| module.ckks_extract_pt_znx(&mut pt_out, &src, &ct, scratch),
                            );
                        }
                    }
                }

                // ---- unary operations: neg, pow2, rescale, rotate, conjugate ----
                for &k_dst in &ks {
                    let q_d: Ct = ctx.alloc_ct(k_dst);
                    for &k_a in &ks {
                        let shape = format!("{pshape} k_dst={k_dst} k_a={k_a}");
                        let a = enc(k_a, 0, &mut big);
                        let mut dst = ctx.alloc_ct(k_dst);
                        case("ckks_neg_into", shape.clone(), || module.ckks_neg_tmp_bytes(), |s| module.ckks_neg_into(&mut dst, &a, s));
                        for bits in [1usize, b + 3] {
                            let mut dst = ctx.alloc_ct(k_dst);
                            case(
                                "ckks_mul_pow2_into",
                                format!("{shape} bits={bits}"),
                                || module.ckks_mul_pow2_tmp_bytes(),
                                |s| module.ckks_mul_pow2_into(&mut dst, &a, bits, s),
                            );
                            let mut dst = ctx.alloc_ct(k_dst);
                            case(
                                "ckks_div_pow2_into",
                                format!("{shape} bits={bits}"),
                                || module.ckks_div_pow2_tmp_bytes(),
                                |s| module.ckks_div_pow2_into(&mut dst, &a, bits, s),
                            );
                            let mut dst = ctx.alloc_ct(k_dst);
                            case(
                                "ckks_rescale_into",
                                format!("{shape} bits={bits}"),
                                || module.ckks_rescale_tmp_bytes(),
                                |s| module.ckks_rescale_into(&mut dst, bits, &a, s),
                            );
                        }
                        for q_max in [false, true] {
                            let name = qname(q_max, b, k_dst, &[k_a]);
                            let q_ct: Ct = if q_max { ctx.alloc_ct(k_dst.max(k_a)) } else { ctx.alloc_ct(k_dst) };
                            let mut dst = ctx.alloc_ct(k_dst);
                            case(
                                &format!("ckks_rotate_into{name}"),
                                shape.clone(),
                                || module.ckks_rotate_tmp_bytes(&q_ct, &atk_infos),
                                |s| module.ckks_rotate_into(&mut dst, &a, 3, ctx.atks(), s),
                            );
                            let mut dst = ctx.alloc_ct(k_dst);
                            case(
                                &format!("ckks_conjugate_into{name}"),
                                shape.clone(),
                                || module.ckks_conjugate_tmp_bytes(&q_ct, &atk_infos),
                                |s| module.ckks_conjugate_into(&mut dst, &a, ctx.atk(-1), s),
                            );
                        }
                    }
                    // assign variants
                    let shape = format!("{pshape} k_dst={k_dst}");
                    for bits in [1usize, b + 3] {
                        let mut dst = enc(k_dst, 0, &mut big);
                        case(
                            "ckks_mul_pow2_assign",
                            format!("{shape} bits={bits}"),
                            || module.ckks_mul_pow2_tmp_bytes(),
                            |s| module.ckks_mul_pow2_assign(&mut dst, bits, s),
                        );
                        let mut dst = enc(k_dst, 0, &mut big);
                        case(
                            "ckks_rescale_assign",
                            format!("{shape} bits={bits}"),
                            || module.ckks_rescale_tmp_bytes(),
                            |s| module.ckks_rescale_assign(&mut dst, bits, s),
                        );
                    }
                    let mut dst = enc(k_dst, 0, &mut big);
                    case(
                        "ckks_rotate_assign",
                        shape.clone(),
                        || module.ckks_rotate_tmp_bytes(&q_d, &atk_infos),
                        |s| module.ckks_rotate_assign(&mut dst, 1, ctx.atks(), s),
                    );
                    let mut dst = enc(k_dst, 0, &mut big);
                    case(
                        "ckks_conjugate_assign",
                        shape.clone(),
                        || module.ckks_conjugate_tmp_bytes(&q_d, &atk_infos),
                        |s| module.ckks_conjugate_assign(&mut dst, ctx.atk(-1), s),
                    );
                    let mut x = enc(k_dst, 0, &mut big);
                    let mut y = enc(ks[1], 1, &mut big);
                    case(
                        "ckks_align_assign",
                        format!("{shape} k_b={}", ks[1]),
                        || module.ckks_align_tmp_bytes(),
                        |s| module.ckks_align_assign(&mut x, &mut y, s),
                    );
                }

                // ---- binary ciphertext operations ----
                for &k_dst in &ks {
                    let q_d: Ct = ctx.alloc_ct(k_dst);
                    for &k_a in &ks {
                        for &k_b in &ks {
                            let shape = format!("{pshape} k_dst={k_dst} k_a={k_a} k_b={k_b}");
                            let a = enc(k_a, 0, &mut big);
                            let bb = enc(k_b, 1, &mut big);
                            let mut dst = ctx.alloc_ct(k_dst);
                            case("ckks_add_into", shape.clone(), || module.ckks_add_tmp_bytes(), |s| module.ckks_add_into(&mut dst, &a, &bb, s));
                            let mut dst = ctx.alloc_ct(k_dst);
                            case("ckks_sub_into", shape.clone(), || module.ckks_sub_tmp_bytes(), |s| module.ckks_sub_into(&mut dst, &a, &bb, s));

                            for q_max in [false, true] {
                                let name = qname(q_max, b, k_dst, &[k_a, k_b]);
                                let k_q = if q_max { k_dst.max(k_a).max(k_b) } else { k_dst };
                                let q_ct: Ct = ctx.alloc_ct(k_q);
                                let mut dst = ctx.alloc_ct(k_dst);
                                case(
                                    &format!("ckks_mul_into{name}"),
                                    shape.clone(),
                                    || module.ckks_mul_tmp_bytes(&q_ct, &tsk_infos),
                                    |s| module.ckks_mul_into(&mut dst, &a, &bb, ctx.tsk(), s),
                                );
                                let mut dst = enc(k_dst, 1, &mut big);
                                case(
                                    &format!("ckks_mul_add_ct_into{name}"),
                                    shape.clone(),
                                    || module.ckks_mul_add_ct_tmp_bytes(&q_ct, &tsk_infos),
                                    |s| module.ckks_mul_add_ct_into(&mut dst, &a, &bb, ctx.tsk(), s),
                                );
                                let mut dst = enc(k_dst, 1, &mut big);
                                case(
                                    &format!("ckks_mul_sub_ct_into{name}"),
                                    shape.clone(),
                                    || module.ckks_mul_sub_ct_tmp_bytes(&q_ct, &tsk_infos),
                                    |s| module.ckks_mul_sub_ct_into(&mut dst, &a, &bb, ctx.tsk(), s),
                                );
                            }
                        }

                        // dst op= a, square, plaintext operations
                        let shape = format!("{pshape} k_dst={k_dst} k_a={k_a}");
                        let a = enc(k_a, 1, &mut big);
                        let mut dst = enc(k_dst, 0, &mut big);
                        case("ckks_add_assign", shape.clone(), || module.ckks_add_tmp_bytes(), |s| module.ckks_add_assign(&mut dst, &a, s));
                        let mut dst = enc(k_dst, 0, &mut big);
                        case("ckks_sub_assign", shape.clone(), || module.ckks_sub_tmp_bytes(), |s| module.ckks_sub_assign(&mut dst, &a, s));

                        for q_max in [false, true] {
                            let name = qname(q_max, b, k_dst, &[k_a]);
                            let k_q = if q_max { k_dst.max(k_a) } else { k_dst };
                            let q_ct: Ct = ctx.alloc_ct(k_q);
                            let q_a: Ct = ctx.alloc_ct(if q_max { k_q } else { k_a });
                            let mut dst = enc(k_dst, 0, &mut big);
                            case(
                                &format!("ckks_mul_assign{name}"),
                                shape.clone(),
                                || module.ckks_mul_tmp_bytes(&q_ct, &tsk_infos),
                                |s| module.ckks_mul_assign(&mut dst, &a, ctx.tsk(), s),
                            );
                            let mut dst = ctx.alloc_ct(k_dst);
                            case(
                                &format!("ckks_square_into{name}"),
                                shape.clone(),
                                || module.ckks_square_tmp_bytes(&q_ct, &tsk_infos),
                                |s| module.ckks_square_into(&mut dst, &a, ctx.tsk(), s),
                            );

                            for p in [prec, prec_lo] {
                                let pshape2 = format!("{shape} pt_log_delta={}", p.log_delta);
                                let pt_znx = ctx.encode_pt_znx_with_prec(&ctx.re2, &ctx.im2, p);
                                let pt_rnx = ctx.encode_pt_rnx(&ctx.re2, &ctx.im2);

                                // additive plaintext operations (queries without layout arguments are run once)
                                if !q_max {
                                    let mut dst = ctx.alloc_ct(k_dst);
                                    case(
                                        "ckks_add_pt_vec_znx_into",
                                        pshape2.clone(),
                                        || module.ckks_add_pt_vec_znx_tmp_bytes(),
                                        |s| module.ckks_add_pt_vec_znx_into(&mut dst, &a, &pt_znx, s),
                                    );
                                    let mut dst = ctx.alloc_ct(k_dst);
                                    case(
                                        "ckks_sub_pt_vec_znx_into",
                                        pshape2.clone(),
                                        || module.ckks_sub_pt_vec_znx_tmp_bytes(),
                                        |s| module.ckks_sub_pt_vec_znx_into(&mut dst, &a, &pt_znx, s),
                                    );
                                }
                                let mut dst = ctx.alloc_ct(k_dst);
                                case(
                                    &format!("ckks_add_pt_vec_rnx_into{name}"),
                                    pshape2.clone(),
                                    || module.ckks_add_pt_vec_rnx_tmp_bytes(&q_ct, &q_a, &p),
                                    |s| module.ckks_add_pt_vec_rnx_into(&mut dst, &a, &pt_rnx, p, s),
                                );
                                let mut dst = ctx.alloc_ct(k_dst);
                                case(
                                    &format!("ckks_sub_pt_vec_rnx_into{name}"),
                                    pshape2.clone(),
                                    || module.ckks_sub_pt_vec_rnx_tmp_bytes(&q_ct, &q_a, &p),
                                    |s| module.ckks_sub_pt_vec_rnx_into(&mut dst, &a, &pt_rnx, p, s),
                                );

                                // multiplicative plaintext operations
                                let mut dst = ctx.alloc_ct(k_dst);
                                case(
                                    &format!("ckks_mul_pt_vec_znx_into{name}"),
                                    pshape2.clone(),
                                    || module.ckks_mul_pt_vec_znx_tmp_bytes(&q_ct, &q_a, &p),
                                    |s| module.ckks_mul_pt_vec_znx_into(&mut dst, &a, &pt_znx, s),
                                );
                                let mut dst = ctx.alloc_ct(k_dst);
                                case(
                                    &format!("ckks_mul_pt_vec_rnx_into{name}"),
                                    pshape2.clone(),
                                    || module.ckks_mul_pt_vec_rnx_tmp_bytes(&q_ct, &q_a, &p),
                                    |s| module.ckks_mul_pt_vec_rnx_into(&mut dst, &a, &pt_rnx, p, s),
                                );
                                let mut dst = enc(k_dst, 0, &mut big);
                                case(
                                    &format!("ckks_mul_add_pt_vec_znx_into{name}"),
                                    pshape2.clone(),
                                    || module.ckks_mul_add_pt_vec_znx_tmp_bytes(&q_ct, &q_a, &p),
                                    |s| module.ckks_mul_add_pt_vec_znx_into(&mut dst, &a, &pt_znx, s),
                                );
                                let mut dst = enc(k_dst, 0, &mut big);
                                case(
                                    &format!("ckks_mul_sub_pt_vec_znx_into{name}"),
                                    pshape2.clone(),
                                    || module.ckks_mul_sub_pt_vec_znx_tmp_bytes(&q_ct, &q_a, &p),
                                    |s| module.ckks_mul_sub_pt_vec_znx_into(&mut dst, &a, &pt_znx, s),
                                );
                                let mut dst = enc(k_dst, 0, &mut big);
                                case(
                                    &format!("ckks_mul_add_pt_vec_rnx_into{name}"),
                                    pshape2.clone(),
                                    || module.ckks_mul_add_pt_vec_rnx_tmp_bytes(&q_ct, &q_a, &p),
                                    |s| module.ckks_mul_add_pt_vec_rnx_into(&mut dst, &a, &pt_rnx, p, s),
                                );
                                let mut dst = enc(k_dst, 0, &mut big);
                                case(
                                    &format!("ckks_mul_sub_pt_vec_rnx_into{name}"),
                                    pshape2.clone(),
                                    || module.ckks_mul_sub_pt_vec_rnx_tmp_bytes(&q_ct, &q_a, &p),
                                    |s| module.ckks_mul_sub_pt_vec_rnx_into(&mut dst, &a, &pt_rnx, p, s),
                                );

                                // constants: real only, imaginary only, both
                                for (re, im) in [(Some(0.5), None), (None, Some(-0.25)), (Some(0.5), Some(-0.25))] {
                                    let cshape = format!("{pshape2} const=({re:?},{im:?})");
                                    let cst_rnx = ctx.const_rnx(re, im);
                                    let cst_znx: CKKSPlaintextCstZnx = cst_rnx.to_znx(ctx.base2k(), p).unwrap();
                                    if !q_max {
                                        let mut dst = ctx.alloc_ct(k_dst);
                                        case(
                                            "ckks_add_pt_const_znx_into",
                                            cshape.clone(),
                                            || module.ckks_add_pt_const_tmp_bytes(),
                                            |s| module.ckks_add_pt_const_znx_into(&mut dst, &a, &cst_znx, s),
                                        );
                                        let mut dst = ctx.alloc_ct(k_dst);
                                        case(
                                            "ckks_add_pt_const_rnx_into",
                                            cshape.clone(),
                                            || module.ckks_add_pt_const_tmp_bytes(),
                                            |s| module.ckks_add_pt_const_rnx_into(&mut dst, &a, &cst_rnx, p, s),
                                        );
                                        let mut dst = ctx.alloc_ct(k_dst);
                                        case(
                                            "ckks_sub_pt_const_znx_into",
                                            cshape.clone(),
                                            || module.ckks_sub_pt_const_tmp_bytes(),
                                            |s| module.ckks_sub_pt_const_znx_into(&mut dst, &a, &cst_znx, s),
                                        );
                                        let mut dst = ctx.alloc_ct(k_dst);
                                        case(
                                            "ckks_sub_pt_const_rnx_into",
                                            cshape.clone(),
                                            || module.ckks_sub_pt_const_tmp_bytes(),
                                            |s| module.ckks_sub_pt_const_rnx_into(&mut dst, &a, &cst_rnx, p, s),
                                        );
                                    }
                                    let mut dst = ctx.alloc_ct(k_dst);
                                    case(
                                        &format!("ckks_mul_pt_const_znx_into{name}"),
                                        cshape.clone(),
                                        || module.ckks_mul_pt_const_tmp_bytes(&q_ct, &q_a, &p),
                                        |s| module.ckks_mul_pt_const_znx_into(&mut dst, &a, &cst_znx, s),
                                    );
                                    let mut dst = ctx.alloc_ct(k_dst);
                                    case(
                                        &format!("ckks_mul_pt_const_rnx_into{name}"),
                                        cshape.clone(),
                                        || module.ckks_mul_pt_const_tmp_bytes(&q_ct, &q_a, &p),
                                        |s| module.ckks_mul_pt_const_rnx_into(&mut dst, &a, &cst_rnx, p, s),
                                    );
                                    let mut dst = enc(k_dst, 0, &mut big);
                                    case(
                                        &format!("ckks_mul_add_pt_const_znx_into{name}"),
                                        cshape.clone(),
                                        || module.ckks_mul_add_pt_const_tmp_bytes(&q_ct, &q_a, &p),
                                        |s| module.ckks_mul_add_pt_const_znx_into(&mut dst, &a, &cst_znx, s),
                                    );
                                    let mut dst = enc(k_dst, 0, &mut big);
                                    case(
                                        &format!("ckks_mul_sub_pt_const_rnx_into{name}"),
                                        cshape.clone(),
                                        || module.ckks_mul_sub_pt_const_tmp_bytes(&q_ct, &q_a, &p),
                                        |s| module.ckks_mul_sub_pt_const_rnx_into(&mut dst, &a, &cst_rnx, p, s),
                                    );
                                }
                            }
                        }
                    }

                    // in-place plaintext operations and square_assign
                    let shape = format!("{pshape} k_dst={k_dst}");
                    let mut dst = enc(k_dst, 0, &mut big);
                    case(
                        "ckks_square_assign",
                        shape.clone(),
                        || module.ckks_square_tmp_bytes(&q_d, &tsk_infos),
                        |s| module.ckks_square_assign(&mut dst, ctx.tsk(), s),
                    );
                    for p in [prec, prec_lo] {
                        let pshape2 = format!("{shape} pt_log_delta={}", p.log_delta);
                        let pt_znx = ctx.encode_pt_znx_with_prec(&ctx.re2, &ctx.im2, p);
                        let pt_rnx = ctx.encode_pt_rnx(&ctx.re2, &ctx.im2);
                        let mut dst = enc(k_dst, 0, &mut big);
                        case(
                            "ckks_add_pt_vec_znx_assign",
                            pshape2.clone(),
                            || module.ckks_add_pt_vec_znx_tmp_bytes(),
                            |s| module.ckks_add_pt_vec_znx_assign(&mut dst, &pt_znx, s),
                        );
                        let mut dst = enc(k_dst, 0, &mut big);
                        case(
                            "ckks_sub_pt_vec_znx_assign",
                            pshape2.clone(),
                            || module.ckks_sub_pt_vec_znx_tmp_bytes(),
                            |s| module.ckks_sub_pt_vec_znx_assign(&mut dst, &pt_znx, s),
                        );
                        let mut dst = enc(k_dst, 0, &mut big);
                        case(
                            "ckks_add_pt_vec_rnx_assign",
                            pshape2.clone(),
                            || module.ckks_add_pt_vec_rnx_tmp_bytes(&q_d, &q_d, &p),
                            |s| module.ckks_add_pt_vec_rnx_assign(&mut dst, &pt_rnx, p, s),
                        );
                        let mut dst = enc(k_dst, 0, &mut big);
                        case(
                            "ckks_sub_pt_vec_rnx_assign",
                            pshape2.clone(),
                            || module.ckks_sub_pt_vec_rnx_tmp_bytes(&q_d, &q_d, &p),
                            |s| module.ckks_sub_pt_vec_rnx_assign(&mut dst, &pt_rnx, p, s),
                        );
                        let mut dst = enc(k_dst, 0, &mut big);
                        case(
                            "ckks_mul_pt_vec_znx_assign",
                            pshape2.clone(),
                            || module.ckks_mul_pt_vec_znx_tmp_bytes(&q_d, &q_d, &p),
                            |s| module.ckks_mul_pt_vec_znx_assign(&mut dst, &pt_znx, s),
                        );
                        let mut dst = enc(k_dst, 0, &mut big);
                        case(
                            "ckks_mul_pt_vec_rnx_assign",
                            pshape2.clone(),
                            || module.ckks_mul_pt_vec_rnx_tmp_bytes(&q_d, &q_d, &p),
                            |s| module.ckks_mul_pt_vec_rnx_assign(&mut dst, &pt_rnx, p, s),
                        );
                        for (re, im) in [(Some(0.5), None), (None, Some(-0.25)), (Some(0.5), Some(-0.25))] {
                            let cshape = format!("{pshape2} const=({re:?},{im:?})");
                            let cst_rnx = ctx.const_rnx(re, im);
                            let cst_znx: CKKSPlaintextCstZnx = cst_rnx.to_znx(ctx.base2k(), p).unwrap();
                            let mut dst = enc(k_dst, 0, &mut big);
                            case(
                                "ckks_add_pt_const_znx_assign",
                                cshape.clone(),
                                || module.ckks_add_pt_const_tmp_bytes(),
                                |s| module.ckks_add_pt_const_znx_assign(&mut dst, &cst_znx, s),
                            );
                            let mut dst = enc(k_dst, 0, &mut big);
                            case(
                                "ckks_sub_pt_const_rnx_assign",
                                cshape.clone(),
                                || module.ckks_sub_pt_const_tmp_bytes(),
                                |s| module.ckks_sub_pt_const_rnx_assign(&mut dst, &cst_rnx, p, s),
                            );
                            let mut dst = enc(k_dst, 0, &mut big);
                            case(
                                "ckks_mul_pt_const_znx_assign",
                                cshape.clone(),
                                || module.ckks_mul_pt_const_tmp_bytes(&q_d, &q_d, &p),
                                |s| module.ckks_mul_pt_const_znx_assign(&mut dst, &cst_znx, s),
                            );
                            let mut dst = enc(k_dst, 0, &mut big);
                            case(
                                "ckks_mul_pt_const_rnx_assign",
                                cshape.clone(),
                                || module.ckks_mul_pt_const_tmp_bytes(&q_d, &q_d, &p),
                                |s| module.ckks_mul_pt_const_rnx_assign(&mut dst, &cst_rnx, p, s),
                            );
                        }
                    }

                    // ---- n-ary operations ----
                    for n_terms in [1usize, 2, 3, 5] {
                        for &k_in in &ks {
                            let shape = format!("{pshape} k_dst={k_dst} k_in={k_in} terms={n_terms}");
                            let cts: Vec<Ct> = (0..n_terms).map(|i| enc(if i % 2 == 0 { k_in } else { k_full }, i % 2, &mut big)).collect();
                            let refs: Vec<&Ct> = cts.iter().collect();
                            let mut dst = ctx.alloc_ct(k_dst);
                            case(
                                "ckks_add_many",
                                shape.clone(),
                                || module.ckks_add_many_tmp_bytes(),
                                |s| module.ckks_add_many(&mut dst, &refs, s),
                            );
                            for q_max in [false, true] {
                                let name = qname(q_max, b, k_dst, &if n_terms > 1 { vec![k_in, k_full] } else { vec![k_in] });
                                let q_ct: Ct = ctx.alloc_ct(if q_max { k_full } else { k_dst });
                                let mut dst = ctx.alloc_ct(k_dst);
                                case(
                                    &format!("ckks_mul_many{name}"),
                                    shape.clone(),
                                    || module.ckks_mul_many_tmp_bytes(n_terms, &q_ct, &tsk_infos),
                                    |s| module.ckks_mul_many(&mut dst, &refs, ctx.tsk(), s),
                                );
                                let mut dst = ctx.alloc_ct(k_dst);
                                case(
                                    &format!("ckks_dot_product_ct{name}"),
                                    shape.clone(),
                                    || module.ckks_dot_product_ct_tmp_bytes(n_terms, &q_ct, &tsk_infos),
                                    |s| module.ckks_dot_product_ct(&mut dst, &refs, &refs, ctx.tsk(), s),
                                );
                                let p = prec;
                                let pts_znx: Vec<CKKSPlaintextZnx<Vec<u8>>> =
                                    (0..n_terms).map(|_| ctx.encode_pt_znx_with_prec(&ctx.re2, &ctx.im2, p)).collect();
                                let pts_znx_refs: Vec<&CKKSPlaintextZnx<Vec<u8>>> = pts_znx.iter().collect();
                                let pts_rnx: Vec<CKKSPlaintextRnx<f64>> = (0..n_terms).map(|_| ctx.encode_pt_rnx(&ctx.re2, &ctx.im2)).collect();
                                let pts_rnx_refs: Vec<&CKKSPlaintextRnx<f64>> = pts_rnx.iter().collect();
                                let csts_rnx: Vec<CKKSPlaintextCstRnx<f64>> = (0..n_terms).map(|_| ctx.const_rnx(Some(0.5), Some(-0.25))).collect();
                                let csts_rnx_refs: Vec<&CKKSPlaintextCstRnx<f64>> = csts_rnx.iter().collect();
                                let csts_znx: Vec<CKKSPlaintextCstZnx> = csts_rnx.iter().map(|c| c.to_znx(ctx.base2k(), p).unwrap()).collect();
                                let csts_znx_refs: Vec<&CKKSPlaintextCstZnx> = csts_znx.iter().collect();
                                let q_a: Ct = ctx.alloc_ct(k_full);
                                let mut dst = ctx.alloc_ct(k_dst);
                                case(
                                    &format!("ckks_dot_product_pt_vec_znx{name}"),
                                    shape.clone(),
                                    || module.ckks_dot_product_pt_vec_znx_tmp_bytes(&q_ct, &q_a, &p),
                                    |s| module.ckks_dot_product_pt_vec_znx(&mut dst, &refs, &pts_znx_refs, s),
                                );
                                let mut dst = ctx.alloc_ct(k_dst);
                                case(
                                    &format!("ckks_dot_product_pt_vec_rnx{name}"),
                                    shape.clone(),
                                    || module.ckks_dot_product_pt_vec_rnx_tmp_bytes(&q_ct, &q_a, &p),
                                    |s| module.ckks_dot_product_pt_vec_rnx(&mut dst, &refs, &pts_rnx_refs, p, s),
                                );
                                let mut dst = ctx.alloc_ct(k_dst);
                                case(
                                    &format!("ckks_dot_product_pt_const_znx{name}"),
                                    shape.clone(),
                                    || module.ckks_dot_product_pt_const_tmp_bytes(&q_ct, &q_a, &p),
                                    |s| module.ckks_dot_product_pt_const_znx(&mut dst, &refs, &csts_znx_refs, s),
                                );
                                let mut dst = ctx.alloc_ct(k_dst);
                                case(
                                    &format!("ckks_dot_product_pt_const_rnx{name}"),
                                    shape.clone(),
                                    || module.ckks_dot_product_pt_const_tmp_bytes(&q_ct, &q_a, &p),
                                    |s| module.ckks_dot_product_pt_const_rnx(&mut dst, &refs, &csts_rnx_refs, p, s),
                                );
                            }
                        }
                    }
                }
            }
        }

        #[test]
        fn app_scratch_sweep() {
            let _g = SERIAL.lock().unwrap_or_else(|e| e.into_inner());
            install_hook();
            let t = std::time::Instant::now();
            sweep_ckks();
            println!("[{NAME}] ckks sweep: {:?}", t.elapsed());
            let _ = std::panic::take_hook();
            report_and_check(NAME);
        }
    };
}

mod fft64 {
    use super::*;
    type BE = FFT64Ref;
    const NAME: &str = "FFT64Ref";
    fn param_grid() -> Vec<CKKSTestParams> {
        let mut v = Vec::new();
        for n in [16usize, 64] {
            for (base2k, limbs) in [(19usize, 8usize), (19, 6), (12, 9)] {
                for dsize in [1usize, 2, 3] {
                    if limbs % dsize != 0 {
                        continue; // the key layouts need (limbs + dsize) to be a multiple of dsize
                    }
                    v.push(CKKSTestParams {
                        n,
                        base2k,
                        k: limbs * base2k,
                        prec: CKKSMeta {
                            log_delta: 30,
                            log_budget: 10,
                        },
                        hw: n / 2,
                        dsize,
                    });
                }
            }
        }
        v
    }
    sweep_body!();
}

mod ntt120 {
    use super::*;
    type BE = NTT120Ref;
    const NAME: &str = "NTT120Ref";
    fn param_grid() -> Vec<CKKSTestParams> {
        let mut v = Vec::new();
        for n in [16usize, 64] {
            for (base2k, limbs) in [(52usize, 6usize), (19, 8), (40, 5)] {
                for dsize in [1usize, 2, 3] {
                    if limbs % dsize != 0 {
                        continue; // the key layouts need (limbs + dsize) to be a multiple of dsize
                    }
                    v.push(CKKSTestParams {
                        n,
                        base2k,
                        k: limbs * base2k,
                        prec: CKKSMeta {
                            log_delta: 40,
                            log_budget: 30,
                        },
                        hw: n / 2,
                        dsize,
                    });
                }
            }
        }
        v
    }
    sweep_body!();
}
