//! Investigation (A): extended block-binary blind rotation when a mask coefficient
//! mod-switches to `a_i` with a zero high part, i.e. `a_i mod 2N*ext` in `(0, ext)` or in
//! `(2N*ext - ext, 2N*ext)`, at a position where the secret bit is 1.
//!
//! Setup mirrors `blind_rotation::tests::test_suite::generic_blind_rotation`.
//! The expected result is rebuilt in the clear from the (possibly modified) ciphertext and the
//! secret: `idx = b + <a, s> mod 2N*ext` over the mod-switched ciphertext, and the first limb
//! of the decrypted accumulator must be exactly the sub-polynomial 0 of `X^{idx} * LUT`.

use poulpy_bin_fhe::blind_rotation::{
    BlindRotationKey, BlindRotationKeyEncryptSk, BlindRotationKeyLayout, BlindRotationKeyPrepared, CGGI, LookUpTableLayout,
    LookupTable, mod_switch_2n,
};
use poulpy_core::{
    EncryptionLayout, GLWEDecrypt, LWEEncryptSk,
    layouts::{
        GLWE, GLWELayout, GLWEPlaintext, GLWESecret, GLWESecretPreparedFactory, LWE, LWELayout, LWEPlaintext, LWESecret,
        LWEToRef, prepared::GLWESecretPrepared,
    },
};
use poulpy_cpu_ref::FFT64Ref;
use poulpy_hal::{
    api::{ModuleNew, ScratchOwnedAlloc, ScratchOwnedBorrow},
    layouts::{DeviceBuf, Module, ScratchOwned, ZnxView, ZnxViewMut},
    source::Source,
};

const BASE2K: usize = 19;
const LOG_MSG: usize = 4;
const TRIALS: usize = 6;

struct Case {
    name: String,
    /// message encrypted
    x: i64,
    /// (mask position, forced value of the mod-switched coefficient in (-ext, ext))
    forced: Option<(usize, i64)>,
    /// true if the case is a control that must pass on the unmodified library
    control: bool,
    /// if set, `b` is overwritten so that the final index is `delta` positions after the point where the
    /// constant coefficient crosses from one table entry to the next
    idx_delta: Option<i64>,
}

fn f(x: i64) -> i64 {
    2 * x + 1
}

/// Runs all cases for one extension factor; returns the list of (case name, control?, ok?, details).
fn run(n_glwe: usize, n_lwe: usize, block_size: usize, extension_factor: usize) -> Vec<(String, bool, bool, String)> {
    let module: Module<FFT64Ref> = Module::<FFT64Ref>::new(n_glwe as u64);
    let module = &module;

    let k_lwe: usize = 24;
    let k_brk: usize = 3 * BASE2K;
    let rows_brk: usize = 2;
    let k_lut: usize = BASE2K;
    let k_res: usize = 2 * BASE2K;
    let rank: usize = 1;
    let message_modulus: usize = 1 << LOG_MSG;

    let mut source_xs: Source = Source::new([2u8; 32]);
    let mut source_xe: Source = Source::new([2u8; 32]);
    let mut source_xa: Source = Source::new([1u8; 32]);

    let brk_infos = EncryptionLayout::new_from_default_sigma(BlindRotationKeyLayout {
        n_glwe: n_glwe.into(),
        n_lwe: n_lwe.into(),
        base2k: BASE2K.into(),
        k: k_brk.into(),
        dnum: rows_brk.into(),
        rank: rank.into(),
    })
    .unwrap();
    let glwe_infos = EncryptionLayout::new_from_default_sigma(GLWELayout {
        n: n_glwe.into(),
        base2k: BASE2K.into(),
        k: k_res.into(),
        rank: rank.into(),
    })
    .unwrap();
    let lwe_infos = EncryptionLayout::new_from_default_sigma(LWELayout {
        n: n_lwe.into(),
        k: k_lwe.into(),
        base2k: BASE2K.into(),
    })
    .unwrap();

    let mut scratch: ScratchOwned<FFT64Ref> =
        ScratchOwned::<FFT64Ref>::alloc(BlindRotationKey::encrypt_sk_tmp_bytes(module, &brk_infos));

    let mut sk_glwe: GLWESecret<Vec<u8>> = GLWESecret::alloc_from_infos(&glwe_infos);
    sk_glwe.fill_ternary_prob(0.5, &mut source_xs);
    let mut sk_glwe_dft: GLWESecretPrepared<DeviceBuf<FFT64Ref>, FFT64Ref> =
        module.glwe_secret_prepared_alloc_from_infos(&glwe_infos);
    module.glwe_secret_prepare(&mut sk_glwe_dft, &sk_glwe);

    let mut sk_lwe: LWESecret<Vec<u8>> = LWESecret::alloc(n_lwe.into());
    sk_lwe.fill_binary_block(block_size, &mut source_xs);

    let mut scratch_br: ScratchOwned<FFT64Ref> = ScratchOwned::<FFT64Ref>::alloc(BlindRotationKeyPrepared::execute_tmp_bytes(
        module,
        block_size,
        extension_factor,
        &glwe_infos,
        &brk_infos,
    ));

    let mut brk: BlindRotationKey<Vec<u8>, CGGI> = BlindRotationKey::<Vec<u8>, CGGI>::alloc(&brk_infos);
    module.blind_rotation_key_encrypt_sk(
        &mut brk,
        &sk_glwe_dft,
        &sk_lwe,
        &brk_infos,
        &mut source_xe,
        &mut source_xa,
        scratch.borrow(),
    );
    let mut brk_prepared: BlindRotationKeyPrepared<DeviceBuf<FFT64Ref>, CGGI, FFT64Ref> =
        BlindRotationKeyPrepared::alloc(module, &brk);
    brk_prepared.prepare(module, &brk, scratch_br.borrow());

    let f_vec: Vec<i64> = (0..message_modulus as i64).map(f).collect();
    let lut_infos = LookUpTableLayout {
        n: module.n().into(),
        extension_factor,
        k: k_lut.into(),
        base2k: BASE2K.into(),
    };
    let mut lut: LookupTable = LookupTable::alloc(&lut_infos);
    lut.set(module, &f_vec, LOG_MSG + 1);

    // Clear model of the table: lut_full[u] = f[u / step] * 2^{base2k - (log_msg+1)} on the first limb,
    // pre-rotated by X^{-drift}, drift = step/2.
    let domain: usize = lut.domain_size();
    let two_d: usize = 2 * domain;
    let step: usize = domain / message_modulus;
    let drift: usize = step / 2;
    let scale: i64 = 1 << (BASE2K - (LOG_MSG + 1));
    let lut_full = |u: usize| -> i64 { f_vec[u / step] * scale };
    // coefficient t of X^{r} * lut_full in Z[X]/(X^D + 1)
    let rotated = |r: usize, t: usize| -> i64 {
        let u: usize = (t + two_d - r) % two_d;
        if u < domain { lut_full(u) } else { -lut_full(u - domain) }
    };

    // Positions of a secret bit equal to one / zero
    let sk: Vec<i64> = sk_lwe.raw().to_vec();
    let one_pos: Vec<usize> = (0..n_lwe).filter(|&i| sk[i] == 1).collect();
    let zero_pos: Vec<usize> = (0..n_lwe).filter(|&i| sk[i] == 0).collect();
    assert!(one_pos.len() >= 4 && !zero_pos.is_empty());

    let mut cases: Vec<Case> = Vec::new();
    for x in [0i64, 5, 15] {
        cases.push(Case {
            name: format!("control: honest ciphertext, x={x}"),
            x,
            forced: None,
            control: true,
            idx_delta: None,
        });
    }
    // a_i with ai_lo != 0 and a generic high part: exercises the "rotation between polynomials" branch
    // on a path where both guarded updates are taken.
    cases.push(Case {
        name: format!("control: a_i = 5*ext+1 (ai_lo=1, ai_hi=5) at s_i=1 (pos {})", one_pos[0]),
        x: 5,
        forced: Some((one_pos[0], 5 * extension_factor as i64 + 1)),
        control: true,
        idx_delta: None,
    });
    // The skipped update is `sk * (acc[j] - acc[i])`, j != i: it is non-zero only where the table changes value
    // between two sub-polynomials, which depends on the running rotation at the start of the block. Several
    // honest ciphertexts (different b, a) are therefore tried per forced value.
    for v in 1..extension_factor as i64 {
        for sgn in [1i64, -1] {
            let v = sgn * v;
            for trial in 0..TRIALS {
                let x: i64 = (3 * trial as i64 + 1) % 16;
                cases.push(Case {
                    name: format!("control: a_i = {v} at s_i=0 (pos {}), x={x}", zero_pos[0]),
                    x,
                    forced: Some((zero_pos[0], v)),
                    control: true,
                    idx_delta: None,
                });
                cases.push(Case {
                    name: format!("TARGET : a_i = {v} at s_i=1 (pos {}), x={x}", one_pos[1]),
                    x,
                    forced: Some((one_pos[1], v)),
                    control: false,
                    idx_delta: None,
                });
            }
        }
    }
    // Same forced values, with the index placed around a boundary between two table entries: there the
    // constant coefficient itself depends on the skipped update.
    for v in 1..extension_factor as i64 {
        for sgn in [1i64, -1] {
            let v = sgn * v;
            for delta in (1 - extension_factor as i64)..=(extension_factor as i64) {
                cases.push(Case {
                    name: format!("control: a_i = {v} at s_i=0 (pos {}), idx at boundary{delta:+}", zero_pos[0]),
                    x: 5,
                    forced: Some((zero_pos[0], v)),
                    control: true,
                    idx_delta: Some(delta),
                });
                cases.push(Case {
                    name: format!("TARGET : a_i = {v} at s_i=1 (pos {}), idx at boundary{delta:+}", one_pos[1]),
                    x: 5,
                    forced: Some((one_pos[1], v)),
                    control: false,
                    idx_delta: Some(delta),
                });
            }
        }
    }
    // ai_lo = 0 and ai_hi = 0 (a_i = 0) at s_i = 1: the trivial branch legitimately skips the update.
    cases.push(Case {
        name: format!("control: a_i = 0 at s_i=1 (pos {})", one_pos[2]),
        x: 5,
        forced: Some((one_pos[2], 0)),
        control: true,
        idx_delta: None,
    });

    let log_two_d: usize = two_d.trailing_zeros() as usize;
    let mut out = Vec::new();

    for case in cases {
        let mut lwe: LWE<Vec<u8>> = LWE::alloc_from_infos(&lwe_infos);
        let mut pt_lwe: LWEPlaintext<Vec<u8>> = LWEPlaintext::alloc_from_infos(&lwe_infos);
        pt_lwe.encode_i64(case.x, (LOG_MSG + 1).into());
        module.lwe_encrypt_sk(
            &mut lwe,
            &pt_lwe,
            &sk_lwe,
            &lwe_infos,
            &mut source_xe,
            &mut source_xa,
            scratch.borrow(),
        );

        if let Some((pos, v)) = case.forced {
            // Left direction: the switched value is round(-limb0 / 2^{base2k - log2(2N*ext)}).
            lwe.data_mut().at_mut(0, 0)[1 + pos] = -v << (BASE2K - log_two_d);
        }

        let mut lwe_2n: Vec<i64> = vec![0i64; n_lwe + 1];
        mod_switch_2n(two_d, &mut lwe_2n, &lwe.to_ref(), lut.rotation_direction());
        if let Some(delta) = case.idx_delta {
            let idx: i64 = lwe_2n[0] + lwe_2n[1..].iter().zip(sk.iter()).map(|(a, s)| a * s).sum::<i64>();
            // constant coefficient = lut_full[drift - idx]: it changes entry between idx = drift (mod step) and the next one
            let idx_target: i64 = (drift + 3 * step) as i64 + delta;
            let mut new_b: i64 = (lwe_2n[0] + idx_target - idx).rem_euclid(two_d as i64);
            if new_b > domain as i64 {
                new_b -= two_d as i64;
            }
            lwe.data_mut().at_mut(0, 0)[0] = -new_b << (BASE2K - log_two_d);
            mod_switch_2n(two_d, &mut lwe_2n, &lwe.to_ref(), lut.rotation_direction());
            assert_eq!(
                lwe_2n[0].rem_euclid(two_d as i64),
                new_b.rem_euclid(two_d as i64),
                "crafting b failed"
            );
        }
        if let Some((pos, v)) = case.forced {
            assert_eq!(lwe_2n[1 + pos], v, "crafting failed");
        }
        // census of the mask coefficients with a zero high part under a secret bit 1
        let hits: Vec<(usize, i64)> = (0..n_lwe)
            .filter(|&i| sk[i] == 1)
            .map(|i| (i, lwe_2n[1 + i]))
            .filter(|&(_, a)| {
                let p = a.rem_euclid(two_d as i64) as usize;
                p % extension_factor != 0 && (p / extension_factor == 0 || p / extension_factor == 2 * n_glwe - 1)
            })
            .collect();

        let idx: usize =
            (lwe_2n[0] + lwe_2n[1..].iter().zip(sk.iter()).map(|(a, s)| a * s).sum::<i64>()).rem_euclid(two_d as i64) as usize;
        // acc = X^{idx} * (X^{-drift} * lut_full)
        let r: usize = (idx + two_d - drift) % two_d;

        let mut res: GLWE<Vec<u8>> = GLWE::alloc_from_infos(&glwe_infos);
        brk_prepared.execute(module, &mut res, &lwe, &lut, scratch_br.borrow());

        let mut pt_have: GLWEPlaintext<Vec<u8>> = GLWEPlaintext::alloc_from_infos(&glwe_infos);
        module.glwe_decrypt(&res, &mut pt_have, &sk_glwe_dft, scratch.borrow());

        // (1) whole first limb of the result == sub-polynomial 0 of the rotated table
        let modulus: i64 = 1 << BASE2K;
        let have_limb0: &[i64] = pt_have.data.at(0, 0);
        let n_bad: usize = (0..n_glwe)
            .filter(|&j| (have_limb0[j] - rotated(r, j * extension_factor)).rem_euclid(modulus) != 0)
            .count();

        // (2) decoded constant coefficient == table entry for the true index (mod 2*message_modulus, sign included)
        let m2: i64 = 2 * message_modulus as i64;
        let have: i64 = pt_have.decode_coeff_i64((LOG_MSG + 1).into(), 0).rem_euclid(m2);
        let want: i64 = (rotated(r, 0) / scale).rem_euclid(m2);

        // (3) for honest ciphertexts, the usual functional check
        if case.forced.is_none() {
            assert_eq!(
                want % message_modulus as i64,
                f(case.x) % message_modulus as i64,
                "clear model is off"
            );
        }

        let ok: bool = n_bad == 0 && have == want;
        // an honest mask can contain such a coefficient by itself: the case is then not a control
        let control: bool = case.control && hits.is_empty();
        out.push((
            if control == case.control {
                case.name.clone()
            } else {
                case.name.replace("control:", "NATURAL:")
            },
            control,
            ok,
            format!("idx={idx} coeff0 have={have} want={want}; limb-0 coefficients off: {n_bad}/{n_glwe}; zero-high-part a_i under s_i=1: {hits:?}"),
        ));
    }
    out
}

fn report(ext: usize) {
    let results = run(512, 224, 7, ext);
    let mut failed_controls = 0;
    let mut failed_targets = 0;
    for (name, control, ok, details) in &results {
        println!("[ext={ext}] {} {name}: {details}", if *ok { "ok  " } else { "FAIL" });
        if !ok {
            if *control { failed_controls += 1 } else { failed_targets += 1 }
        }
    }
    assert_eq!(failed_controls, 0, "ext={ext}: {failed_controls} control case(s) failed");
    assert_eq!(
        failed_targets, 0,
        "ext={ext}: {failed_targets} target case(s) failed (controls all pass)"
    );
}

#[test]
fn block_binary_extended_zero_high_part_ext2() {
    report(2);
}

#[test]
fn block_binary_extended_zero_high_part_ext4() {
    report(4);
}
