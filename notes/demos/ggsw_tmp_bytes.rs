// Demo: `ggsw_keyswitch_tmp_bytes` / `ggsw_automorphism_tmp_bytes` / `ggsw_expand_rows_tmp_bytes` must be
// sufficient when the GGSW has a smaller torus precision than the keys (res.k < key.k).
//
// Place this file at: poulpy-cpu-ref/tests/ggsw_tmp_bytes.rs
// Run with:           cargo test -p poulpy-cpu-ref --test ggsw_tmp_bytes --offline -j 4
//
// Every operation is executed with a scratch arena of EXACTLY the size returned by its `*_tmp_bytes`
// query (this must not panic), and a second time with a much larger arena; both results must be
// bit-identical.
//
// Before the fix the in-place variants (and `ggsw_expand_row` itself) panic when res.k < tsk.k and
// res.base2k == tsk.base2k: `ggsw_expand_rows_tmp_bytes` budgets the DFT accumulator with
// ceil(res.k / tsk.base2k) limbs, but `ggsw_expand_rows_internal` takes it with `tsk.size()` limbs.

use poulpy_core::{
    EncryptionLayout, GGLWEToGGSWKeyEncryptSk, GGSWAutomorphism, GGSWEncryptSk, GGSWExpandRows, GGSWKeyswitch,
    GLWEAutomorphismKeyEncryptSk, GLWESwitchingKeyEncryptSk,
    layouts::{
        GGLWEToGGSWKey, GGLWEToGGSWKeyLayout, GGLWEToGGSWKeyPrepared, GGLWEToGGSWKeyPreparedFactory, GGSW, GGSWInfos, GGSWLayout,
        GLWEAutomorphismKey, GLWEAutomorphismKeyLayout, GLWEAutomorphismKeyPreparedFactory, GLWEInfos, GLWESecret,
        GLWESecretPreparedFactory, GLWESwitchingKey, GLWESwitchingKeyLayout, GLWESwitchingKeyPreparedFactory,
        prepared::{GLWEAutomorphismKeyPrepared, GLWESecretPrepared, GLWESwitchingKeyPrepared},
    },
};
use poulpy_hal::{
    api::{ModuleNew, ScratchOwnedAlloc, ScratchOwnedBorrow},
    layouts::{DeviceBuf, Module, ScalarZnx, Scratch, ScratchOwned, ZnxView, ZnxViewMut},
    source::Source,
};

const N: usize = 64;
const SETUP_SCRATCH: usize = 1 << 22;

#[derive(Clone, Copy, Debug)]
struct Cfg {
    rank: usize,
    /// base2k of the GGSW
    res_b2k: usize,
    /// base2k of the keys
    key_b2k: usize,
    /// true: res.k == key.k, false: res.k = key.k - dsize * key_b2k (the usual "one extra digit" keys)
    same_k: bool,
}

fn cfgs(b: usize) -> Vec<Cfg> {
    let mut v = Vec::new();
    for rank in 1..3 {
        for same_k in [false, true] {
            v.push(Cfg { rank, res_b2k: b, key_b2k: b, same_k });
            v.push(Cfg { rank, res_b2k: b - 1, key_b2k: b, same_k });
        }
    }
    v
}

macro_rules! per_dsize {
    ($name1:ident, $name2:ident, $name3:ident, $f:ident) => {
        #[test]
        fn $name1() {
            $f(1)
        }
        #[test]
        fn $name2() {
            $f(2)
        }
        #[test]
        fn $name3() {
            $f(3)
        }
    };
}

macro_rules! suite {
    ($modname:ident, $be:ty, $base2k:expr) => {
        mod $modname {
            use super::*;

            type BE = $be;
            const B: usize = $base2k;

            struct Setup {
                module: Module<BE>,
                res_l: GGSWLayout,
                ksk_l: GLWESwitchingKeyLayout,
                atk_l: GLWEAutomorphismKeyLayout,
                tsk_l: GGLWEToGGSWKeyLayout,
                ggsw: GGSW<Vec<u8>>,
                ksk: GLWESwitchingKeyPrepared<DeviceBuf<BE>, BE>,
                atk: GLWEAutomorphismKeyPrepared<DeviceBuf<BE>, BE>,
                tsk: GGLWEToGGSWKeyPrepared<DeviceBuf<BE>, BE>,
            }

            fn setup(cfg: &Cfg, dsize: usize) -> Setup {
                let module: Module<BE> = Module::<BE>::new(N as u64);
                let k_in: usize = 4 * cfg.res_b2k;
                let k_key: usize = k_in + cfg.key_b2k * dsize;
                let dnum_key: usize = k_in.div_ceil(cfg.key_b2k * dsize);
                let k_res: usize = if cfg.same_k { k_key } else { k_in };

                let res_l = GGSWLayout {
                    n: N.into(),
                    base2k: cfg.res_b2k.into(),
                    k: k_res.into(),
                    dnum: (k_in / cfg.res_b2k).into(),
                    dsize: 1usize.into(),
                    rank: cfg.rank.into(),
                };
                let ksk_l = GLWESwitchingKeyLayout {
                    n: N.into(),
                    base2k: cfg.key_b2k.into(),
                    k: k_key.into(),
                    dnum: dnum_key.into(),
                    dsize: dsize.into(),
                    rank_in: cfg.rank.into(),
                    rank_out: cfg.rank.into(),
                };
                let atk_l = GLWEAutomorphismKeyLayout {
                    n: N.into(),
                    base2k: cfg.key_b2k.into(),
                    k: k_key.into(),
                    dnum: dnum_key.into(),
                    dsize: dsize.into(),
                    rank: cfg.rank.into(),
                };
                let tsk_l = GGLWEToGGSWKeyLayout {
                    n: N.into(),
                    base2k: cfg.key_b2k.into(),
                    k: k_key.into(),
                    dnum: dnum_key.into(),
                    dsize: dsize.into(),
                    rank: cfg.rank.into(),
                };

                let mut scratch: ScratchOwned<BE> = ScratchOwned::alloc(SETUP_SCRATCH);
                let mut source_xs: Source = Source::new([1u8; 32]);
                let mut source_xe: Source = Source::new([2u8; 32]);
                let mut source_xa: Source = Source::new([3u8; 32]);

                let mut sk_in: GLWESecret<Vec<u8>> = GLWESecret::alloc(N.into(), cfg.rank.into());
                sk_in.fill_ternary_prob(0.5, &mut source_xs);
                let mut sk_in_prep: GLWESecretPrepared<DeviceBuf<BE>, BE> = module.glwe_secret_prepared_alloc(cfg.rank.into());
                module.glwe_secret_prepare(&mut sk_in_prep, &sk_in);
                let mut sk_out: GLWESecret<Vec<u8>> = GLWESecret::alloc(N.into(), cfg.rank.into());
                sk_out.fill_ternary_prob(0.5, &mut source_xs);

                let res_infos = EncryptionLayout::new_from_default_sigma(res_l).unwrap();
                let mut pt: ScalarZnx<Vec<u8>> = ScalarZnx::alloc(N, 1);
                pt.fill_ternary_hw(0, N, &mut source_xs);
                let mut ggsw: GGSW<Vec<u8>> = GGSW::alloc_from_infos(&res_infos);
                module.ggsw_encrypt_sk(&mut ggsw, &pt, &sk_in_prep, &res_infos, &mut source_xe, &mut source_xa, scratch.borrow());

                let ksk_infos = EncryptionLayout::new_from_default_sigma(ksk_l).unwrap();
                let mut ksk_raw: GLWESwitchingKey<Vec<u8>> = GLWESwitchingKey::alloc_from_infos(&ksk_infos);
                module.glwe_switching_key_encrypt_sk(
                    &mut ksk_raw,
                    &sk_in,
                    &sk_out,
                    &ksk_infos,
                    &mut source_xe,
                    &mut source_xa,
                    scratch.borrow(),
                );
                let mut ksk: GLWESwitchingKeyPrepared<DeviceBuf<BE>, BE> = module.glwe_switching_key_prepared_alloc_from_infos(&ksk_raw);
                module.glwe_switching_key_prepare(&mut ksk, &ksk_raw, scratch.borrow());

                let atk_infos = EncryptionLayout::new_from_default_sigma(atk_l).unwrap();
                let mut atk_raw: GLWEAutomorphismKey<Vec<u8>> = GLWEAutomorphismKey::alloc_from_infos(&atk_infos);
                module.glwe_automorphism_key_encrypt_sk(
                    &mut atk_raw,
                    -5,
                    &sk_in,
                    &atk_infos,
                    &mut source_xe,
                    &mut source_xa,
                    scratch.borrow(),
                );
                let mut atk: GLWEAutomorphismKeyPrepared<DeviceBuf<BE>, BE> =
                    module.glwe_automorphism_key_prepared_alloc_from_infos(&atk_raw);
                module.glwe_automorphism_key_prepare(&mut atk, &atk_raw, scratch.borrow());

                let tsk_infos = EncryptionLayout::new_from_default_sigma(tsk_l).unwrap();
                let mut tsk_raw: GGLWEToGGSWKey<Vec<u8>> = GGLWEToGGSWKey::alloc_from_infos(&tsk_infos);
                module.gglwe_to_ggsw_key_encrypt_sk(&mut tsk_raw, &sk_out, &tsk_infos, &mut source_xe, &mut source_xa, scratch.borrow());
                let mut tsk: GGLWEToGGSWKeyPrepared<DeviceBuf<BE>, BE> = module.gglwe_to_ggsw_key_prepared_alloc_from_infos(&tsk_raw);
                module.gglwe_to_ggsw_key_prepare(&mut tsk, &tsk_raw, scratch.borrow());

                Setup {
                    module,
                    res_l,
                    ksk_l,
                    atk_l,
                    tsk_l,
                    ggsw,
                    ksk,
                    atk,
                    tsk,
                }
            }

            fn dump(g: &GGSW<Vec<u8>>) -> Vec<i64> {
                let mut out: Vec<i64> = Vec::new();
                for row in 0..g.dnum().as_usize() {
                    for col in 0..g.rank().as_usize() + 1 {
                        out.extend_from_slice(g.at(row, col).data().raw());
                    }
                }
                out
            }

            fn copy(src: &GGSW<Vec<u8>>, layout: &GGSWLayout) -> GGSW<Vec<u8>> {
                let mut g: GGSW<Vec<u8>> = GGSW::alloc_from_infos(layout);
                for row in 0..g.dnum().as_usize() {
                    for col in 0..g.rank().as_usize() + 1 {
                        g.at_mut(row, col).data_mut().raw_mut().copy_from_slice(src.at(row, col).data().raw());
                    }
                }
                g
            }

            /// exact-size run (must not panic) == oversized run
            fn check<F: FnMut(&mut Scratch<BE>) -> Vec<i64>>(what: &str, cfg: &Cfg, tmp_bytes: usize, mut f: F) {
                let mut exact: ScratchOwned<BE> = ScratchOwned::alloc(tmp_bytes);
                let have = f(exact.borrow());
                let mut large: ScratchOwned<BE> = ScratchOwned::alloc(8 * tmp_bytes + (1 << 16));
                let want = f(large.borrow());
                assert!(have == want, "{what} {cfg:?}: result changes with the amount of spare scratch");
            }

            fn keyswitch_assign(dsize: usize) {
                for cfg in cfgs(B) {
                    let s = setup(&cfg, dsize);
                    let bytes = s.module.ggsw_keyswitch_tmp_bytes(&s.res_l, &s.res_l, &s.ksk_l, &s.tsk_l);
                    check("ggsw_keyswitch_assign", &cfg, bytes, |scratch| {
                        let mut res = copy(&s.ggsw, &s.res_l);
                        s.module.ggsw_keyswitch_assign(&mut res, &s.ksk, &s.tsk, scratch);
                        dump(&res)
                    });
                }
            }

            fn keyswitch(dsize: usize) {
                for cfg in cfgs(B) {
                    let s = setup(&cfg, dsize);
                    let bytes = s.module.ggsw_keyswitch_tmp_bytes(&s.res_l, &s.res_l, &s.ksk_l, &s.tsk_l);
                    check("ggsw_keyswitch", &cfg, bytes, |scratch| {
                        let mut res: GGSW<Vec<u8>> = GGSW::alloc_from_infos(&s.res_l);
                        s.module.ggsw_keyswitch(&mut res, &s.ggsw, &s.ksk, &s.tsk, scratch);
                        dump(&res)
                    });
                }
            }

            fn automorphism_assign(dsize: usize) {
                for cfg in cfgs(B) {
                    let s = setup(&cfg, dsize);
                    let bytes = s.module.ggsw_automorphism_tmp_bytes(&s.res_l, &s.res_l, &s.atk_l, &s.tsk_l);
                    check("ggsw_automorphism_assign", &cfg, bytes, |scratch| {
                        let mut res = copy(&s.ggsw, &s.res_l);
                        s.module.ggsw_automorphism_assign(&mut res, &s.atk, &s.tsk, scratch);
                        dump(&res)
                    });
                }
            }

            fn automorphism(dsize: usize) {
                for cfg in cfgs(B) {
                    let s = setup(&cfg, dsize);
                    let bytes = s.module.ggsw_automorphism_tmp_bytes(&s.res_l, &s.res_l, &s.atk_l, &s.tsk_l);
                    check("ggsw_automorphism", &cfg, bytes, |scratch| {
                        let mut res: GGSW<Vec<u8>> = GGSW::alloc_from_infos(&s.res_l);
                        s.module.ggsw_automorphism(&mut res, &s.ggsw, &s.atk, &s.tsk, scratch);
                        dump(&res)
                    });
                }
            }

            fn expand_row(dsize: usize) {
                for cfg in cfgs(B) {
                    let s = setup(&cfg, dsize);
                    let bytes = s.module.ggsw_expand_rows_tmp_bytes(&s.res_l, &s.tsk_l);
                    check("ggsw_expand_row", &cfg, bytes, |scratch| {
                        let mut res = copy(&s.ggsw, &s.res_l);
                        s.module.ggsw_expand_row(&mut res, &s.tsk, scratch);
                        dump(&res)
                    });
                }
            }

            per_dsize!(ggsw_keyswitch_assign_dsize1, ggsw_keyswitch_assign_dsize2, ggsw_keyswitch_assign_dsize3, keyswitch_assign);
            per_dsize!(ggsw_keyswitch_dsize1, ggsw_keyswitch_dsize2, ggsw_keyswitch_dsize3, keyswitch);
            per_dsize!(
                ggsw_automorphism_assign_dsize1,
                ggsw_automorphism_assign_dsize2,
                ggsw_automorphism_assign_dsize3,
                automorphism_assign
            );
            per_dsize!(ggsw_automorphism_dsize1, ggsw_automorphism_dsize2, ggsw_automorphism_dsize3, automorphism);
            per_dsize!(ggsw_expand_row_dsize1, ggsw_expand_row_dsize2, ggsw_expand_row_dsize3, expand_row);
        }
    };
}

suite!(fft64, poulpy_cpu_ref::FFT64Ref, 17);
suite!(ntt120, poulpy_cpu_ref::NTT120Ref, 52);
