// place at poulpy-cpu-ref/tests/decrypt_exact_scratch.rs ; cargo test -p poulpy-cpu-ref --test decrypt_exact_scratch --offline
// glwe_decrypt with a scratch of exactly glwe_decrypt_tmp_bytes: before the fix the NTT120 single-limb case panics
// ("Attempted to take 768 from scratch with 512 aligned bytes left"): the query budgeted vec_znx_normalize_tmp_bytes but the code calls vec_znx_big_normalize.
use poulpy_core::{GLWEDecrypt, layouts::{GLWE, GLWELayout, GLWEPlaintext, GLWEPlaintextLayout, GLWESecretPreparedFactory, prepared::GLWESecretPrepared}};
use poulpy_hal::{api::{ModuleNew, ScratchOwnedAlloc, ScratchOwnedBorrow}, layouts::{Backend, DeviceBuf, Module, ScratchOwned}};
fn decrypt_exact_scratch<BE: Backend>(n: usize, base2k: usize, k: usize, rank: usize)
where
    Module<BE>: ModuleNew<BE> + GLWEDecrypt<BE> + GLWESecretPreparedFactory<BE>,
    ScratchOwned<BE>: ScratchOwnedAlloc<BE> + ScratchOwnedBorrow<BE>,
{
    let module: Module<BE> = Module::<BE>::new(n as u64);
    let infos = GLWELayout { n: (n as u32).into(), base2k: (base2k as u32).into(), k: (k as u32).into(), rank: (rank as u32).into() };
    let ct: GLWE<Vec<u8>> = GLWE::alloc_from_infos(&infos);
    let mut pt: GLWEPlaintext<Vec<u8>> = GLWEPlaintext::alloc_from_infos(&GLWEPlaintextLayout { n: (n as u32).into(), base2k: (base2k as u32).into(), k: (k as u32).into() });
    let sk: GLWESecretPrepared<DeviceBuf<BE>, BE> = module.glwe_secret_prepared_alloc((rank as u32).into());
    let bytes = module.glwe_decrypt_tmp_bytes(&infos);
    let mut scratch: ScratchOwned<BE> = ScratchOwned::alloc(bytes);
    module.glwe_decrypt(&ct, &mut pt, &sk, scratch.borrow());
}
#[test] fn fft64_size1() { decrypt_exact_scratch::<poulpy_cpu_ref::FFT64Ref>(16, 17, 17, 1); }
#[test] fn ntt120_size2() { decrypt_exact_scratch::<poulpy_cpu_ref::NTT120Ref>(16, 17, 34, 1); }
#[test] fn ntt120_size1() { decrypt_exact_scratch::<poulpy_cpu_ref::NTT120Ref>(16, 17, 17, 1); }
