//! Scratch-size sweep for poulpy-core operations.
//!
//! Placement: copy this file to `poulpy-cpu-ref/tests/core_scratch_sweep.rs`.
//! Run:       `cargo test -p poulpy-cpu-ref --test core_scratch_sweep --offline -j 5 -- --nocapture --test-threads 5`
//! Optional:  `SWEEP_REPORT_DIR=/some/dir` writes one text report per (backend, family).
//!
//! For every (operation, `*_tmp_bytes`) pair, the sweep builds valid operands, hands the operation a scratch
//! slice of EXACTLY the advertised number of bytes (carved from a 64-byte aligned buffer, with a guard zone behind
//! it), runs it under `catch_unwind` and records every panic. If the exact slice fails with a scratch panic the case
//! is re-run with the byte count rounded up to 64 (what `ScratchOwned::alloc` really allocates) to separate
//! alignment-padding shortfalls from real ones. Each test asserts at the end that no scratch failure was seen.
#![allow(clippy::too_many_arguments, clippy::type_complexity, unused_imports, dead_code, unused_variables, unused_mut)]

use std::{
    cell::RefCell,
    collections::{BTreeMap, HashMap},
    panic::{self, AssertUnwindSafe},
    sync::Once,
};

use poulpy_core::{
    GLWEPacker, ScratchTakeCore,
    api::*,
    glwe_packer_add, glwe_packer_flush, glwe_packer_tmp_bytes,
    layouts::{
        Base2K, Degree, Dnum, Dsize, GGLWE, GGLWECompressed, GGLWEInfos, GGLWELayout, GGLWEPreparedFactory, GGLWEToGGSWKey,
        GGLWEToGGSWKeyCompressed, GGLWEToGGSWKeyPrepared, GGLWEToGGSWKeyPreparedFactory, GGSW, GGSWCompressed, GGSWInfos,
        GGSWLayout, GGSWPrepared, GGSWPreparedFactory, GLWE, GLWEAutomorphismKey, GLWEAutomorphismKeyCompressed,
        GLWEAutomorphismKeyPrepared, GLWEAutomorphismKeyPreparedFactory, GLWECompressed, GLWEInfos, GLWELayout, GLWEPlaintext,
        GLWEPublicKey, GLWEPublicKeyPrepared, GLWEPublicKeyPreparedFactory, GLWESecret, GLWESecretPrepared,
        GLWESecretPreparedFactory, GLWESecretTensor, GLWESecretTensorFactory, GLWESecretTensorPrepared,
        GLWESecretTensorPreparedFactory, GLWESwitchingKey, GLWESwitchingKeyCompressed, GLWESwitchingKeyPrepared,
        GLWESwitchingKeyPreparedFactory, GLWETensor, GLWETensorKey, GLWETensorKeyCompressed, GLWETensorKeyPrepared,
        GLWETensorKeyPreparedFactory, GLWEToLWEKey, GLWEToLWEKeyPrepared, GLWEToLWEKeyPreparedFactory, LWE, LWEInfos, LWELayout,
        LWEPlaintext, LWESecret, LWESwitchingKey, LWESwitchingKeyPrepared, LWESwitchingKeyPreparedFactory, LWEToGLWEKey,
        LWEToGLWEKeyPrepared, LWEToGLWEKeyPreparedFactory, Rank, TorusPrecision,
    },
};
use poulpy_cpu_ref::{FFT64Ref, NTT120Ref};
use poulpy_hal::{
    api::{ModuleN, ModuleNew, ScratchAvailable, ScratchFromBytes, ScratchOwnedAlloc, ScratchOwnedBorrow},
    layouts::{DeviceBuf, FillUniform, Module, NoiseInfos, ScalarZnx, Scratch, ScratchOwned},
    source::Source,
};

// ---------------------------------------------------------------------------------------------------------------------
// Panic capture
// ---------------------------------------------------------------------------------------------------------------------

thread_local! {
    static LAST_PANIC: RefCell<Option<String>> = const { RefCell::new(None) };
    static CATCHING: std::cell::Cell<bool> = const { std::cell::Cell::new(false) };
}
static HOOK: Once = Once::new();

fn install_hook() {
    HOOK.call_once(|| {
        panic::set_hook(Box::new(|info| {
            let msg: String = if let Some(s) = info.payload().downcast_ref::<&str>() {
                (*s).to_string()
            } else if let Some(s) = info.payload().downcast_ref::<String>() {
                s.clone()
            } else {
                "<non-string panic>".to_string()
            };
            let loc: String = info
                .location()
                .map(|l| format!("{}:{}", l.file(), l.line()))
                .unwrap_or_else(|| "?".into());
            if !CATCHING.with(|c| c.get()) {
                eprintln!("[uncaught panic in sweep driver] {msg} @ {loc}");
            }
            LAST_PANIC.with(|p| *p.borrow_mut() = Some(format!("{msg} @ {loc}")));
        }));
    });
}

fn is_scratch_panic(msg: &str) -> bool {
    msg.contains("Attempted to take") || msg.contains("scratch.available()")
}

// ---------------------------------------------------------------------------------------------------------------------
// Report
// ---------------------------------------------------------------------------------------------------------------------

#[derive(Default)]
struct OpStat {
    cases: usize,
    /// fails with exactly tmp_bytes AND with tmp_bytes rounded up to 64
    scratch_fail: Vec<(String, String)>,
    /// fails with exactly tmp_bytes, passes once rounded up to a multiple of 64
    align_fail: Vec<(String, String)>,
    /// any other panic (shape asserts, index out of bounds, ...)
    other_fail: Vec<(String, String)>,
    guard_fail: Vec<String>,
}

struct Report {
    backend: &'static str,
    family: &'static str,
    ops: BTreeMap<String, OpStat>,
}

impl Report {
    fn new(backend: &'static str, family: &'static str) -> Self {
        install_hook();
        Self {
            backend,
            family,
            ops: BTreeMap::new(),
        }
    }

    fn n_scratch_fail(&self) -> usize {
        self.ops.values().map(|o| o.scratch_fail.len() + o.align_fail.len()).sum()
    }

    fn render(&self) -> String {
        let mut s = String::new();
        s += &format!("==== backend={} family={}\n", self.backend, self.family);
        for (op, st) in &self.ops {
            s += &format!(
                "{:<52} cases={:<6} scratch_fail={:<5} align_only_fail={:<5} other_panic={:<5} guard={}\n",
                op,
                st.cases,
                st.scratch_fail.len(),
                st.align_fail.len(),
                st.other_fail.len(),
                st.guard_fail.len()
            );
        }
        for (op, st) in &self.ops {
            for (kind, v) in [("SCRATCH", &st.scratch_fail), ("ALIGN", &st.align_fail), ("OTHER", &st.other_fail)] {
                if v.is_empty() {
                    continue;
                }
                s += &format!("--- {op} {kind}: first failures (of {})\n", v.len());
                // distinct messages (strip numbers) -> first shape
                let mut seen: BTreeMap<String, usize> = BTreeMap::new();
                for (shape, msg) in v.iter() {
                    let key: String = msg.chars().filter(|c| !c.is_ascii_digit()).collect();
                    let c = seen.entry(key).or_insert(0);
                    *c += 1;
                    if *c <= 3 {
                        s += &format!("    [{shape}] {msg}\n");
                    }
                }
            }
            for g in st.guard_fail.iter().take(3) {
                s += &format!("--- {op} GUARD ZONE OVERWRITTEN: {g}\n");
            }
        }
        s
    }

    fn finish(&self) {
        let txt = self.render();
        println!("{txt}");
        if let Ok(dir) = std::env::var("SWEEP_REPORT_DIR") {
            let _ = std::fs::write(format!("{dir}/sweep_{}_{}.txt", self.backend, self.family), &txt);
            let mut full = String::new();
            for (op, st) in &self.ops {
                for (kind, v) in [("SCRATCH", &st.scratch_fail), ("ALIGN", &st.align_fail), ("OTHER", &st.other_fail)] {
                    for (shape, msg) in v.iter() {
                        full += &format!("{op}\t{kind}\t{shape}\t{}\n", msg.replace('\n', " "));
                    }
                }
            }
            let _ = std::fs::write(format!("{dir}/sweep_{}_{}.full.txt", self.backend, self.family), &full);
        }
        assert_eq!(
            self.n_scratch_fail(),
            0,
            "{} scratch failures, see report above",
            self.n_scratch_fail()
        );
    }
}

const GUARD: usize = 256;

/// Runs `f` with a scratch of exactly `bytes` bytes. Returns None on success, Some(msg) on panic.
fn run_exact<BE>(bytes: usize, f: &mut dyn FnMut(&mut Scratch<BE>)) -> (Option<String>, bool)
where
    BE: poulpy_hal::layouts::Backend,
    Scratch<BE>: ScratchFromBytes<BE>,
{
    let mut buf: Vec<u8> = poulpy_hal::alloc_aligned::<u8>(bytes + GUARD);
    for b in buf[bytes..].iter_mut() {
        *b = 0xA5;
    }
    LAST_PANIC.with(|p| *p.borrow_mut() = None);
    let res = {
        let (head, _) = buf.split_at_mut(bytes);
        let scratch: &mut Scratch<BE> = Scratch::<BE>::from_bytes(head);
        CATCHING.with(|c| c.set(true));
        let r = panic::catch_unwind(AssertUnwindSafe(|| f(scratch)));
        CATCHING.with(|c| c.set(false));
        r
    };
    let guard_ok: bool = buf[bytes..bytes + GUARD].iter().all(|b| *b == 0xA5);
    match res {
        Ok(()) => (None, guard_ok),
        Err(_) => (
            Some(LAST_PANIC.with(|p| p.borrow_mut().take()).unwrap_or_else(|| "<no msg>".into())),
            guard_ok,
        ),
    }
}

fn exec<BE>(rep: &mut Report, op: &str, shape: String, bytes: usize, f: &mut dyn FnMut(&mut Scratch<BE>))
where
    BE: poulpy_hal::layouts::Backend,
    Scratch<BE>: ScratchFromBytes<BE>,
{
    let st: &mut OpStat = rep.ops.entry(op.to_string()).or_default();
    st.cases += 1;
    let shape = format!("{shape} tmp_bytes={bytes}");
    let (r, guard_ok) = run_exact::<BE>(bytes, f);
    if !guard_ok {
        st.guard_fail.push(shape.clone());
    }
    if let Some(msg) = r {
        if is_scratch_panic(&msg) {
            let (r2, _) = run_exact::<BE>(bytes.next_multiple_of(64), f);
            match r2 {
                None => st.align_fail.push((shape, msg)),
                Some(_) => st.scratch_fail.push((shape, msg)),
            }
        } else {
            st.other_fail.push((shape, msg));
        }
    }
}

/// Records a panic of a setup step or of an operation that allocates its own scratch.
fn exec_noscratch(rep: &mut Report, op: &str, shape: String, f: &mut dyn FnMut()) -> bool {
    let st: &mut OpStat = rep.ops.entry(op.to_string()).or_default();
    st.cases += 1;
    LAST_PANIC.with(|p| *p.borrow_mut() = None);
    CATCHING.with(|c| c.set(true));
    let r = panic::catch_unwind(AssertUnwindSafe(f));
    CATCHING.with(|c| c.set(false));
    match r {
        Ok(()) => true,
        Err(_) => {
            let msg = LAST_PANIC.with(|p| p.borrow_mut().take()).unwrap_or_else(|| "<no msg>".into());
            if is_scratch_panic(&msg) {
                st.scratch_fail.push((shape, msg));
            } else {
                st.other_fail.push((shape, msg));
            }
            false
        }
    }
}

// ---------------------------------------------------------------------------------------------------------------------
// Layout helpers
// ---------------------------------------------------------------------------------------------------------------------

/// torus precision such that ceil(k / base2k) == size and k is not a multiple of base2k.
fn kof(size: usize, b: usize) -> TorusPrecision {
    TorusPrecision((size * b - b / 2) as u32)
}

fn glwe_l(n: usize, b: usize, size: usize, rank: usize) -> GLWELayout {
    GLWELayout {
        n: Degree(n as u32),
        base2k: Base2K(b as u32),
        k: kof(size, b),
        rank: Rank(rank as u32),
    }
}

fn lwe_l(n: usize, b: usize, size: usize) -> LWELayout {
    LWELayout {
        n: Degree(n as u32),
        base2k: Base2K(b as u32),
        k: kof(size, b),
    }
}

fn gglwe_l(n: usize, b: usize, size: usize, rank_in: usize, rank_out: usize, dnum: usize, dsize: usize) -> GGLWELayout {
    GGLWELayout {
        n: Degree(n as u32),
        base2k: Base2K(b as u32),
        k: kof(size, b),
        rank_in: Rank(rank_in as u32),
        rank_out: Rank(rank_out as u32),
        dnum: Dnum(dnum as u32),
        dsize: Dsize(dsize as u32),
    }
}

fn ggsw_l(n: usize, b: usize, size: usize, rank: usize, dnum: usize, dsize: usize) -> GGSWLayout {
    GGSWLayout {
        n: Degree(n as u32),
        base2k: Base2K(b as u32),
        k: kof(size, b),
        rank: Rank(rank as u32),
        dnum: Dnum(dnum as u32),
        dsize: Dsize(dsize as u32),
    }
}

fn noise(k: TorusPrecision) -> NoiseInfos {
    NoiseInfos::new(k.0 as usize, 3.2, 19.2).unwrap()
}

fn src(seed: u8) -> Source {
    Source::new([seed; 32])
}

/// (dsize, size, dnum) triples admissible for a GGLWE/GGSW: size > dsize, dnum*dsize <= size.
fn gadget_shapes(max_dsize: usize) -> Vec<(usize, usize, usize)> {
    let mut v = Vec::new();
    for dsize in 1..=max_dsize {
        for size in [dsize + 1, dsize + 2, 2 * dsize + 2] {
            let max_dnum = size / dsize;
            let mut dnums = vec![1, max_dnum];
            if max_dnum > 2 {
                dnums.push(max_dnum / 2 + 1);
            }
            dnums.sort();
            dnums.dedup();
            for dnum in dnums {
                v.push((dsize, size, dnum));
            }
        }
    }
    v
}

const NS: [usize; 3] = [8, 16, 64];
const BIG: usize = 1 << 24;

// ---------------------------------------------------------------------------------------------------------------------
// Per-backend sweep (instantiated below for FFT64Ref and NTT120Ref)
// ---------------------------------------------------------------------------------------------------------------------

macro_rules! backend_sweep {
    ($modname:ident, $be:ty, $name:expr, $bases:expr) => {
        mod $modname {
            use super::*;
            type BE = $be;
            const NAME: &str = $name;
            /// (base2k of inputs, base2k of keys, base2k of outputs)
            fn bases() -> Vec<(usize, usize, usize)> {
                $bases
            }

            // ----- per-backend body (BE, NAME, bases() are defined by the enclosing module) -----

            type Md = Module<BE>;

            fn ex(rep: &mut Report, op: &str, shape: String, bytes: usize, f: &mut dyn FnMut(&mut Scratch<BE>)) {
                exec::<BE>(rep, op, shape, bytes, f)
            }

            fn module(n: usize) -> Md {
                Module::<BE>::new(n as u64)
            }

            fn big() -> ScratchOwned<BE> {
                ScratchOwned::<BE>::alloc(BIG)
            }

            fn flat_bases() -> Vec<usize> {
                let mut v: Vec<usize> = bases().iter().flat_map(|(a, b, c)| [*a, *b, *c]).collect();
                v.sort();
                v.dedup();
                v
            }

            fn mk_sk(m: &Md, n: usize, rank: usize, seed: u8) -> (GLWESecret<Vec<u8>>, GLWESecretPrepared<DeviceBuf<BE>, BE>) {
                let mut sk: GLWESecret<Vec<u8>> = GLWESecret::alloc(Degree(n as u32), Rank(rank as u32));
                sk.fill_ternary_prob(0.5, &mut src(seed));
                let mut sk_prep: GLWESecretPrepared<DeviceBuf<BE>, BE> = m.glwe_secret_prepared_alloc(Rank(rank as u32));
                m.glwe_secret_prepare(&mut sk_prep, &sk);
                (sk, sk_prep)
            }

            fn mk_lwe_sk(n: usize, seed: u8) -> LWESecret<Vec<u8>> {
                let mut sk: LWESecret<Vec<u8>> = LWESecret::alloc(Degree(n as u32));
                sk.fill_ternary_prob(0.5, &mut src(seed));
                sk
            }

            fn mk_glwe(m: &Md, l: &GLWELayout, sk: &GLWESecretPrepared<DeviceBuf<BE>, BE>, big: &mut ScratchOwned<BE>) -> GLWE<Vec<u8>> {
                let mut ct: GLWE<Vec<u8>> = GLWE::alloc_from_infos(l);
                m.glwe_encrypt_zero_sk(&mut ct, sk, &noise(l.k), &mut src(3), &mut src(4), big.borrow());
                ct
            }

            fn mk_ksk(
                m: &Md,
                l: &GGLWELayout,
                sk_in: &GLWESecret<Vec<u8>>,
                sk_out: &GLWESecret<Vec<u8>>,
                big: &mut ScratchOwned<BE>,
            ) -> GLWESwitchingKeyPrepared<DeviceBuf<BE>, BE> {
                let mut ksk: GLWESwitchingKey<Vec<u8>> =
                    GLWESwitchingKey::alloc(l.n, l.base2k, l.k, l.rank_in, l.rank_out, l.dnum, l.dsize);
                m.glwe_switching_key_encrypt_sk(&mut ksk, sk_in, sk_out, &noise(l.k), &mut src(5), &mut src(6), big.borrow());
                let mut prep: GLWESwitchingKeyPrepared<DeviceBuf<BE>, BE> = m.glwe_switching_key_prepared_alloc_from_infos(&ksk);
                m.glwe_switching_key_prepare(&mut prep, &ksk, big.borrow());
                prep
            }

            fn mk_atk_std(
                m: &Md,
                l: &GGLWELayout,
                p: i64,
                sk: &GLWESecret<Vec<u8>>,
                big: &mut ScratchOwned<BE>,
            ) -> GLWEAutomorphismKey<Vec<u8>> {
                let mut atk: GLWEAutomorphismKey<Vec<u8>> = GLWEAutomorphismKey::alloc(l.n, l.base2k, l.k, l.rank_out, l.dnum, l.dsize);
                m.glwe_automorphism_key_encrypt_sk(&mut atk, p, sk, &noise(l.k), &mut src(7), &mut src(8), big.borrow());
                atk
            }

            fn mk_atk(
                m: &Md,
                l: &GGLWELayout,
                p: i64,
                sk: &GLWESecret<Vec<u8>>,
                big: &mut ScratchOwned<BE>,
            ) -> GLWEAutomorphismKeyPrepared<DeviceBuf<BE>, BE> {
                let atk = mk_atk_std(m, l, p, sk, big);
                let mut prep: GLWEAutomorphismKeyPrepared<DeviceBuf<BE>, BE> = m.glwe_automorphism_key_prepared_alloc_from_infos(&atk);
                m.glwe_automorphism_key_prepare(&mut prep, &atk, big.borrow());
                prep
            }

            fn mk_tsk(
                m: &Md,
                l: &GGLWELayout,
                sk: &GLWESecret<Vec<u8>>,
                big: &mut ScratchOwned<BE>,
            ) -> GGLWEToGGSWKeyPrepared<DeviceBuf<BE>, BE> {
                let mut tsk: GGLWEToGGSWKey<Vec<u8>> = GGLWEToGGSWKey::alloc(l.n, l.base2k, l.k, l.rank_out, l.dnum, l.dsize);
                GGLWEToGGSWKeyEncryptSk::gglwe_to_ggsw_key_encrypt_sk(m, &mut tsk, sk, &noise(l.k), &mut src(9), &mut src(10), big.borrow());
                let mut prep: GGLWEToGGSWKeyPrepared<DeviceBuf<BE>, BE> = m.gglwe_to_ggsw_key_prepared_alloc_from_infos(&tsk);
                m.gglwe_to_ggsw_key_prepare(&mut prep, &tsk, big.borrow());
                prep
            }

            fn mk_ggsw_std(
                m: &Md,
                l: &GGSWLayout,
                sk: &GLWESecretPrepared<DeviceBuf<BE>, BE>,
                big: &mut ScratchOwned<BE>,
            ) -> GGSW<Vec<u8>> {
                let n: usize = l.n.0 as usize;
                let mut pt: ScalarZnx<Vec<u8>> = ScalarZnx::alloc(n, 1);
                pt.fill_ternary_prob(0, 0.5, &mut src(11));
                let mut ct: GGSW<Vec<u8>> = GGSW::alloc_from_infos(l);
                m.ggsw_encrypt_sk(&mut ct, &pt, sk, &noise(l.k), &mut src(12), &mut src(13), big.borrow());
                ct
            }

            fn mk_ggsw(
                m: &Md,
                l: &GGSWLayout,
                sk: &GLWESecretPrepared<DeviceBuf<BE>, BE>,
                big: &mut ScratchOwned<BE>,
            ) -> GGSWPrepared<DeviceBuf<BE>, BE> {
                let ct = mk_ggsw_std(m, l, sk, big);
                let mut prep: GGSWPrepared<DeviceBuf<BE>, BE> = m.ggsw_prepared_alloc_from_infos(&ct);
                m.ggsw_prepare(&mut prep, &ct, big.borrow());
                prep
            }

            fn mk_gglwe_ksk_std(
                m: &Md,
                l: &GGLWELayout,
                sk_in: &GLWESecret<Vec<u8>>,
                sk_out: &GLWESecret<Vec<u8>>,
                big: &mut ScratchOwned<BE>,
            ) -> GLWESwitchingKey<Vec<u8>> {
                let mut ksk: GLWESwitchingKey<Vec<u8>> =
                    GLWESwitchingKey::alloc(l.n, l.base2k, l.k, l.rank_in, l.rank_out, l.dnum, l.dsize);
                m.glwe_switching_key_encrypt_sk(&mut ksk, sk_in, sk_out, &noise(l.k), &mut src(14), &mut src(15), big.borrow());
                ksk
            }

            // =====================================================================================================================
            // Family: LWE encryption / decryption
            // =====================================================================================================================

            #[test]
            fn lwe_enc_dec() {
                let mut rep = Report::new(NAME, "lwe_enc_dec");
                let m = module(16);
                let bs = flat_bases();
                for n_lwe in [1usize, 7, 22, 64] {
                    let sk = mk_lwe_sk(n_lwe, 1);
                    for &b in &bs {
                        for size in 1..=4usize {
                            for pt_size in [1usize, size, size + 1] {
                                let l = lwe_l(n_lwe, b, size);
                                let mut ct: LWE<Vec<u8>> = LWE::alloc_from_infos(&l);
                                let mut pt: LWEPlaintext<Vec<u8>> = LWEPlaintext::alloc(Base2K(b as u32), kof(pt_size, b));
                                pt.encode_i64(3, TorusPrecision(4));
                                let shape = format!("n_lwe={n_lwe} base2k={b} size={size} pt_size={pt_size}");
                                let bytes = m.lwe_encrypt_sk_tmp_bytes(&l);
                                ex(&mut rep, "lwe_encrypt_sk", shape.clone(), bytes, &mut |s| {
                                    m.lwe_encrypt_sk(&mut ct, &pt, &sk, &noise(l.k), &mut src(2), &mut src(3), s)
                                });
                                for &b_pt in &bs {
                                    let mut pt_out: LWEPlaintext<Vec<u8>> = LWEPlaintext::alloc(Base2K(b_pt as u32), kof(pt_size, b_pt));
                                    let bytes = m.lwe_decrypt_tmp_bytes(&ct);
                                    ex(&mut rep, "lwe_decrypt", format!("{shape} pt_base2k={b_pt}"), bytes, &mut |s| {
                                        m.lwe_decrypt(&ct, &mut pt_out, &sk, s)
                                    });
                                }
                            }
                        }
                    }
                }
                rep.finish();
            }

            // =====================================================================================================================
            // Family: GLWE encryption (sk, zero sk, compressed, pk, zero pk, public key generation), glwe_noise, tensor decrypt
            // =====================================================================================================================

            #[test]
            fn glwe_enc() {
                let mut rep = Report::new(NAME, "glwe_enc");
                let bs = flat_bases();
                for n in NS {
                    let m = module(n);
                    for rank in 1..=3usize {
                        let (sk, sk_prep) = mk_sk(&m, n, rank, 1);
                        for &b in &bs {
                            for size in 1..=4usize {
                                let l = glwe_l(n, b, size, rank);
                                for pt_size in [1usize, size, size + 1] {
                                    let shape = format!("n={n} rank={rank} base2k={b} size={size} pt_size={pt_size}");
                                    let mut ct: GLWE<Vec<u8>> = GLWE::alloc_from_infos(&l);
                                    let mut pt: GLWEPlaintext<Vec<u8>> = GLWEPlaintext::alloc(l.n, l.base2k, kof(pt_size, b));
                                    pt.data_mut().fill_uniform(b, &mut src(9));

                                    let bytes = m.glwe_encrypt_sk_tmp_bytes(&l);
                                    ex(&mut rep, "glwe_encrypt_sk", shape.clone(), bytes, &mut |s| {
                                        m.glwe_encrypt_sk(&mut ct, &pt, &sk_prep, &noise(l.k), &mut src(2), &mut src(3), s)
                                    });
                                    if pt_size == size {
                                        ex(&mut rep, "glwe_encrypt_zero_sk", shape.clone(), bytes, &mut |s| {
                                            m.glwe_encrypt_zero_sk(&mut ct, &sk_prep, &noise(l.k), &mut src(2), &mut src(3), s)
                                        });
                                    }

                                    let mut ctc: GLWECompressed<Vec<u8>> = GLWECompressed::alloc_from_infos(&l);
                                    let bytes = m.glwe_compressed_encrypt_sk_tmp_bytes(&l);
                                    ex(&mut rep, "glwe_compressed_encrypt_sk", shape.clone(), bytes, &mut |s| {
                                        m.glwe_compressed_encrypt_sk(&mut ctc, &pt, &sk_prep, [7u8; 32], &noise(l.k), &mut src(2), s)
                                    });

                                    // noise (decrypt + sub + normalize), pt_want in the layout of ct
                                    if pt_size == size {
                                        let bytes = m.glwe_noise_tmp_bytes(&ct);
                                        ex(&mut rep, "glwe_noise", shape.clone(), bytes, &mut |s| {
                                            let _ = m.glwe_noise(&ct, &pt, &sk_prep, s);
                                        });
                                    }
                                }

                                // public key paths: pk limb count smaller / equal / larger than the ciphertext's
                                for pk_size in [size.saturating_sub(1).max(1), size, size + 1, size + 2] {
                                    let shape = format!("n={n} rank={rank} base2k={b} res_size={size} pk_size={pk_size}");
                                    let lpk = glwe_l(n, b, pk_size, rank);
                                    let mut pk: GLWEPublicKey<Vec<u8>> = GLWEPublicKey::alloc_from_infos(&lpk);
                                    let ok = exec_noscratch(&mut rep, "glwe_public_key_generate(internal scratch)", shape.clone(), &mut || {
                                        m.glwe_public_key_generate(&mut pk, &sk_prep, &noise(lpk.k), &mut src(4), &mut src(5))
                                    });
                                    if !ok {
                                        continue;
                                    }
                                    let mut pk_prep: GLWEPublicKeyPrepared<DeviceBuf<BE>, BE> = m.glwe_public_key_prepared_alloc_from_infos(&pk);
                                    m.glwe_public_key_prepare(&mut pk_prep, &pk);
                                    let mut ct: GLWE<Vec<u8>> = GLWE::alloc_from_infos(&l);
                                    let mut pt: GLWEPlaintext<Vec<u8>> = GLWEPlaintext::alloc_from_infos(&l);
                                    pt.data_mut().fill_uniform(b, &mut src(9));
                                    let bytes = m.glwe_encrypt_pk_tmp_bytes(&ct);
                                    ex(&mut rep, "glwe_encrypt_pk", shape.clone(), bytes, &mut |s| {
                                        m.glwe_encrypt_pk(&mut ct, &pt, &pk_prep, &noise(l.k.min(lpk.k)), &mut src(6), &mut src(7), s)
                                    });
                                    ex(&mut rep, "glwe_encrypt_zero_pk", shape.clone(), bytes, &mut |s| {
                                        m.glwe_encrypt_zero_pk(&mut ct, &pk_prep, &noise(l.k.min(lpk.k)), &mut src(6), &mut src(7), s)
                                    });
                                }
                            }
                        }
                    }
                }
                rep.finish();
            }

            #[test]
            fn glwe_tensor_dec() {
                let mut rep = Report::new(NAME, "glwe_tensor_dec");
                let bs = flat_bases();
                for n in NS {
                    let m = module(n);
                    let mut bigs = big();
                    for rank in 1..=3usize {
                        let (sk, sk_prep) = mk_sk(&m, n, rank, 1);

                        let shape = format!("n={n} rank={rank}");
                        let mut sk_tensor: GLWESecretTensor<Vec<u8>> = GLWESecretTensor::alloc(Degree(n as u32), Rank(rank as u32));
                        let bytes = m.glwe_secret_tensor_prepare_tmp_bytes(Rank(rank as u32));
                        ex(&mut rep, "glwe_secret_tensor_prepare", shape.clone(), bytes, &mut |s| {
                            m.glwe_secret_tensor_prepare(&mut sk_tensor, &sk, s)
                        });
                        m.glwe_secret_tensor_prepare(&mut sk_tensor, &sk, bigs.borrow());
                        let mut sk_tensor_prep: GLWESecretTensorPrepared<DeviceBuf<BE>, BE> =
                            m.glwe_secret_tensor_prepared_alloc(Rank(rank as u32));
                        m.glwe_secret_tensor_prepared_prepare(&mut sk_tensor_prep, &sk_tensor);

                        for &b in &bs {
                            for size in 1..=4usize {
                                let l = glwe_l(n, b, size, rank);
                                let mut t: GLWETensor<Vec<u8>> = GLWETensor::alloc_from_infos(&l);
                                t.fill_uniform(b, &mut src(3));
                                for &b_pt in &bs {
                                    for pt_size in [1usize, size, size + 1] {
                                        let mut pt: GLWEPlaintext<Vec<u8>> =
                                            GLWEPlaintext::alloc(Degree(n as u32), Base2K(b_pt as u32), kof(pt_size, b_pt));
                                        let shape =
                                            format!("n={n} rank={rank} base2k={b} size={size} pt_base2k={b_pt} pt_size={pt_size}");
                                        let bytes = m.glwe_tensor_decrypt_tmp_bytes(&t);
                                        ex(&mut rep, "glwe_tensor_decrypt", shape, bytes, &mut |s| {
                                            m.glwe_tensor_decrypt(&t, &mut pt, &sk_prep, &sk_tensor_prep, s)
                                        });
                                    }
                                }
                            }
                        }
                    }
                }
                rep.finish();
            }

            // =====================================================================================================================
            // Family: GGLWE-shaped encryption (gglwe, switching key, automorphism key, tensor key, gglwe->ggsw key, lwe keys),
            //         compressed variants, prepare routines, gglwe_noise
            // =====================================================================================================================

            #[test]
            fn gglwe_enc() {
                let mut rep = Report::new(NAME, "gglwe_enc");
                let bs = flat_bases();
                let mut bigs = big();
                for n in NS {
                    let m = module(n);
                    for rank_in in 1..=2usize {
                        for rank_out in 1..=2usize {
                            let (sk_in, _) = mk_sk(&m, n, rank_in, 1);
                            let mut sk_in_small: GLWESecret<Vec<u8>> = GLWESecret::alloc(Degree((n / 2) as u32), Rank(rank_in as u32));
                            sk_in_small.fill_ternary_prob(0.5, &mut src(3));
                            let (sk_out, sk_out_prep) = mk_sk(&m, n, rank_out, 2);
                            let mut pt: ScalarZnx<Vec<u8>> = ScalarZnx::alloc(n, rank_in);
                            for c in 0..rank_in {
                                pt.fill_ternary_prob(c, 0.5, &mut src(4));
                            }
                            for &b in &bs {
                                for (dsize, size, dnum) in gadget_shapes(3) {
                                    let l = gglwe_l(n, b, size, rank_in, rank_out, dnum, dsize);
                                    let shape =
                                        format!("n={n} rank_in={rank_in} rank_out={rank_out} base2k={b} size={size} dsize={dsize} dnum={dnum}");
                                    let ns = noise(l.k);

                                    // --- plain GGLWE
                                    let mut ct: GGLWE<Vec<u8>> = GGLWE::alloc_from_infos(&l);
                                    let bytes = m.gglwe_encrypt_sk_tmp_bytes(&l);
                                    ex(&mut rep, "gglwe_encrypt_sk", shape.clone(), bytes, &mut |s| {
                                        m.gglwe_encrypt_sk(&mut ct, &pt, &sk_out_prep, &ns, &mut src(5), &mut src(6), s)
                                    });
                                    let mut ctc: GGLWECompressed<Vec<u8>> = GGLWECompressed::alloc_from_infos(&l);
                                    let bytes = m.gglwe_compressed_encrypt_sk_tmp_bytes(&l);
                                    ex(&mut rep, "gglwe_compressed_encrypt_sk", shape.clone(), bytes, &mut |s| {
                                        m.gglwe_compressed_encrypt_sk(&mut ctc, &pt, &sk_out_prep, [3u8; 32], &ns, &mut src(5), s)
                                    });
                                    // noise of (row, col)
                                    m.gglwe_encrypt_sk(&mut ct, &pt, &sk_out_prep, &ns, &mut src(5), &mut src(6), bigs.borrow());
                                    let bytes = m.gglwe_noise_tmp_bytes(&ct);
                                    for (row, col) in [(0usize, 0usize), (dnum - 1, rank_in - 1)] {
                                        ex(&mut rep, "gglwe_noise", format!("{shape} row={row} col={col}"), bytes, &mut |s| {
                                            let _ = m.gglwe_noise(&ct, row, col, &pt, &sk_out_prep, s);
                                        });
                                    }
                                    // prepare
                                    let mut prep = m.gglwe_prepared_alloc_from_infos(&ct);
                                    let bytes = m.gglwe_prepare_tmp_bytes(&l);
                                    ex(&mut rep, "gglwe_prepare", shape.clone(), bytes, &mut |s| m.gglwe_prepare(&mut prep, &ct, s));

                                    // --- GLWE switching key (sk_in of degree n and n/2)
                                    let mut ksk: GLWESwitchingKey<Vec<u8>> =
                                        GLWESwitchingKey::alloc(l.n, l.base2k, l.k, l.rank_in, l.rank_out, l.dnum, l.dsize);
                                    let bytes = m.glwe_switching_key_encrypt_sk_tmp_bytes(&l);
                                    for (tag, ski) in [("n", &sk_in), ("n/2", &sk_in_small)] {
                                        ex(
                                            &mut rep,
                                            "glwe_switching_key_encrypt_sk",
                                            format!("{shape} sk_in.n={tag}"),
                                            bytes,
                                            &mut |s| m.glwe_switching_key_encrypt_sk(&mut ksk, ski, &sk_out, &ns, &mut src(5), &mut src(6), s),
                                        );
                                    }
                                    let mut kskc: GLWESwitchingKeyCompressed<Vec<u8>> =
                                        GLWESwitchingKeyCompressed::alloc(l.n, l.base2k, l.k, l.rank_in, l.rank_out, l.dnum, l.dsize);
                                    let bytes = m.glwe_switching_key_compressed_encrypt_sk_tmp_bytes(&l);
                                    for (tag, ski) in [("n", &sk_in), ("n/2", &sk_in_small)] {
                                        ex(
                                            &mut rep,
                                            "glwe_switching_key_compressed_encrypt_sk",
                                            format!("{shape} sk_in.n={tag}"),
                                            bytes,
                                            &mut |s| {
                                                m.glwe_switching_key_compressed_encrypt_sk(&mut kskc, ski, &sk_out, [3u8; 32], &ns, &mut src(5), s)
                                            },
                                        );
                                    }
                                    let mut ksk_prep: GLWESwitchingKeyPrepared<DeviceBuf<BE>, BE> =
                                        m.glwe_switching_key_prepared_alloc_from_infos(&ksk);
                                    let bytes = m.glwe_switching_key_prepare_tmp_bytes(&l);
                                    ex(&mut rep, "glwe_switching_key_prepare", shape.clone(), bytes, &mut |s| {
                                        m.glwe_switching_key_prepare(&mut ksk_prep, &ksk, s)
                                    });

                                    if rank_in == rank_out {
                                        let rank = rank_out;
                                        // --- automorphism key
                                        let mut atk: GLWEAutomorphismKey<Vec<u8>> =
                                            GLWEAutomorphismKey::alloc(l.n, l.base2k, l.k, l.rank_out, l.dnum, l.dsize);
                                        let bytes = m.glwe_automorphism_key_encrypt_sk_tmp_bytes(&l);
                                        for p in [-1i64, 5] {
                                            ex(&mut rep, "glwe_automorphism_key_encrypt_sk", format!("{shape} p={p}"), bytes, &mut |s| {
                                                m.glwe_automorphism_key_encrypt_sk(&mut atk, p, &sk_out, &ns, &mut src(5), &mut src(6), s)
                                            });
                                        }
                                        let mut atkc: GLWEAutomorphismKeyCompressed<Vec<u8>> =
                                            GLWEAutomorphismKeyCompressed::alloc(l.n, l.base2k, l.k, l.rank_out, l.dnum, l.dsize);
                                        let bytes = m.glwe_automorphism_key_compressed_encrypt_sk_tmp_bytes(&l);
                                        ex(&mut rep, "glwe_automorphism_key_compressed_encrypt_sk", shape.clone(), bytes, &mut |s| {
                                            m.glwe_automorphism_key_compressed_encrypt_sk(&mut atkc, 5, &sk_out, [3u8; 32], &ns, &mut src(5), s)
                                        });
                                        let mut atk_prep: GLWEAutomorphismKeyPrepared<DeviceBuf<BE>, BE> =
                                            m.glwe_automorphism_key_prepared_alloc_from_infos(&atk);
                                        let bytes = m.glwe_automorphism_key_prepare_tmp_bytes(&l);
                                        ex(&mut rep, "glwe_automorphism_key_prepare", shape.clone(), bytes, &mut |s| {
                                            m.glwe_automorphism_key_prepare(&mut atk_prep, &atk, s)
                                        });

                                        // --- gglwe -> ggsw key
                                        let mut tsk: GGLWEToGGSWKey<Vec<u8>> = GGLWEToGGSWKey::alloc(l.n, l.base2k, l.k, l.rank_out, l.dnum, l.dsize);
                                        let bytes = GGLWEToGGSWKeyEncryptSk::gglwe_to_ggsw_key_encrypt_sk_tmp_bytes(&m, &l);
                                        ex(&mut rep, "gglwe_to_ggsw_key_encrypt_sk", shape.clone(), bytes, &mut |s| {
                                            GGLWEToGGSWKeyEncryptSk::gglwe_to_ggsw_key_encrypt_sk(&m, &mut tsk, &sk_out, &ns, &mut src(5), &mut src(6), s)
                                        });
                                        let mut tskc: GGLWEToGGSWKeyCompressed<Vec<u8>> =
                                            GGLWEToGGSWKeyCompressed::alloc(l.n, l.base2k, l.k, l.rank_out, l.dnum, l.dsize);
                                        let bytes = GGLWEToGGSWKeyCompressedEncryptSk::gglwe_to_ggsw_key_encrypt_sk_tmp_bytes(&m, &l);
                                        ex(&mut rep, "gglwe_to_ggsw_key_compressed_encrypt_sk", shape.clone(), bytes, &mut |s| {
                                            GGLWEToGGSWKeyCompressedEncryptSk::gglwe_to_ggsw_key_encrypt_sk(
                                                &m, &mut tskc, &sk_out, [3u8; 32], &ns, &mut src(5), s,
                                            )
                                        });
                                        let mut tsk_prep: GGLWEToGGSWKeyPrepared<DeviceBuf<BE>, BE> =
                                            m.gglwe_to_ggsw_key_prepared_alloc_from_infos(&tsk);
                                        let bytes = m.gglwe_to_ggsw_key_prepare_tmp_bytes(&l);
                                        ex(&mut rep, "gglwe_to_ggsw_key_prepare", shape.clone(), bytes, &mut |s| {
                                            m.gglwe_to_ggsw_key_prepare(&mut tsk_prep, &tsk, s)
                                        });
                                    }

                                    if rank_in == 1 {
                                        // --- tensor key of rank `rank_out` (its own rank_in is pairs(rank_out)); also rank 3
                                        for rank in [rank_out, rank_out + 2] {
                                            if rank > 3 {
                                                continue;
                                            }
                                            let (skt, _) = mk_sk(&m, n, rank, 7);
                                            let lt = gglwe_l(n, b, size, rank, rank, dnum, dsize);
                                            let shape_t = format!("n={n} rank={rank} base2k={b} size={size} dsize={dsize} dnum={dnum}");
                                            let mut tk: GLWETensorKey<Vec<u8>> = GLWETensorKey::alloc(l.n, l.base2k, l.k, lt.rank_out, l.dnum, l.dsize);
                                            let bytes = m.glwe_tensor_key_encrypt_sk_tmp_bytes(&tk);
                                            ex(&mut rep, "glwe_tensor_key_encrypt_sk", shape_t.clone(), bytes, &mut |s| {
                                                m.glwe_tensor_key_encrypt_sk(&mut tk, &skt, &ns, &mut src(5), &mut src(6), s)
                                            });
                                            let bytes2 = m.glwe_tensor_key_encrypt_sk_tmp_bytes(&lt);
                                            if bytes2 != bytes {
                                                ex(&mut rep, "glwe_tensor_key_encrypt_sk(query on layout rank_in=rank)", shape_t.clone(), bytes2, &mut |s| {
                                                    m.glwe_tensor_key_encrypt_sk(&mut tk, &skt, &ns, &mut src(5), &mut src(6), s)
                                                });
                                            }
                                            let mut tkc: GLWETensorKeyCompressed<Vec<u8>> =
                                                GLWETensorKeyCompressed::alloc(l.n, l.base2k, l.k, lt.rank_out, l.dnum, l.dsize);
                                            let bytes = m.glwe_tensor_key_compressed_encrypt_sk_tmp_bytes(&tkc);
                                            ex(&mut rep, "glwe_tensor_key_compressed_encrypt_sk", shape_t.clone(), bytes, &mut |s| {
                                                m.glwe_tensor_key_compressed_encrypt_sk(&mut tkc, &skt, [3u8; 32], &ns, &mut src(5), s)
                                            });
                                            let mut tk_prep: GLWETensorKeyPrepared<DeviceBuf<BE>, BE> = m.alloc_tensor_key_prepared_from_infos(&tk);
                                            let bytes = m.prepare_tensor_key_tmp_bytes(&tk);
                                            ex(&mut rep, "prepare_tensor_key", shape_t.clone(), bytes, &mut |s| {
                                                m.prepare_tensor_key(&mut tk_prep, &tk, s)
                                            });
                                        }
                                    }

                                    if dsize == 1 {
                                        for n_lwe in [n, n / 2 + 1] {
                                            let sk_lwe = mk_lwe_sk(n_lwe, 8);
                                            let sk_lwe2 = mk_lwe_sk(n_lwe.max(3) - 2, 9);
                                            // --- GLWE -> LWE key (rank_in = GLWE rank, rank_out = 1)
                                            if rank_out == 1 {
                                                let shape_k = format!("{shape} n_lwe={n_lwe}");
                                                let mut k: GLWEToLWEKey<Vec<u8>> = GLWEToLWEKey::alloc(l.n, l.base2k, l.k, l.rank_in, l.dnum);
                                                let bytes = m.glwe_to_lwe_key_encrypt_sk_tmp_bytes(&k);
                                                ex(&mut rep, "glwe_to_lwe_key_encrypt_sk", shape_k.clone(), bytes, &mut |s| {
                                                    m.glwe_to_lwe_key_encrypt_sk(&mut k, &sk_lwe, &sk_in, &ns, &mut src(5), &mut src(6), s)
                                                });
                                                let mut kp: GLWEToLWEKeyPrepared<DeviceBuf<BE>, BE> = m.glwe_to_lwe_key_prepared_alloc_from_infos(&k);
                                                let bytes = m.glwe_to_lwe_key_prepare_tmp_bytes(&k);
                                                ex(&mut rep, "glwe_to_lwe_key_prepare", shape_k.clone(), bytes, &mut |s| {
                                                    m.glwe_to_lwe_key_prepare(&mut kp, &k, s)
                                                });
                                            }
                                            // --- LWE -> GLWE key (rank_in = 1)
                                            if rank_in == 1 {
                                                let shape_k = format!("{shape} n_lwe={n_lwe}");
                                                let mut k: LWEToGLWEKey<Vec<u8>> = LWEToGLWEKey::alloc(l.n, l.base2k, l.k, l.rank_out, l.dnum);
                                                let bytes = m.lwe_to_glwe_key_encrypt_sk_tmp_bytes(&k);
                                                ex(&mut rep, "lwe_to_glwe_key_encrypt_sk", shape_k.clone(), bytes, &mut |s| {
                                                    m.lwe_to_glwe_key_encrypt_sk(&mut k, &sk_lwe, &sk_out_prep, &ns, &mut src(5), &mut src(6), s)
                                                });
                                                let mut kp: LWEToGLWEKeyPrepared<DeviceBuf<BE>, BE> = m.lwe_to_glwe_key_prepared_alloc_from_infos(&k);
                                                let bytes = m.lwe_to_glwe_key_prepare_tmp_bytes(&k);
                                                ex(&mut rep, "lwe_to_glwe_key_prepare", shape_k.clone(), bytes, &mut |s| {
                                                    m.lwe_to_glwe_key_prepare(&mut kp, &k, s)
                                                });
                                            }
                                            // --- LWE switching key
                                            if rank_in == 1 && rank_out == 1 {
                                                let shape_k = format!("{shape} n_lwe_in={n_lwe} n_lwe_out={}", n_lwe.max(3) - 2);
                                                let mut k: LWESwitchingKey<Vec<u8>> = LWESwitchingKey::alloc(l.n, l.base2k, l.k, l.dnum);
                                                let bytes = m.lwe_switching_key_encrypt_sk_tmp_bytes(&k);
                                                ex(&mut rep, "lwe_switching_key_encrypt_sk", shape_k.clone(), bytes, &mut |s| {
                                                    m.lwe_switching_key_encrypt_sk(&mut k, &sk_lwe, &sk_lwe2, &ns, &mut src(5), &mut src(6), s)
                                                });
                                                let mut kp: LWESwitchingKeyPrepared<DeviceBuf<BE>, BE> =
                                                    m.lwe_switching_key_prepared_alloc_from_infos(&k);
                                                let bytes = m.lwe_switching_key_prepare_tmp_bytes(&k);
                                                ex(&mut rep, "lwe_switching_key_prepare", shape_k.clone(), bytes, &mut |s| {
                                                    m.lwe_switching_key_prepare(&mut kp, &k, s)
                                                });
                                            }
                                        }
                                    }
                                }
                            }
                        }
                    }
                }
                rep.finish();
            }

            // =====================================================================================================================
            // Family: GGSW encryption (+compressed), prepare, noise
            // =====================================================================================================================

            #[test]
            fn ggsw_enc() {
                let mut rep = Report::new(NAME, "ggsw_enc");
                let bs = flat_bases();
                let mut bigs = big();
                for n in NS {
                    let m = module(n);
                    for rank in 1..=3usize {
                        let (sk, sk_prep) = mk_sk(&m, n, rank, 1);
                        let mut pt: ScalarZnx<Vec<u8>> = ScalarZnx::alloc(n, 1);
                        pt.fill_ternary_prob(0, 0.5, &mut src(4));
                        for &b in &bs {
                            for (dsize, size, dnum) in gadget_shapes(3) {
                                let l = ggsw_l(n, b, size, rank, dnum, dsize);
                                let ns = noise(l.k);
                                let shape = format!("n={n} rank={rank} base2k={b} size={size} dsize={dsize} dnum={dnum}");
                                let mut ct: GGSW<Vec<u8>> = GGSW::alloc_from_infos(&l);
                                let bytes = m.ggsw_encrypt_sk_tmp_bytes(&l);
                                ex(&mut rep, "ggsw_encrypt_sk", shape.clone(), bytes, &mut |s| {
                                    m.ggsw_encrypt_sk(&mut ct, &pt, &sk_prep, &ns, &mut src(5), &mut src(6), s)
                                });
                                let mut ctc: GGSWCompressed<Vec<u8>> = GGSWCompressed::alloc_from_infos(&l);
                                let bytes = m.ggsw_compressed_encrypt_sk_tmp_bytes(&l);
                                ex(&mut rep, "ggsw_compressed_encrypt_sk", shape.clone(), bytes, &mut |s| {
                                    m.ggsw_compressed_encrypt_sk(&mut ctc, &pt, &sk_prep, [3u8; 32], &ns, &mut src(5), s)
                                });
                                m.ggsw_encrypt_sk(&mut ct, &pt, &sk_prep, &ns, &mut src(5), &mut src(6), bigs.borrow());
                                let bytes = m.ggsw_noise_tmp_bytes(&ct);
                                for (row, col) in [(0usize, 0usize), (dnum - 1, rank)] {
                                    ex(&mut rep, "ggsw_noise", format!("{shape} row={row} col={col}"), bytes, &mut |s| {
                                        let _ = m.ggsw_noise(&ct, row, col, &pt, &sk_prep, s);
                                    });
                                }
                                let mut prep: GGSWPrepared<DeviceBuf<BE>, BE> = m.ggsw_prepared_alloc_from_infos(&ct);
                                let bytes = m.ggsw_prepare_tmp_bytes(&l);
                                ex(&mut rep, "ggsw_prepare", shape.clone(), bytes, &mut |s| m.ggsw_prepare(&mut prep, &ct, s));
                            }
                        }
                    }
                }
                rep.finish();
            }

            // =====================================================================================================================
            // Family: external products of GGLWE and GGSW by a prepared GGSW
            // =====================================================================================================================

            /// (dsize, size, dnum) of the key-like operand (prepared GGSW / GGLWE key)
            fn key_shapes() -> Vec<(usize, usize, usize)> {
                vec![(1, 2, 1), (1, 2, 2), (1, 4, 4), (1, 6, 3), (2, 3, 1), (2, 6, 3), (3, 4, 1), (3, 8, 2)]
            }

            /// (dsize, size, dnum) of the GGLWE/GGSW operand `a`
            fn a_shapes() -> Vec<(usize, usize, usize)> {
                vec![(1, 2, 2), (1, 4, 3), (2, 5, 2)]
            }

            /// admissible (size, dnum) of `res` given `a`
            fn res_shapes(dsize_a: usize, size_a: usize, dnum_a: usize) -> Vec<(usize, usize)> {
                let mut v = Vec::new();
                for size in [size_a - 1, size_a, size_a + 2] {
                    if size <= dsize_a {
                        continue;
                    }
                    for dnum in [1usize, dnum_a] {
                        if dnum * dsize_a <= size && !v.contains(&(size, dnum)) {
                            v.push((size, dnum));
                        }
                    }
                }
                v
            }

            #[test]
            fn ext_prod() {
                let mut rep = Report::new(NAME, "ext_prod");
                let mut bigs = big();
                for n in NS {
                    let m = module(n);
                    for rank in 1..=2usize {
                        let (sk, sk_prep) = mk_sk(&m, n, rank, 1);
                        for (b_a, b_key, _) in bases() {
                            for (ds_k, sz_k, dn_k) in key_shapes() {
                                let lb = ggsw_l(n, b_key, sz_k, rank, dn_k, ds_k);
                                let ggsw_b = mk_ggsw(&m, &lb, &sk_prep, &mut bigs);
                                for (ds_a, sz_a, dn_a) in a_shapes() {
                                    for (sz_r, dn_r) in res_shapes(ds_a, sz_a, dn_a) {
                                        let key_s = format!("b=(base2k={b_key} size={sz_k} dsize={ds_k} dnum={dn_k})");
                                        // ---- GGSW x GGSW
                                        {
                                            let la = ggsw_l(n, b_a, sz_a, rank, dn_a, ds_a);
                                            let lr = ggsw_l(n, b_a, sz_r, rank, dn_r, ds_a);
                                            let a = mk_ggsw_std(&m, &la, &sk_prep, &mut bigs);
                                            let mut res: GGSW<Vec<u8>> = GGSW::alloc_from_infos(&lr);
                                            let shape = format!(
                                                "n={n} rank={rank} res=(base2k={b_a} size={sz_r} dnum={dn_r} dsize={ds_a}) a=(size={sz_a} dnum={dn_a}) {key_s}"
                                            );
                                            let bytes = m.ggsw_external_product_tmp_bytes(&lr, &la, &lb);
                                            ex(&mut rep, "ggsw_external_product", shape.clone(), bytes, &mut |s| {
                                                m.ggsw_external_product(&mut res, &a, &ggsw_b, s)
                                            });
                                            if (sz_r, dn_r) == (sz_a, dn_a) {
                                                let mut res = mk_ggsw_std(&m, &la, &sk_prep, &mut bigs);
                                                let bytes = m.ggsw_external_product_tmp_bytes(&la, &la, &lb);
                                                ex(&mut rep, "ggsw_external_product_assign", shape.clone(), bytes, &mut |s| {
                                                    m.ggsw_external_product_assign(&mut res, &ggsw_b, s)
                                                });
                                            }
                                        }
                                        // ---- GGLWE x GGSW
                                        for rank_in in 1..=2usize {
                                            let (sk_in, _) = mk_sk(&m, n, rank_in, 5);
                                            let la = gglwe_l(n, b_a, sz_a, rank_in, rank, dn_a, ds_a);
                                            let lr = gglwe_l(n, b_a, sz_r, rank_in, rank, dn_r, ds_a);
                                            let a = mk_gglwe_ksk_std(&m, &la, &sk_in, &sk, &mut bigs);
                                            let mut res: GLWESwitchingKey<Vec<u8>> =
                                                GLWESwitchingKey::alloc(lr.n, lr.base2k, lr.k, lr.rank_in, lr.rank_out, lr.dnum, lr.dsize);
                                            let shape = format!(
                                                "n={n} rank_in={rank_in} rank_out={rank} res=(base2k={b_a} size={sz_r} dnum={dn_r} dsize={ds_a}) a=(size={sz_a} dnum={dn_a}) {key_s}"
                                            );
                                            let bytes = m.gglwe_external_product_tmp_bytes(&lr, &la, &lb);
                                            ex(&mut rep, "gglwe_external_product", shape.clone(), bytes, &mut |s| {
                                                m.gglwe_external_product(&mut res, &a, &ggsw_b, s)
                                            });
                                            if (sz_r, dn_r) == (sz_a, dn_a) {
                                                let mut res = mk_gglwe_ksk_std(&m, &la, &sk_in, &sk, &mut bigs);
                                                let bytes = m.gglwe_external_product_tmp_bytes(&la, &la, &lb);
                                                ex(&mut rep, "gglwe_external_product_assign", shape.clone(), bytes, &mut |s| {
                                                    m.gglwe_external_product_assign(&mut res, &ggsw_b, s)
                                                });
                                            }
                                        }
                                    }
                                }
                            }
                        }
                    }
                }
                rep.finish();
            }

            // =====================================================================================================================
            // Family: key-switching of GGLWE / GGSW / LWE
            // =====================================================================================================================

            #[test]
            fn keyswitch() {
                let mut rep = Report::new(NAME, "keyswitch");
                let mut bigs = big();
                for n in NS {
                    let m = module(n);
                    for (b_a, b_key, _) in bases() {
                        for (ds_k, sz_k, dn_k) in key_shapes() {
                            let key_s = format!("key=(base2k={b_key} size={sz_k} dsize={ds_k} dnum={dn_k})");
                            // ---------------- GGLWE keyswitch: a: r0 -> r1, key: r1 -> r2, res: r0 -> r2
                            for r1 in 1..=2usize {
                                for r2 in 1..=2usize {
                                    let (sk1, _) = mk_sk(&m, n, r1, 2);
                                    let (sk2, _) = mk_sk(&m, n, r2, 3);
                                    let lk = gglwe_l(n, b_key, sz_k, r1, r2, dn_k, ds_k);
                                    let key = mk_ksk(&m, &lk, &sk1, &sk2, &mut bigs);
                                    for r0 in 1..=2usize {
                                        let (sk0, _) = mk_sk(&m, n, r0, 1);
                                        for (ds_a, sz_a, dn_a) in a_shapes() {
                                            let la = gglwe_l(n, b_a, sz_a, r0, r1, dn_a, ds_a);
                                            let a = mk_gglwe_ksk_std(&m, &la, &sk0, &sk1, &mut bigs);
                                            for (sz_r, dn_r) in res_shapes(ds_a, sz_a, dn_a) {
                                                let lr = gglwe_l(n, b_a, sz_r, r0, r2, dn_r, ds_a);
                                                let mut res: GLWESwitchingKey<Vec<u8>> =
                                                    GLWESwitchingKey::alloc(lr.n, lr.base2k, lr.k, lr.rank_in, lr.rank_out, lr.dnum, lr.dsize);
                                                let shape = format!(
                                                    "n={n} ranks={r0}->{r1}->{r2} res=(base2k={b_a} size={sz_r} dnum={dn_r} dsize={ds_a}) a=(size={sz_a} dnum={dn_a}) {key_s}"
                                                );
                                                let bytes = m.gglwe_keyswitch_tmp_bytes(&lr, &la, &lk);
                                                ex(&mut rep, "gglwe_keyswitch", shape.clone(), bytes, &mut |s| {
                                                    m.gglwe_keyswitch(&mut res, &a, &key, s)
                                                });
                                            }
                                            if r1 == r2 {
                                                let mut res = mk_gglwe_ksk_std(&m, &la, &sk0, &sk1, &mut bigs);
                                                let shape = format!(
                                                    "n={n} ranks={r0}->{r1}->{r2} res=(base2k={b_a} size={sz_a} dnum={dn_a} dsize={ds_a}) {key_s}"
                                                );
                                                let bytes = m.gglwe_keyswitch_tmp_bytes(&la, &la, &lk);
                                                ex(&mut rep, "gglwe_keyswitch_assign", shape, bytes, &mut |s| {
                                                    m.gglwe_keyswitch_assign(&mut res, &key, s)
                                                });
                                            }
                                        }
                                    }
                                }
                            }

                            // ---------------- GGSW keyswitch (rank -> rank) with a tensor-switch key
                            for rank in 1..=2usize {
                                let (sk_in, sk_in_prep) = mk_sk(&m, n, rank, 1);
                                let (sk_out, _) = mk_sk(&m, n, rank, 2);
                                let lk = gglwe_l(n, b_key, sz_k, rank, rank, dn_k, ds_k);
                                let key = mk_ksk(&m, &lk, &sk_in, &sk_out, &mut bigs);
                                // tsk: same shape as the key, and a second one with another base2k / shape
                                for (tag, lt) in [
                                    ("tsk=key-shape", lk),
                                    ("tsk=(base2k=b_a size=3 dsize=1 dnum=3)", gglwe_l(n, b_a, 3, rank, rank, 3, 1)),
                                    ("tsk=(base2k=b_key size=5 dsize=2 dnum=2)", gglwe_l(n, b_key, 5, rank, rank, 2, 2)),
                                ] {
                                    let tsk = mk_tsk(&m, &lt, &sk_out, &mut bigs);
                                    for (ds_a, sz_a, dn_a) in a_shapes() {
                                        let la = ggsw_l(n, b_a, sz_a, rank, dn_a, ds_a);
                                        let a = mk_ggsw_std(&m, &la, &sk_in_prep, &mut bigs);
                                        for (sz_r, dn_r) in res_shapes(ds_a, sz_a, dn_a) {
                                            let lr = ggsw_l(n, b_a, sz_r, rank, dn_r, ds_a);
                                            let mut res: GGSW<Vec<u8>> = GGSW::alloc_from_infos(&lr);
                                            let shape = format!(
                                                "n={n} rank={rank} res=(base2k={b_a} size={sz_r} dnum={dn_r} dsize={ds_a}) a=(size={sz_a} dnum={dn_a}) {key_s} {tag}"
                                            );
                                            let bytes = m.ggsw_keyswitch_tmp_bytes(&lr, &la, &lk, &lt);
                                            ex(&mut rep, "ggsw_keyswitch", shape.clone(), bytes, &mut |s| {
                                                m.ggsw_keyswitch(&mut res, &a, &key, &tsk, s)
                                            });
                                        }
                                        let mut res = mk_ggsw_std(&m, &la, &sk_in_prep, &mut bigs);
                                        let shape = format!(
                                            "n={n} rank={rank} res=(base2k={b_a} size={sz_a} dnum={dn_a} dsize={ds_a}) {key_s} {tag}"
                                        );
                                        let bytes = m.ggsw_keyswitch_tmp_bytes(&la, &la, &lk, &lt);
                                        ex(&mut rep, "ggsw_keyswitch_assign", shape, bytes, &mut |s| {
                                            m.ggsw_keyswitch_assign(&mut res, &key, &tsk, s)
                                        });
                                    }
                                }
                            }

                            // ---------------- LWE keyswitch (dsize must be 1)
                            if ds_k == 1 {
                                for (n_in, n_out) in [(n, n), (n / 2 + 1, n - 1), (3, 5)] {
                                    let sk_lwe_in = mk_lwe_sk(n_in, 4);
                                    let sk_lwe_out = mk_lwe_sk(n_out, 5);
                                    let mut k: LWESwitchingKey<Vec<u8>> =
                                        LWESwitchingKey::alloc(Degree(n as u32), Base2K(b_key as u32), kof(sz_k, b_key), Dnum(dn_k as u32));
                                    m.lwe_switching_key_encrypt_sk(
                                        &mut k,
                                        &sk_lwe_in,
                                        &sk_lwe_out,
                                        &noise(kof(sz_k, b_key)),
                                        &mut src(5),
                                        &mut src(6),
                                        bigs.borrow(),
                                    );
                                    let mut kp: LWESwitchingKeyPrepared<DeviceBuf<BE>, BE> = m.lwe_switching_key_prepared_alloc_from_infos(&k);
                                    m.lwe_switching_key_prepare(&mut kp, &k, bigs.borrow());
                                    for (b_in, _, b_out) in bases() {
                                        for sz_a in 1..=4usize {
                                            for sz_r in [1usize, sz_a, sz_a + 2] {
                                                let la = lwe_l(n_in, b_in, sz_a);
                                                let lr = lwe_l(n_out, b_out, sz_r);
                                                let mut a: LWE<Vec<u8>> = LWE::alloc_from_infos(&la);
                                                a.fill_uniform(b_in, &mut src(7));
                                                let mut res: LWE<Vec<u8>> = LWE::alloc_from_infos(&lr);
                                                let shape = format!(
                                                    "n={n} res=(n_lwe={n_out} base2k={b_out} size={sz_r}) a=(n_lwe={n_in} base2k={b_in} size={sz_a}) {key_s}"
                                                );
                                                let bytes = m.lwe_keyswitch_tmp_bytes(&lr, &la, &kp);
                                                ex(&mut rep, "lwe_keyswitch", shape, bytes, &mut |s| m.lwe_keyswitch(&mut res, &a, &kp, s));
                                            }
                                        }
                                    }
                                }
                            }
                        }
                    }
                }
                rep.finish();
            }

            // =====================================================================================================================
            // Family: automorphism of automorphism keys and of GGSW
            // =====================================================================================================================

            #[test]
            fn automorphism() {
                let mut rep = Report::new(NAME, "automorphism");
                let mut bigs = big();
                for n in NS {
                    let m = module(n);
                    for rank in 1..=2usize {
                        let (sk, sk_prep) = mk_sk(&m, n, rank, 1);
                        for (b_a, b_key, _) in bases() {
                            for (ds_k, sz_k, dn_k) in key_shapes() {
                                let key_s = format!("key=(base2k={b_key} size={sz_k} dsize={ds_k} dnum={dn_k})");
                                let lk = gglwe_l(n, b_key, sz_k, rank, rank, dn_k, ds_k);
                                let key = mk_atk(&m, &lk, 5, &sk, &mut bigs);

                                for (ds_a, sz_a, dn_a) in a_shapes() {
                                    // ---- automorphism key automorphism
                                    let la = gglwe_l(n, b_a, sz_a, rank, rank, dn_a, ds_a);
                                    let a = mk_atk_std(&m, &la, -1, &sk, &mut bigs);
                                    for (sz_r, dn_r) in res_shapes(ds_a, sz_a, dn_a) {
                                        let lr = gglwe_l(n, b_a, sz_r, rank, rank, dn_r, ds_a);
                                        let mut res: GLWEAutomorphismKey<Vec<u8>> =
                                            GLWEAutomorphismKey::alloc(lr.n, lr.base2k, lr.k, lr.rank_out, lr.dnum, lr.dsize);
                                        let shape = format!(
                                            "n={n} rank={rank} res=(base2k={b_a} size={sz_r} dnum={dn_r} dsize={ds_a}) a=(size={sz_a} dnum={dn_a}) {key_s}"
                                        );
                                        let bytes = m.glwe_automorphism_key_automorphism_tmp_bytes(&lr, &la, &lk);
                                        ex(&mut rep, "glwe_automorphism_key_automorphism", shape, bytes, &mut |s| {
                                            m.glwe_automorphism_key_automorphism(&mut res, &a, &key, s)
                                        });
                                    }
                                    {
                                        let mut res = mk_atk_std(&m, &la, -1, &sk, &mut bigs);
                                        let shape =
                                            format!("n={n} rank={rank} res=(base2k={b_a} size={sz_a} dnum={dn_a} dsize={ds_a}) {key_s}");
                                        let bytes = m.glwe_automorphism_key_automorphism_tmp_bytes(&la, &la, &lk);
                                        ex(&mut rep, "glwe_automorphism_key_automorphism_assign", shape, bytes, &mut |s| {
                                            m.glwe_automorphism_key_automorphism_assign(&mut res, &key, s)
                                        });
                                    }

                                    // ---- GGSW automorphism
                                    for (tag, lt) in [
                                        ("tsk=key-shape", lk),
                                        ("tsk=(base2k=b_a size=3 dsize=1 dnum=3)", gglwe_l(n, b_a, 3, rank, rank, 3, 1)),
                                    ] {
                                        let tsk = mk_tsk(&m, &lt, &sk, &mut bigs);
                                        let la = ggsw_l(n, b_a, sz_a, rank, dn_a, ds_a);
                                        let a = mk_ggsw_std(&m, &la, &sk_prep, &mut bigs);
                                        for (sz_r, dn_r) in res_shapes(ds_a, sz_a, dn_a) {
                                            let lr = ggsw_l(n, b_a, sz_r, rank, dn_r, ds_a);
                                            let mut res: GGSW<Vec<u8>> = GGSW::alloc_from_infos(&lr);
                                            let shape = format!(
                                                "n={n} rank={rank} res=(base2k={b_a} size={sz_r} dnum={dn_r} dsize={ds_a}) a=(size={sz_a} dnum={dn_a}) {key_s} {tag}"
                                            );
                                            let bytes = m.ggsw_automorphism_tmp_bytes(&lr, &la, &lk, &lt);
                                            ex(&mut rep, "ggsw_automorphism", shape, bytes, &mut |s| {
                                                m.ggsw_automorphism(&mut res, &a, &key, &tsk, s)
                                            });
                                        }
                                        let mut res = mk_ggsw_std(&m, &la, &sk_prep, &mut bigs);
                                        let shape = format!(
                                            "n={n} rank={rank} res=(base2k={b_a} size={sz_a} dnum={dn_a} dsize={ds_a}) {key_s} {tag}"
                                        );
                                        let bytes = m.ggsw_automorphism_tmp_bytes(&la, &la, &lk, &lt);
                                        ex(&mut rep, "ggsw_automorphism_assign", shape, bytes, &mut |s| {
                                            m.ggsw_automorphism_assign(&mut res, &key, &tsk, s)
                                        });
                                    }
                                }
                            }
                        }
                    }
                }
                rep.finish();
            }

            // =====================================================================================================================
            // Family: conversions (GLWE -> LWE, LWE -> GLWE, GGLWE -> GGSW)
            // =====================================================================================================================

            #[test]
            fn conversion() {
                let mut rep = Report::new(NAME, "conversion");
                let mut bigs = big();
                for n in NS {
                    let m = module(n);
                    for (b_in, b_key, b_out) in bases() {
                        for (ds_k, sz_k, dn_k) in key_shapes() {
                            let key_s = format!("key=(base2k={b_key} size={sz_k} dsize={ds_k} dnum={dn_k})");
                            for rank in 1..=2usize {
                                let (sk, sk_prep) = mk_sk(&m, n, rank, 1);

                                if ds_k == 1 {
                                    for n_lwe in [n, n / 2 + 1, 3] {
                                        let sk_lwe = mk_lwe_sk(n_lwe, 4);
                                        let ns = noise(kof(sz_k, b_key));
                                        // ---- LWE <- GLWE
                                        let mut k: GLWEToLWEKey<Vec<u8>> = GLWEToLWEKey::alloc(
                                            Degree(n as u32),
                                            Base2K(b_key as u32),
                                            kof(sz_k, b_key),
                                            Rank(rank as u32),
                                            Dnum(dn_k as u32),
                                        );
                                        m.glwe_to_lwe_key_encrypt_sk(&mut k, &sk_lwe, &sk, &ns, &mut src(5), &mut src(6), bigs.borrow());
                                        let mut kp: GLWEToLWEKeyPrepared<DeviceBuf<BE>, BE> = m.glwe_to_lwe_key_prepared_alloc_from_infos(&k);
                                        m.glwe_to_lwe_key_prepare(&mut kp, &k, bigs.borrow());
                                        for sz_a in 1..=4usize {
                                            let la = glwe_l(n, b_in, sz_a, rank);
                                            let a = mk_glwe(&m, &la, &sk_prep, &mut bigs);
                                            for sz_r in [1usize, sz_a, sz_a + 2] {
                                                let lr = lwe_l(n_lwe, b_out, sz_r);
                                                let mut res: LWE<Vec<u8>> = LWE::alloc_from_infos(&lr);
                                                for a_idx in [0usize, 1, n - 1] {
                                                    let shape = format!(
                                                        "n={n} rank={rank} lwe=(n={n_lwe} base2k={b_out} size={sz_r}) glwe=(base2k={b_in} size={sz_a}) a_idx={a_idx} {key_s}"
                                                    );
                                                    let bytes = m.lwe_from_glwe_tmp_bytes(&lr, &la, &kp);
                                                    ex(&mut rep, "lwe_from_glwe", shape, bytes, &mut |s| {
                                                        m.lwe_from_glwe(&mut res, &a, a_idx, &kp, s)
                                                    });
                                                }
                                            }
                                        }

                                        // ---- GLWE <- LWE
                                        let mut k: LWEToGLWEKey<Vec<u8>> = LWEToGLWEKey::alloc(
                                            Degree(n as u32),
                                            Base2K(b_key as u32),
                                            kof(sz_k, b_key),
                                            Rank(rank as u32),
                                            Dnum(dn_k as u32),
                                        );
                                        m.lwe_to_glwe_key_encrypt_sk(&mut k, &sk_lwe, &sk_prep, &ns, &mut src(5), &mut src(6), bigs.borrow());
                                        let mut kp: LWEToGLWEKeyPrepared<DeviceBuf<BE>, BE> = m.lwe_to_glwe_key_prepared_alloc_from_infos(&k);
                                        m.lwe_to_glwe_key_prepare(&mut kp, &k, bigs.borrow());
                                        for sz_a in 1..=4usize {
                                            let la = lwe_l(n_lwe, b_in, sz_a);
                                            let mut a: LWE<Vec<u8>> = LWE::alloc_from_infos(&la);
                                            a.fill_uniform(b_in, &mut src(7));
                                            for sz_r in [1usize, sz_a, sz_a + 2] {
                                                let lr = glwe_l(n, b_out, sz_r, rank);
                                                let mut res: GLWE<Vec<u8>> = GLWE::alloc_from_infos(&lr);
                                                let shape = format!(
                                                    "n={n} rank={rank} glwe=(base2k={b_out} size={sz_r}) lwe=(n={n_lwe} base2k={b_in} size={sz_a}) {key_s}"
                                                );
                                                let bytes = m.glwe_from_lwe_tmp_bytes(&lr, &la, &kp);
                                                ex(&mut rep, "glwe_from_lwe", shape, bytes, &mut |s| m.glwe_from_lwe(&mut res, &a, &kp, s));
                                            }
                                        }
                                    }
                                }

                                // ---- GGSW <- GGLWE (tsk has the key shape)
                                let lt = gglwe_l(n, b_key, sz_k, rank, rank, dn_k, ds_k);
                                let tsk = mk_tsk(&m, &lt, &sk, &mut bigs);
                                for (ds_a, sz_a, dn_a) in a_shapes() {
                                    for rank_in in 1..=2usize {
                                        let (sk_in, _) = mk_sk(&m, n, rank_in, 9);
                                        let la = gglwe_l(n, b_in, sz_a, rank_in, rank, dn_a, ds_a);
                                        let a = mk_gglwe_ksk_std(&m, &la, &sk_in, &sk, &mut bigs);
                                        for sz_r in [sz_a - 1, sz_a, sz_a + 2] {
                                            if sz_r <= ds_a || dn_a * ds_a > sz_r {
                                                continue;
                                            }
                                            let lr = ggsw_l(n, b_in, sz_r, rank, dn_a, ds_a);
                                            let mut res: GGSW<Vec<u8>> = GGSW::alloc_from_infos(&lr);
                                            let shape = format!(
                                                "n={n} rank={rank} res=(base2k={b_in} size={sz_r} dnum={dn_a} dsize={ds_a}) a=(rank_in={rank_in} size={sz_a}) tsk={key_s}"
                                            );
                                            let bytes = m.ggsw_from_gglwe_tmp_bytes(&lr, &lt);
                                            ex(&mut rep, "ggsw_from_gglwe", shape, bytes, &mut |s| m.ggsw_from_gglwe(&mut res, &a, &tsk, s));
                                        }
                                    }
                                }
                            }
                        }
                    }
                }
                rep.finish();
            }

            // =====================================================================================================================
            // Family: packing (glwe_pack, GLWEPacker) and small GLWE helpers (normalize, rotate, shift, mul_xp_minus_one)
            // =====================================================================================================================

            fn mk_auto_keys(
                m: &Md,
                lk: &GGLWELayout,
                sk: &GLWESecret<Vec<u8>>,
                big: &mut ScratchOwned<BE>,
            ) -> HashMap<i64, GLWEAutomorphismKeyPrepared<DeviceBuf<BE>, BE>> {
                let mut keys = HashMap::new();
                for p in m.glwe_pack_galois_elements() {
                    keys.insert(p, mk_atk(m, lk, p, sk, big));
                }
                keys
            }

            #[test]
            fn packing() {
                let mut rep = Report::new(NAME, "packing");
                let mut bigs = big();
                for n in [8usize, 16] {
                    let m = module(n);
                    for rank in 1..=2usize {
                        let (sk, sk_prep) = mk_sk(&m, n, rank, 1);
                        for (b_in, b_key, b_out) in bases() {
                            for (ds_k, sz_k, dn_k) in [(1usize, 2usize, 2usize), (1, 4, 4), (2, 6, 3), (3, 8, 2), (1, 6, 2)] {
                                let key_s = format!("key=(base2k={b_key} size={sz_k} dsize={ds_k} dnum={dn_k})");
                                let lk = gglwe_l(n, b_key, sz_k, rank, rank, dn_k, ds_k);
                                let keys = mk_auto_keys(&m, &lk, &sk, &mut bigs);
                                for sz_a in [1usize, 2, 4] {
                                    for sz_r in [1usize, sz_a, sz_a + 2] {
                                        for (b_a, b_r) in [(b_in, b_in), (b_in, b_out)] {
                                            let la = glwe_l(n, b_a, sz_a, rank);
                                            let lr = glwe_l(n, b_r, sz_r, rank);
                                            for log_gap_out in [0usize, 1] {
                                                let idxs: Vec<usize> = (0..n).step_by(3).collect();
                                                let mut cts: Vec<GLWE<Vec<u8>>> = idxs.iter().map(|_| mk_glwe(&m, &la, &sk_prep, &mut bigs)).collect();
                                                let mut res: GLWE<Vec<u8>> = GLWE::alloc_from_infos(&lr);
                                                let shape = format!(
                                                    "n={n} rank={rank} res=(base2k={b_r} size={sz_r}) a=(base2k={b_a} size={sz_a}) log_gap_out={log_gap_out} {key_s}"
                                                );
                                                let bytes = m.glwe_pack_tmp_bytes(&lr, &lk);
                                                ex(&mut rep, "glwe_pack", shape, bytes, &mut |s| {
                                                    let mut map: HashMap<usize, &mut GLWE<Vec<u8>>> = HashMap::new();
                                                    for (i, ct) in idxs.iter().zip(cts.iter_mut()) {
                                                        map.insert(*i, ct);
                                                    }
                                                    m.glwe_pack(&mut res, map, log_gap_out, &keys, s)
                                                });
                                            }

                                            // GLWEPacker: accumulators in the layout `lr`, inputs in the layout `la`
                                            // (mixed base2k is rejected by an explicit assert of glwe_sub / glwe_add)
                                            for log_batch in [0usize, 1] {
                                                if b_a != b_r {
                                                    continue;
                                                }
                                                let shape = format!(
                                                    "n={n} rank={rank} acc=(base2k={b_r} size={sz_r}) a=(base2k={b_a} size={sz_a}) log_batch={log_batch} {key_s}"
                                                );
                                                let a = mk_glwe(&m, &la, &sk_prep, &mut bigs);
                                                let bytes = glwe_packer_tmp_bytes(&m, &lr, &lk);
                                                let mut res: GLWE<Vec<u8>> = GLWE::alloc_from_infos(&la);
                                                ex(&mut rep, "glwe_packer_add+flush", shape, bytes, &mut |s| {
                                                    let mut packer = GLWEPacker::alloc(&lr, log_batch);
                                                    for i in 0..(n >> log_batch) {
                                                        if i % 3 == 2 {
                                                            glwe_packer_add(&m, &mut packer, None::<&GLWE<Vec<u8>>>, &keys, s);
                                                        } else {
                                                            glwe_packer_add(&m, &mut packer, Some(&a), &keys, s);
                                                        }
                                                    }
                                                    glwe_packer_flush(&m, &mut packer, &mut res, s);
                                                });
                                            }
                                        }
                                    }
                                }
                            }
                        }
                    }
                }
                rep.finish();
            }

            #[test]
            fn glwe_small_ops() {
                let mut rep = Report::new(NAME, "glwe_small_ops");
                let mut bigs = big();
                for n in NS {
                    let m = module(n);
                    for rank in 1..=2usize {
                        let (sk, sk_prep) = mk_sk(&m, n, rank, 1);
                        for (b_in, _, b_out) in bases() {
                            for sz_a in 1..=4usize {
                                let la = glwe_l(n, b_in, sz_a, rank);
                                let a = mk_glwe(&m, &la, &sk_prep, &mut bigs);
                                for sz_r in [1usize, sz_a, sz_a + 2] {
                                    let lr = glwe_l(n, b_out, sz_r, rank);
                                    let mut res: GLWE<Vec<u8>> = GLWE::alloc_from_infos(&lr);
                                    let shape = format!("n={n} rank={rank} res=(base2k={b_out} size={sz_r}) a=(base2k={b_in} size={sz_a})");
                                    ex(&mut rep, "glwe_normalize", shape.clone(), m.glwe_normalize_tmp_bytes(), &mut |s| {
                                        m.glwe_normalize(&mut res, &a, s)
                                    });
                                    // same base2k helpers
                                    let lr2 = glwe_l(n, b_in, sz_r, rank);
                                    let mut res2: GLWE<Vec<u8>> = GLWE::alloc_from_infos(&lr2);
                                    for k in [1usize, b_in, 2 * b_in + 3] {
                                        let shape = format!("{shape} same-base2k k={k}");
                                        ex(&mut rep, "glwe_lsh", shape.clone(), m.glwe_shift_tmp_bytes(), &mut |s| m.glwe_lsh(&mut res2, &a, k, s));
                                        ex(&mut rep, "glwe_lsh_add", shape.clone(), m.glwe_shift_tmp_bytes(), &mut |s| {
                                            m.glwe_lsh_add(&mut res2, &a, k, s)
                                        });
                                        ex(&mut rep, "glwe_lsh_sub", shape.clone(), m.glwe_shift_tmp_bytes(), &mut |s| {
                                            m.glwe_lsh_sub(&mut res2, &a, k, s)
                                        });
                                        ex(&mut rep, "glwe_lsh_assign", shape.clone(), m.glwe_shift_tmp_bytes(), &mut |s| {
                                            m.glwe_lsh_assign(&mut res2, k, s)
                                        });
                                        ex(&mut rep, "glwe_rsh", shape.clone(), m.glwe_shift_tmp_bytes(), &mut |s| m.glwe_rsh(k, &mut res2, s));
                                    }
                                    ex(&mut rep, "glwe_normalize_assign", shape.clone(), m.glwe_normalize_tmp_bytes(), &mut |s| {
                                        m.glwe_normalize_assign(&mut res2, s)
                                    });
                                    for k in [1i64, -3, n as i64 + 1] {
                                        ex(&mut rep, "glwe_rotate_assign", format!("{shape} k={k}"), m.glwe_rotate_tmp_bytes(), &mut |s| {
                                            m.glwe_rotate_assign(k, &mut res2, s)
                                        });
                                    }
                                }
                            }
                            for (ds, sz, dn) in a_shapes() {
                                let l = ggsw_l(n, b_in, sz, rank, dn, ds);
                                let mut g = mk_ggsw_std(&m, &l, &sk_prep, &mut bigs);
                                let shape = format!("n={n} rank={rank} base2k={b_in} size={sz} dsize={ds} dnum={dn}");
                                ex(&mut rep, "ggsw_rotate_assign", shape, m.ggsw_rotate_tmp_bytes(), &mut |s| m.ggsw_rotate_assign(3, &mut g, s));
                            }
                        }
                    }
                }
                rep.finish();
            }
        }
    };
}

backend_sweep!(fft64, FFT64Ref, "fft64", vec![(17, 17, 17), (12, 11, 17), (17, 12, 11), (11, 17, 12)]);
backend_sweep!(ntt120, NTT120Ref, "ntt120", vec![(52, 52, 52), (50, 45, 52), (52, 50, 45), (17, 12, 11)]);
