// Scratch-size sweep for poulpy-bin-fhe.
//
// Property: for every operation taking a `&mut Scratch<BE>` that has a `*_tmp_bytes` companion, a scratch arena of
// EXACTLY the advertised number of bytes is sufficient for every admissible shape: the call neither panics for lack of
// space (`Attempted to take .. from scratch ..`, or an inner `scratch.available() >= .._tmp_bytes` assertion) nor writes
// outside of the arena (the arena is carved out of a larger canary-filled buffer).
//
// Where to place it / how to run it (debug build, both reference backends FFT64Ref and NTT120Ref, about 4 minutes):
//
//   cp app_scratch_sweep.rs poulpy-bin-fhe/tests/app_scratch_sweep.rs
//   cargo test -p poulpy-bin-fhe --offline -j 5 --test app_scratch_sweep -- --nocapture
//
// On a tree where the `fix_*.diff` patches are applied, two operations have a new companion query
// (`cmux_assign_neg_tmp_bytes`, `circuit_bootstrapping_execute_to_exponent_tmp_bytes`); select them with
//
//   RUSTFLAGS="--cfg sweep_fixed" cargo test -p poulpy-bin-fhe --offline -j 5 --test app_scratch_sweep -- --nocapture
//
// `SWEEP_DUMP=/some/file.tsv` appends one line per case (backend, operation, tmp_bytes, shape, OK | panic message).
// The test prints a per-operation table (cases / failures) and the smallest failing shape of every
// (operation, panic-message class), and fails if any case failed.
//
// Swept (operation -> companion query):
//   blind rotation      : key encrypt_sk / compressed encrypt_sk / prepare / execute (standard, block-binary, extended)
//   circuit bootstrap.  : key encrypt_sk / prepare / execute_to_constant / execute_to_exponent
//   bdd arithmetic      : cmux, cmux_assign, cmux_assign_neg, cswap, glwe_blind_selection, GLWEBlindRetriever::retrieve,
//                         glwe_blind_retrieval_statefull(+_rev), glwe_blind_rotation(+_assign), ggsw_blind_rotation(+_assign),
//                         scalar_to_ggsw_blind_rotation, execute_bdd_circuit(+_multi_thread, threads x per-thread size),
//                         FheUint::{encrypt_sk, decrypt, add, sll, and, slt}(+_multi_thread), BDDKey encrypt_sk / prepare,
//                         FheUintPrepared::prepare_custom_multi_thread (threads x per-thread size)
// Not swept: operations without a companion query (FheUint::{pack, splice_u8, splice_u16, sext, get_bit_lwe,
// get_bit_glwe, get_byte, zero_byte, from_fhe_uint_prepared}, FheUintPrepared::{encrypt_sk, decrypt}, the 1w->1w
// circuits, the debug prepare), the remaining two-word circuits (sub, sra, srl, sltu, or, xor: same generic executor and
// query as add/sll/and/slt), FheUintPrepared::prepare with a `BinaryBlock(1)`/non-block LWE key (a debug assertion on
// the LWE dimension fires in the standard blind rotation, unrelated to scratch), and the AVX backends.
#![allow(clippy::too_many_arguments, clippy::type_complexity, dead_code, unused_imports, unexpected_cfgs)]

use std::{
    collections::{BTreeMap, HashMap},
    panic::{AssertUnwindSafe, catch_unwind},
    sync::Mutex,
};

use poulpy_bin_fhe::{
    bdd_arithmetic::*,
    blind_rotation::*,
    circuit_bootstrapping::*,
};
use poulpy_core::{
    DEFAULT_BOUND_XE, DEFAULT_SIGMA_XE, GGSWEncryptSk, GLWEAutomorphismKeyEncryptSk, GLWEDecrypt, GLWEEncryptSk, LWEEncryptSk,
    ScratchTakeCore, layouts::*, trace_galois_elements,
};
use poulpy_cpu_ref::{FFT64Ref, NTT120Ref};
use poulpy_hal::{
    api::*,
    layouts::{Backend, DeviceBuf, Module, ScalarZnx, Scratch, ScratchOwned, ZnxViewMut},
    source::Source,
};

// ---------------------------------------------------------------------------------------------
// Recording infrastructure
// ---------------------------------------------------------------------------------------------

#[derive(Clone, Debug)]
struct Rec {
    backend: &'static str,
    op: String,
    shape: String,
    tmp: usize,
    panic: Option<String>,
}

static RESULTS: Mutex<Vec<Rec>> = Mutex::new(Vec::new());
static PANICS: Mutex<Vec<String>> = Mutex::new(Vec::new());
static SERIAL: Mutex<()> = Mutex::new(());
static IN_CASE: std::sync::atomic::AtomicBool = std::sync::atomic::AtomicBool::new(false);

fn install_hook() {
    std::panic::set_hook(Box::new(|info| {
        let msg: String = if let Some(s) = info.payload().downcast_ref::<&str>() {
            (*s).to_string()
        } else if let Some(s) = info.payload().downcast_ref::<String>() {
            s.clone()
        } else {
            "<non-string panic>".to_string()
        };
        let loc = info
            .location()
            .map(|l| format!("{}:{}", l.file(), l.line()))
            .unwrap_or_default();
        if !IN_CASE.load(std::sync::atomic::Ordering::SeqCst) {
            eprintln!("PANIC OUTSIDE OF A SWEEP CASE (setup bug): {msg} @ {loc}");
        }
        PANICS.lock().unwrap_or_else(|e| e.into_inner()).push(format!("{msg} @ {loc}"));
    }));
}

const GUARD: usize = 256;
const ALIGN: usize = 64;

/// Runs `op` with a scratch arena of EXACTLY `query()` bytes (64-byte aligned, surrounded by canary bytes).
fn run_case<BE: Backend>(
    backend: &'static str,
    op_name: &str,
    shape: String,
    query: impl FnOnce() -> usize,
    op: impl FnOnce(&mut Scratch<BE>),
) where
    Scratch<BE>: ScratchFromBytes<BE>,
{
    PANICS.lock().unwrap_or_else(|e| e.into_inner()).clear();
    let mut tmp_bytes: usize = usize::MAX;
    IN_CASE.store(true, std::sync::atomic::Ordering::SeqCst);
    let res = catch_unwind(AssertUnwindSafe(|| {
        tmp_bytes = query();
        let mut buf: Vec<u8> = vec![0xA5u8; tmp_bytes + 2 * GUARD + ALIGN];
        let off: usize = buf.as_ptr().align_offset(ALIGN) + GUARD;
        {
            let scratch: &mut Scratch<BE> = Scratch::<BE>::from_bytes(&mut buf[off..off + tmp_bytes]);
            op(scratch);
        }
        let lo_ok = buf[..off].iter().all(|&b| b == 0xA5);
        let hi_ok = buf[off + tmp_bytes..].iter().all(|&b| b == 0xA5);
        assert!(lo_ok && hi_ok, "CANARY: memory outside of the scratch buffer was written");
    }));
    IN_CASE.store(false, std::sync::atomic::Ordering::SeqCst);
    let panic: Option<String> = match res {
        Ok(()) => None,
        Err(_) => {
            let msgs = PANICS.lock().unwrap_or_else(|e| e.into_inner()).clone();
            Some(msgs.first().cloned().unwrap_or_else(|| "<no message>".to_string()))
        }
    };
    RESULTS.lock().unwrap_or_else(|e| e.into_inner()).push(Rec {
        backend,
        op: op_name.to_string(),
        shape,
        tmp: tmp_bytes,
        panic,
    });
}

fn report_and_check(backend: &'static str) {
    let results = RESULTS.lock().unwrap_or_else(|e| e.into_inner());
    let mut per_op: BTreeMap<String, (usize, usize)> = BTreeMap::new();
    for r in results.iter().filter(|r| r.backend == backend) {
        let e = per_op.entry(r.op.clone()).or_insert((0, 0));
        e.0 += 1;
        if r.panic.is_some() {
            e.1 += 1;
        }
    }
    println!("==== scratch sweep summary [{backend}] ====");
    for (op, (cases, fails)) in per_op.iter() {
        println!("{op:<60} cases={cases:<5} failures={fails}");
    }
    // First (smallest tmp) failure per (op, message-class)
    let mut firsts: BTreeMap<(String, String), Rec> = BTreeMap::new();
    for r in results.iter().filter(|r| r.backend == backend && r.panic.is_some()) {
        let msg = r.panic.clone().unwrap();
        // message class: strip digits
        let class: String = msg.chars().filter(|c| !c.is_ascii_digit()).collect();
        let key = (r.op.clone(), class);
        match firsts.get(&key) {
            Some(prev) if prev.tmp <= r.tmp => {}
            _ => {
                firsts.insert(key, r.clone());
            }
        }
    }
    let mut total_fail = 0usize;
    if let Ok(path) = std::env::var("SWEEP_DUMP") {
        use std::io::Write;
        let mut f = std::fs::OpenOptions::new().create(true).append(true).open(path).unwrap();
        for r in results.iter().filter(|r| r.backend == backend) {
            writeln!(f, "{}\t{}\t{}\t{}\t{}", r.backend, r.op, r.tmp, r.shape, r.panic.clone().unwrap_or_else(|| "OK".into())).unwrap();
        }
    }
    for ((op, _), r) in firsts.iter() {
        println!("FAIL [{backend}] {op}: tmp_bytes={} shape=({}) panic={}", r.tmp, r.shape, r.panic.as_ref().unwrap());
    }
    for (_, (_, f)) in per_op.iter() {
        total_fail += f;
    }
    assert_eq!(total_fail, 0, "[{backend}] {total_fail} scratch-size failures (see FAIL lines above)");
}

const BIG: usize = 1 << 24;

fn noise(k: usize) -> poulpy_hal::layouts::NoiseInfos {
    poulpy_hal::layouts::NoiseInfos::new(k, DEFAULT_SIGMA_XE, DEFAULT_BOUND_XE).unwrap()
}


/// One two-word circuit (`FheUint::add`, ...) and its multi-thread variant with 1..3 threads.
macro_rules! two_word {
    ($name:literal, $op:ident, $op_mt:ident, $q:ident, $q_mt:ident, $module:ident, $glwe_infos:ident, $ggsw_infos:ident, $keys:ident, $a:ident, $b:ident, $shape:ident) => {{
        let mut res: FheUint<Vec<u8>, u32> = FheUint::<Vec<u8>, u32>::alloc_from_infos(&$glwe_infos);
        let q = res.$q(&$module, &$glwe_infos, &$ggsw_infos, &$keys);
        case($name, $shape.clone(), || q, |scratch| res.$op(&$module, &$a, &$b, &$keys, scratch));
        for threads in [1usize, 2, 3] {
            let q = res.$q_mt(&$module, threads, &$glwe_infos, &$ggsw_infos, &$keys);
            case(
                concat!($name, "_multi_thread"),
                format!("{} threads={threads}", $shape),
                || q,
                |scratch| res.$op_mt(threads, &$module, &$a, &$b, &$keys, scratch),
            );
        }
    }};
}

/// The sweep itself; `BE` (backend type) and `NAME` are resolved where the macro is expanded.
macro_rules! sweep_body {
    () => {

    fn case(op: &str, shape: String, query: impl FnOnce() -> usize, f: impl FnOnce(&mut Scratch<BE>)) {
        run_case::<BE>(NAME, op, shape, query, f)
    }

    // -----------------------------------------------------------------------------------------
    // blind rotation
    // -----------------------------------------------------------------------------------------
    pub fn sweep_blind_rotation() {
        let base2k: usize = 13;
        for n in [8usize, 16, 64] {
            let module: Module<BE> = Module::<BE>::new(n as u64);
            let mut big: ScratchOwned<BE> = ScratchOwned::alloc(BIG);
            for rank in [1usize, 2] {
                let mut source_xs = Source::new([1u8; 32]);
                let mut source_xe = Source::new([2u8; 32]);
                let mut source_xa = Source::new([3u8; 32]);
                let mut sk_glwe: GLWESecret<Vec<u8>> = GLWESecret::alloc(n.into(), rank.into());
                sk_glwe.fill_ternary_prob(0.5, &mut source_xs);
                let mut sk_glwe_prep: GLWESecretPrepared<DeviceBuf<BE>, BE> = module.glwe_secret_prepared_alloc(rank.into());
                module.glwe_secret_prepare(&mut sk_glwe_prep, &sk_glwe);

                for &(block_size, n_lwe) in &[(1usize, 4usize), (2, 4), (3, 6)] {
                    let mut sk_lwe: LWESecret<Vec<u8>> = LWESecret::alloc(n_lwe.into());
                    sk_lwe.fill_binary_block(block_size, &mut source_xs);

                    for &(k_brk, dnum) in &[(3 * base2k, 1usize), (3 * base2k, 3), (2 * base2k, 2)] {
                        let brk_infos = BlindRotationKeyLayout {
                            n_glwe: n.into(),
                            n_lwe: n_lwe.into(),
                            base2k: base2k.into(),
                            k: k_brk.into(),
                            dnum: dnum.into(),
                            rank: rank.into(),
                        };
                        let shape_key = format!("n={n} rank={rank} block={block_size} n_lwe={n_lwe} base2k={base2k} k_brk={k_brk} dnum={dnum}");

                        // key encryption (standard)
                        let mut brk: BlindRotationKey<Vec<u8>, CGGI> = BlindRotationKey::<Vec<u8>, CGGI>::alloc(&brk_infos);
                        case(
                            "blind_rotation_key_encrypt_sk",
                            shape_key.clone(),
                            || BlindRotationKey::<Vec<u8>, CGGI>::encrypt_sk_tmp_bytes(&module, &brk_infos),
                            |scratch| {
                                brk.encrypt_sk(
                                    &module,
                                    &sk_glwe_prep,
                                    &sk_lwe,
                                    &noise(k_brk),
                                    &mut source_xe,
                                    &mut source_xa,
                                    scratch,
                                )
                            },
                        );
                        // make sure the key is fully encrypted even if the case above failed
                        brk.encrypt_sk(
                            &module,
                            &sk_glwe_prep,
                            &sk_lwe,
                            &noise(k_brk),
                            &mut source_xe,
                            &mut source_xa,
                            big.borrow(),
                        );

                        // key encryption (compressed)
                        let mut brk_c: BlindRotationKeyCompressed<Vec<u8>, CGGI> =
                            BlindRotationKeyCompressed::<Vec<u8>, CGGI>::alloc(&brk_infos);
                        case(
                            "blind_rotation_key_compressed_encrypt_sk",
                            shape_key.clone(),
                            || module.blind_rotation_key_compressed_encrypt_sk_tmp_bytes(&brk_infos),
                            |scratch| {
                                module.blind_rotation_key_compressed_encrypt_sk(
                                    &mut brk_c,
                                    &sk_glwe_prep,
                                    &sk_lwe,
                                    [7u8; 32],
                                    &noise(k_brk),
                                    &mut source_xe,
                                    scratch,
                                )
                            },
                        );

                        // key preparation
                        let mut brk_prep: BlindRotationKeyPrepared<DeviceBuf<BE>, CGGI, BE> =
                            BlindRotationKeyPrepared::alloc(&module, &brk_infos);
                        case(
                            "blind_rotation_key_prepare",
                            shape_key.clone(),
                            || BlindRotationKeyPrepared::<DeviceBuf<BE>, CGGI, BE>::prepare_tmp_bytes(&module, &brk_infos),
                            |scratch| brk_prep.prepare(&module, &brk, scratch),
                        );
                        brk_prep.prepare(&module, &brk, big.borrow());

                        // execute
                        let lwe_infos = LWELayout {
                            n: n_lwe.into(),
                            k: 17usize.into(),
                            base2k: 9usize.into(),
                        };
                        let mut lwe: LWE<Vec<u8>> = LWE::alloc_from_infos(&lwe_infos);
                        let mut pt_lwe: LWEPlaintext<Vec<u8>> = LWEPlaintext::alloc_from_infos(&lwe_infos);
                        pt_lwe.encode_i64(3, 4usize.into());
                        module.lwe_encrypt_sk(
                            &mut lwe,
                            &pt_lwe,
                            &sk_lwe,
                            &noise(17),
                            &mut source_xe,
                            &mut source_xa,
                            big.borrow(),
                        );

                        for k_res in [base2k, 2 * base2k, 4 * base2k] {
                            let glwe_infos = GLWELayout {
                                n: n.into(),
                                base2k: base2k.into(),
                                k: k_res.into(),
                                rank: rank.into(),
                            };
                            for ext in [1usize, 2, 4] {
                                for k_lut in [base2k, 3 * base2k] {
                                    let lut_infos = LookUpTableLayout {
                                        n: n.into(),
                                        extension_factor: ext,
                                        k: k_lut.into(),
                                        base2k: base2k.into(),
                                    };
                                    let mut lut: LookupTable = LookupTable::alloc(&lut_infos);
                                    let f: Vec<i64> = (0..8).map(|i| 2 * i + 1).collect();
                                    lut.set(&module, &f, 4);
                                    let mut res: GLWE<Vec<u8>> = GLWE::alloc_from_infos(&glwe_infos);
                                    let kind = if ext > 1 {
                                        "extended"
                                    } else if block_size > 1 {
                                        "block_binary"
                                    } else {
                                        "standard"
                                    };
                                    case(
                                        &format!("blind_rotation_execute[{kind}]"),
                                        format!("{shape_key} k_res={k_res} ext={ext} k_lut={k_lut}"),
                                        || {
                                            BlindRotationKeyPrepared::<DeviceBuf<BE>, CGGI, BE>::execute_tmp_bytes(
                                                &module,
                                                block_size,
                                                ext,
                                                &glwe_infos,
                                                &brk_infos,
                                            )
                                        },
                                        |scratch| brk_prep.execute(&module, &mut res, &lwe, &lut, scratch),
                                    );
                                }
                            }
                        }
                    }
                }
            }
        }
    }


    // -----------------------------------------------------------------------------------------
    // circuit bootstrapping
    // -----------------------------------------------------------------------------------------
    #[derive(Clone, Copy, Debug)]
    pub struct CbtShape {
        pub n: usize,
        pub rank: usize,
        pub block: usize,
        pub n_lwe: usize,
        pub b_res: usize,
        pub b_brk: usize,
        pub b_atk: usize,
        pub b_tsk: usize,
        pub dnum_res: usize,
        pub k_res: usize,
        pub k_brk: usize,
        pub dnum_brk: usize,
        pub k_atk: usize,
        pub dnum_atk: usize,
        pub dsize_atk: usize,
        pub k_tsk: usize,
        pub dnum_tsk: usize,
        pub dsize_tsk: usize,
    }

    impl CbtShape {
        pub fn cbt_layout(&self) -> CircuitBootstrappingKeyLayout {
            CircuitBootstrappingKeyLayout {
                brk_layout: BlindRotationKeyLayout {
                    n_glwe: self.n.into(),
                    n_lwe: self.n_lwe.into(),
                    base2k: self.b_brk.into(),
                    k: self.k_brk.into(),
                    dnum: self.dnum_brk.into(),
                    rank: self.rank.into(),
                },
                atk_layout: GLWEAutomorphismKeyLayout {
                    n: self.n.into(),
                    base2k: self.b_atk.into(),
                    k: self.k_atk.into(),
                    dnum: self.dnum_atk.into(),
                    rank: self.rank.into(),
                    dsize: Dsize(self.dsize_atk as u32),
                },
                tsk_layout: GGLWEToGGSWKeyLayout {
                    n: self.n.into(),
                    base2k: self.b_tsk.into(),
                    k: self.k_tsk.into(),
                    dnum: self.dnum_tsk.into(),
                    dsize: Dsize(self.dsize_tsk as u32),
                    rank: self.rank.into(),
                },
            }
        }
        pub fn res_layout(&self) -> GGSWLayout {
            GGSWLayout {
                n: self.n.into(),
                base2k: self.b_res.into(),
                k: self.k_res.into(),
                dnum: self.dnum_res.into(),
                dsize: Dsize(1),
                rank: self.rank.into(),
            }
        }
    }

    pub fn cbt_shapes() -> Vec<CbtShape> {
        let mut v = Vec::new();
        for n in [32usize, 64] {
            for rank in [1usize, 2] {
                for &(block, n_lwe) in &[(1usize, 4usize), (3, 6)] {
                    // (b_res, b_brk, b_atk, b_tsk)
                    for &(b_res, b_brk, b_atk, b_tsk) in &[(15usize, 13usize, 11usize, 12usize), (13, 13, 13, 13), (11, 14, 17, 12)] {
                        for dnum_res in [1usize, 2, 3] {
                            let k_res = (dnum_res + 1) * b_res;
                            // keys larger than result
                            v.push(CbtShape {
                                n,
                                rank,
                                block,
                                n_lwe,
                                b_res,
                                b_brk,
                                b_atk,
                                b_tsk,
                                dnum_res,
                                k_res,
                                k_brk: k_res + b_brk,
                                dnum_brk: (k_res + b_brk).div_ceil(b_brk) - 1,
                                k_atk: k_res + b_atk,
                                dnum_atk: (k_res + b_atk).div_ceil(b_atk) - 1,
                                dsize_atk: 1,
                                k_tsk: k_res + b_tsk,
                                dnum_tsk: (k_res + b_tsk).div_ceil(b_tsk) - 1,
                                dsize_tsk: 1,
                            });
                            // keys smaller than result, dsize 2 on atk / tsk
                            if dnum_res >= 2 {
                                v.push(CbtShape {
                                    n,
                                    rank,
                                    block,
                                    n_lwe,
                                    b_res,
                                    b_brk,
                                    b_atk,
                                    b_tsk,
                                    dnum_res,
                                    k_res,
                                    k_brk: 2 * b_brk,
                                    dnum_brk: 1,
                                    k_atk: 4 * b_atk,
                                    dnum_atk: 2,
                                    dsize_atk: 2,
                                    k_tsk: 4 * b_tsk,
                                    dnum_tsk: 1,
                                    dsize_tsk: 2,
                                });
                            }
                        }
                    }
                }
            }
        }
        v
    }

    pub struct CbtCtx {
        pub module: Module<BE>,
        pub sk_glwe: GLWESecret<Vec<u8>>,
        pub sk_glwe_prep: GLWESecretPrepared<DeviceBuf<BE>, BE>,
        pub sk_lwe: LWESecret<Vec<u8>>,
    }

    pub fn cbt_ctx(n: usize, rank: usize, block: usize, n_lwe: usize) -> CbtCtx {
        let module: Module<BE> = Module::<BE>::new(n as u64);
        let mut source_xs = Source::new([1u8; 32]);
        let mut sk_glwe: GLWESecret<Vec<u8>> = GLWESecret::alloc(n.into(), rank.into());
        sk_glwe.fill_ternary_prob(0.5, &mut source_xs);
        let mut sk_glwe_prep: GLWESecretPrepared<DeviceBuf<BE>, BE> = module.glwe_secret_prepared_alloc(rank.into());
        module.glwe_secret_prepare(&mut sk_glwe_prep, &sk_glwe);
        let mut sk_lwe: LWESecret<Vec<u8>> = LWESecret::alloc(n_lwe.into());
        sk_lwe.fill_binary_block(block, &mut source_xs);
        CbtCtx {
            module,
            sk_glwe,
            sk_glwe_prep,
            sk_lwe,
        }
    }

    pub fn sweep_circuit_bootstrapping() {
        let mut big: ScratchOwned<BE> = ScratchOwned::alloc(BIG);
        let mut source_xe = Source::new([2u8; 32]);
        let mut source_xa = Source::new([3u8; 32]);
        for sh in cbt_shapes() {
            let ctx = cbt_ctx(sh.n, sh.rank, sh.block, sh.n_lwe);
            let module = &ctx.module;
            let cbt_infos = sh.cbt_layout();
            let enc_infos = CircuitBootstrappingEncryptionInfos::from_default_sigma(&cbt_infos).unwrap();
            let shape = format!("{sh:?}");

            let mut key: CircuitBootstrappingKey<Vec<u8>, CGGI> = CircuitBootstrappingKey::alloc_from_infos(&cbt_infos);
            case(
                "circuit_bootstrapping_key_encrypt_sk",
                shape.clone(),
                || <Module<BE> as CircuitBootstrappingKeyEncryptSk<CGGI, BE>>::circuit_bootstrapping_key_encrypt_sk_tmp_bytes(module, &cbt_infos),
                |scratch| key.encrypt_sk(module, &ctx.sk_lwe, &ctx.sk_glwe, &enc_infos, &mut source_xe, &mut source_xa, scratch),
            );
            key.encrypt_sk(
                module,
                &ctx.sk_lwe,
                &ctx.sk_glwe,
                &enc_infos,
                &mut source_xe,
                &mut source_xa,
                big.borrow(),
            );

            let mut key_prep: CircuitBootstrappingKeyPrepared<DeviceBuf<BE>, CGGI, BE> =
                CircuitBootstrappingKeyPrepared::alloc_from_infos(module, &cbt_infos);
            case(
                "circuit_bootstrapping_key_prepare",
                shape.clone(),
                || <Module<BE> as CircuitBootstrappingKeyPreparedFactory<CGGI, BE>>::circuit_bootstrapping_key_prepare_tmp_bytes(module, &cbt_infos),
                |scratch| key_prep.prepare(module, &key, scratch),
            );
            key_prep.prepare(module, &key, big.borrow());

            let lwe_infos = LWELayout {
                n: sh.n_lwe.into(),
                k: 17usize.into(),
                base2k: 14usize.into(),
            };
            let mut lwe: LWE<Vec<u8>> = LWE::alloc_from_infos(&lwe_infos);
            let mut pt_lwe: LWEPlaintext<Vec<u8>> = LWEPlaintext::alloc_from_infos(&lwe_infos);
            pt_lwe.encode_i64(1, 2usize.into());
            module.lwe_encrypt_sk(
                &mut lwe,
                &pt_lwe,
                &ctx.sk_lwe,
                &noise(17),
                &mut source_xe,
                &mut source_xa,
                big.borrow(),
            );

            let res_infos = sh.res_layout();
            for ext in [1usize, 2] {
                for log_domain in [1usize, 2] {
                    let mut res: GGSW<Vec<u8>> = GGSW::alloc_from_infos(&res_infos);
                    case(
                        "circuit_bootstrapping_execute_to_constant",
                        format!("{shape} ext={ext} log_domain={log_domain}"),
                        || {
                            <Module<BE> as CircuitBootstrappingExecute<CGGI, BE>>::circuit_bootstrapping_execute_tmp_bytes(
                                module, sh.block, ext, &res_infos, &cbt_infos,
                            )
                        },
                        |scratch| key_prep.execute_to_constant(module, &mut res, &lwe, log_domain, ext, scratch),
                    );
                    for log_gap_out in [0usize, 1, 2] {
                        let mut res: GGSW<Vec<u8>> = GGSW::alloc_from_infos(&res_infos);
                        case(
                            "circuit_bootstrapping_execute_to_exponent",
                            format!("{shape} ext={ext} log_domain={log_domain} log_gap_out={log_gap_out}"),
                            || {
                                #[cfg(sweep_fixed)]
                                return <Module<BE> as CircuitBootstrappingExecute<CGGI, BE>>::circuit_bootstrapping_execute_to_exponent_tmp_bytes(
                                    module, sh.block, ext, log_domain, &res_infos, &cbt_infos,
                                );
                                #[cfg(not(sweep_fixed))]
                                return <Module<BE> as CircuitBootstrappingExecute<CGGI, BE>>::circuit_bootstrapping_execute_tmp_bytes(
                                    module, sh.block, ext, &res_infos, &cbt_infos,
                                );
                            },
                            |scratch| key_prep.execute_to_exponent(module, log_gap_out, &mut res, &lwe, log_domain, ext, scratch),
                        );
                    }
                }
            }
        }
    }


    // -----------------------------------------------------------------------------------------
    // bdd arithmetic: cmux / cswap / blind selection / retrieval / rotation / circuits
    // -----------------------------------------------------------------------------------------
    #[derive(Clone, Copy, Debug)]
    pub struct BddShape {
        pub n: usize,
        pub rank: usize,
        pub b_res: usize,
        pub b_ggsw: usize,
        pub k_res: usize,
        pub k_ggsw: usize,
        pub dnum: usize,
        pub dsize: usize,
    }

    impl BddShape {
        pub fn glwe(&self) -> GLWELayout {
            GLWELayout {
                n: self.n.into(),
                base2k: self.b_res.into(),
                k: self.k_res.into(),
                rank: self.rank.into(),
            }
        }
        pub fn ggsw(&self) -> GGSWLayout {
            GGSWLayout {
                n: self.n.into(),
                base2k: self.b_ggsw.into(),
                k: self.k_ggsw.into(),
                rank: self.rank.into(),
                dnum: self.dnum.into(),
                dsize: Dsize(self.dsize as u32),
            }
        }
    }

    pub fn bdd_shapes(ns: &[usize], mixed_base2k: bool) -> Vec<BddShape> {
        let mut v = Vec::new();
        for &n in ns {
            for rank in [1usize, 2] {
                let mut bs = vec![(13usize, 13usize)];
                if mixed_base2k {
                    bs.push((13, 11));
                    bs.push((12, 17));
                }
                for (b_res, b_ggsw) in bs {
                    for k_res_limbs in [1usize, 2, 4] {
                        for (k_ggsw_limbs, dsize) in [(2usize, 1usize), (4, 1), (4, 2), (4, 3)] {
                            let max_dnum = k_ggsw_limbs / dsize;
                            let mut dnums = vec![1usize];
                            if max_dnum > 1 {
                                dnums.push(max_dnum);
                            }
                            for dnum in dnums {
                                v.push(BddShape {
                                    n,
                                    rank,
                                    b_res,
                                    b_ggsw,
                                    k_res: k_res_limbs * b_res,
                                    k_ggsw: k_ggsw_limbs * b_ggsw,
                                    dnum,
                                    dsize,
                                });
                            }
                        }
                    }
                }
            }
        }
        v
    }

    pub struct BddCtx {
        pub module: Module<BE>,
        pub sk_prep: GLWESecretPrepared<DeviceBuf<BE>, BE>,
        pub source_xe: Source,
        pub source_xa: Source,
        pub big: ScratchOwned<BE>,
    }

    pub fn bdd_ctx(n: usize, rank: usize) -> BddCtx {
        let module: Module<BE> = Module::<BE>::new(n as u64);
        let mut source_xs = Source::new([1u8; 32]);
        let mut sk: GLWESecret<Vec<u8>> = GLWESecret::alloc(n.into(), rank.into());
        sk.fill_ternary_prob(0.5, &mut source_xs);
        let mut sk_prep: GLWESecretPrepared<DeviceBuf<BE>, BE> = module.glwe_secret_prepared_alloc(rank.into());
        module.glwe_secret_prepare(&mut sk_prep, &sk);
        BddCtx {
            module,
            sk_prep,
            source_xe: Source::new([2u8; 32]),
            source_xa: Source::new([3u8; 32]),
            big: ScratchOwned::alloc(BIG),
        }
    }

    impl BddCtx {
        pub fn glwe(&mut self, infos: &GLWELayout, value: i64) -> GLWE<Vec<u8>> {
            let mut pt: GLWEPlaintext<Vec<u8>> = GLWEPlaintext::alloc_from_infos(infos);
            pt.encode_coeff_i64(value, TorusPrecision(infos.base2k.as_u32().min(infos.k.as_u32())), 0);
            let mut ct: GLWE<Vec<u8>> = GLWE::alloc_from_infos(infos);
            self.module.glwe_encrypt_sk(
                &mut ct,
                &pt,
                &self.sk_prep,
                &noise(infos.k.as_usize()),
                &mut self.source_xe,
                &mut self.source_xa,
                self.big.borrow(),
            );
            ct
        }
        pub fn ggsw_bit(&mut self, infos: &GGSWLayout, bit: i64) -> GGSWPrepared<DeviceBuf<BE>, BE> {
            let mut ggsw: GGSW<Vec<u8>> = GGSW::alloc_from_infos(infos);
            let mut pt: ScalarZnx<Vec<u8>> = ScalarZnx::alloc(self.module.n(), 1);
            pt.raw_mut()[0] = bit;
            self.module.ggsw_encrypt_sk(
                &mut ggsw,
                &pt,
                &self.sk_prep,
                &noise(infos.k.as_usize()),
                &mut self.source_xe,
                &mut self.source_xa,
                self.big.borrow(),
            );
            let mut prep: GGSWPrepared<DeviceBuf<BE>, BE> = self.module.ggsw_prepared_alloc_from_infos(infos);
            self.module.ggsw_prepare(&mut prep, &ggsw, self.big.borrow());
            prep
        }
        pub fn ggsw(&mut self, infos: &GGSWLayout, bit: i64) -> GGSW<Vec<u8>> {
            let mut ggsw: GGSW<Vec<u8>> = GGSW::alloc_from_infos(infos);
            let mut pt: ScalarZnx<Vec<u8>> = ScalarZnx::alloc(self.module.n(), 1);
            pt.raw_mut()[0] = bit;
            self.module.ggsw_encrypt_sk(
                &mut ggsw,
                &pt,
                &self.sk_prep,
                &noise(infos.k.as_usize()),
                &mut self.source_xe,
                &mut self.source_xa,
                self.big.borrow(),
            );
            ggsw
        }
        pub fn uint_prepared<T: UnsignedInteger + ToBits>(&mut self, infos: &GGSWLayout, value: T) -> FheUintPrepared<DeviceBuf<BE>, T, BE> {
            let mut res: FheUintPrepared<DeviceBuf<BE>, T, BE> = FheUintPrepared::<DeviceBuf<BE>, T, BE>::alloc_from_infos(&self.module, infos);
            res.encrypt_sk(
                &self.module,
                value,
                &self.sk_prep,
                &noise(infos.k.as_usize()),
                &mut self.source_xe,
                &mut self.source_xa,
                self.big.borrow(),
            );
            res
        }
    }

    /// Small hand-made BDD circuit: `outputs` output bits, every bit-circuit has `levels` levels of width `state`.
    pub struct TestCircuit {
        pub nodes: Vec<Vec<Node>>,
        pub state: usize,
        pub inputs: usize,
    }

    impl TestCircuit {
        pub fn new(outputs: usize, state: usize, levels: usize, inputs: usize) -> Self {
            let mut nodes: Vec<Vec<Node>> = Vec::new();
            for o in 0..outputs {
                let mut v: Vec<Node> = Vec::new();
                for l in 0..levels {
                    for j in 0..state {
                        if (j + l + o) % 3 == 2 {
                            v.push(Node::Copy)
                        } else {
                            v.push(Node::Cmux((o + l + j) % inputs, (j + 1) % state, j % state))
                        }
                    }
                }
                v.push(Node::Cmux(o % inputs, state - 1, 0));
                for _ in 1..state {
                    v.push(Node::None)
                }
                nodes.push(v);
            }
            Self { nodes, state, inputs }
        }
    }

    impl GetBitCircuitInfo for TestCircuit {
        fn input_size(&self) -> usize {
            self.inputs
        }
        fn output_size(&self) -> usize {
            self.nodes.len()
        }
        fn get_circuit(&self, bit: usize) -> (&[Node], usize) {
            (&self.nodes[bit], self.state)
        }
    }

    pub fn sweep_cmux_family() {
        for sh in bdd_shapes(&[8, 16, 64], true) {
            let mut ctx = bdd_ctx(sh.n, sh.rank);
            let glwe_infos = sh.glwe();
            let ggsw_infos = sh.ggsw();
            let shape = format!("{sh:?}");
            let s = ctx.ggsw_bit(&ggsw_infos, 1);
            let module = Module::<BE>::new(sh.n as u64);

            if sh.b_res == sh.b_ggsw {
                // cmux (out of place), t and f with more / fewer limbs than res
                for k_a_limbs in [1usize, 3] {
                    let a_infos = GLWELayout {
                        k: (k_a_limbs * sh.b_res).into(),
                        ..glwe_infos
                    };
                    let t = ctx.glwe(&a_infos, 1);
                    let f = ctx.glwe(&a_infos, 0);
                    let mut res: GLWE<Vec<u8>> = GLWE::alloc_from_infos(&glwe_infos);
                    case(
                        "cmux",
                        format!("{shape} k_a={}", k_a_limbs * sh.b_res),
                        || module.cmux_tmp_bytes(&glwe_infos, &a_infos, &ggsw_infos),
                        |scratch| module.cmux(&mut res, &t, &f, &s, scratch),
                    );
                    let mut res = ctx.glwe(&glwe_infos, 1);
                    case(
                        "cmux_assign",
                        format!("{shape} k_a={}", k_a_limbs * sh.b_res),
                        || module.cmux_tmp_bytes(&glwe_infos, &a_infos, &ggsw_infos),
                        |scratch| module.cmux_assign(&mut res, &t, &s, scratch),
                    );
                    let mut res = ctx.glwe(&glwe_infos, 1);
                    case(
                        "cmux_assign_neg",
                        format!("{shape} k_a={}", k_a_limbs * sh.b_res),
                        || {
                            #[cfg(sweep_fixed)]
                            return module.cmux_assign_neg_tmp_bytes(&glwe_infos, &a_infos, &ggsw_infos);
                            #[cfg(not(sweep_fixed))]
                            return module.cmux_tmp_bytes(&glwe_infos, &a_infos, &ggsw_infos);
                        },
                        |scratch| module.cmux_assign_neg(&mut res, &t, &s, scratch),
                    );
                }
            }

            // cswap (supports res.base2k != ggsw.base2k)
            for k_b_limbs in [1usize, 3] {
                let b_infos = GLWELayout {
                    k: (k_b_limbs * sh.b_res).into(),
                    ..glwe_infos
                };
                let mut a = ctx.glwe(&glwe_infos, 1);
                let mut b = ctx.glwe(&b_infos, 0);
                case(
                    "cswap",
                    format!("{shape} k_b={}", k_b_limbs * sh.b_res),
                    || module.cswap_tmp_bytes(&glwe_infos, &b_infos, &ggsw_infos),
                    |scratch| module.cswap(&mut a, &mut b, &s, scratch),
                );
            }
        }
    }

    pub fn sweep_blind_ops() {
        for sh in bdd_shapes(&[8, 32], true) {
            let mut ctx = bdd_ctx(sh.n, sh.rank);
            let glwe_infos = sh.glwe();
            let ggsw_infos = sh.ggsw();
            let shape = format!("{sh:?}");
            let module = Module::<BE>::new(sh.n as u64);
            let k_enc: FheUintPrepared<DeviceBuf<BE>, u8, BE> = ctx.uint_prepared::<u8>(&ggsw_infos, 0xA6u8);

            // glwe_blind_retrieval_statefull (+rev): cswap network, supports mixed base2k
            for len in [2usize, 5] {
                let mut data: Vec<GLWE<Vec<u8>>> = (0..len).map(|i| ctx.glwe(&glwe_infos, i as i64)).collect();
                case(
                    "glwe_blind_retrieval_statefull",
                    format!("{shape} len={len}"),
                    || module.glwe_blind_retrieval_tmp_bytes(&glwe_infos, &ggsw_infos),
                    |scratch| {
                        module.glwe_blind_retrieval_statefull(&mut data, &k_enc, 1, 3, scratch);
                        module.glwe_blind_retrieval_statefull_rev(&mut data, &k_enc, 1, 3, scratch);
                    },
                );
            }

            if sh.b_res != sh.b_ggsw {
                continue;
            }

            // glwe_blind_selection
            for present in [0b1111_1111usize, 0b0101_0011, 0b1000_0000] {
                let mut cts: Vec<GLWE<Vec<u8>>> = (0..8).map(|i| ctx.glwe(&glwe_infos, i as i64)).collect();
                let mut map: HashMap<usize, &mut GLWE<Vec<u8>>> = HashMap::new();
                for (i, ct) in cts.iter_mut().enumerate() {
                    if (present >> i) & 1 == 1 {
                        map.insert(i, ct);
                    }
                }
                let mut res: GLWE<Vec<u8>> = GLWE::alloc_from_infos(&glwe_infos);
                case(
                    "glwe_blind_selection",
                    format!("{shape} present={present:#b}"),
                    || <Module<BE> as GLWEBlindSelection<u8, BE>>::glwe_blind_selection_tmp_bytes(&module, &glwe_infos, &ggsw_infos),
                    |scratch| <Module<BE> as GLWEBlindSelection<u8, BE>>::glwe_blind_selection(&module, &mut res, map, &k_enc, 2, 3, scratch),
                );
            }

            // GLWEBlindRetriever::retrieve
            for len in [1usize, 2, 5, 8] {
                let data: Vec<GLWE<Vec<u8>>> = (0..len).map(|i| ctx.glwe(&glwe_infos, i as i64)).collect();
                let mut retriever = GLWEBlindRetriever::alloc(&glwe_infos, 8);
                let mut res: GLWE<Vec<u8>> = GLWE::alloc_from_infos(&glwe_infos);
                case(
                    "GLWEBlindRetriever::retrieve",
                    format!("{shape} len={len}"),
                    || GLWEBlindRetriever::retrieve_tmp_bytes(&module, &glwe_infos, &ggsw_infos),
                    |scratch| retriever.retrieve(&module, &mut res, &data, &k_enc, 1, scratch),
                );
            }

            // glwe_blind_rotation (+assign)
            for sign in [true, false] {
                let a = ctx.glwe(&glwe_infos, 1);
                let mut res: GLWE<Vec<u8>> = GLWE::alloc_from_infos(&glwe_infos);
                case(
                    "glwe_blind_rotation",
                    format!("{shape} sign={sign}"),
                    || module.glwe_blind_rotation_tmp_bytes(&glwe_infos, &ggsw_infos),
                    |scratch| module.glwe_blind_rotation(&mut res, &a, &k_enc, sign, 1, 3, 0, scratch),
                );
                let mut res = ctx.glwe(&glwe_infos, 1);
                case(
                    "glwe_blind_rotation_assign",
                    format!("{shape} sign={sign}"),
                    || module.glwe_blind_rotation_tmp_bytes(&glwe_infos, &ggsw_infos),
                    |scratch| module.glwe_blind_rotation_assign(&mut res, &k_enc, sign, 0, 2, 1, scratch),
                );
            }

            // ggsw_blind_rotation (+assign), scalar_to_ggsw_blind_rotation: results are GGSW
            for (k_r_limbs, dnum_r) in [(2usize, 1usize), (3, 2)] {
                let res_ggsw_infos = GGSWLayout {
                    n: sh.n.into(),
                    base2k: sh.b_res.into(),
                    k: (k_r_limbs * sh.b_res).into(),
                    rank: sh.rank.into(),
                    dnum: dnum_r.into(),
                    dsize: Dsize(1),
                };
                let a = ctx.ggsw(&res_ggsw_infos, 1);
                let mut res: GGSW<Vec<u8>> = GGSW::alloc_from_infos(&res_ggsw_infos);
                case(
                    "ggsw_blind_rotation",
                    format!("{shape} k_r={} dnum_r={dnum_r}", k_r_limbs * sh.b_res),
                    || <Module<BE> as GGSWBlindRotation<u8, BE>>::ggsw_to_ggsw_blind_rotation_tmp_bytes(&module, &res_ggsw_infos, &ggsw_infos),
                    |scratch| <Module<BE> as GGSWBlindRotation<u8, BE>>::ggsw_blind_rotation(&module, &mut res, &a, &k_enc, true, 0, 3, 0, scratch),
                );
                let mut res = ctx.ggsw(&res_ggsw_infos, 1);
                case(
                    "ggsw_blind_rotation_assign",
                    format!("{shape} k_r={} dnum_r={dnum_r}", k_r_limbs * sh.b_res),
                    || <Module<BE> as GGSWBlindRotation<u8, BE>>::ggsw_to_ggsw_blind_rotation_tmp_bytes(&module, &res_ggsw_infos, &ggsw_infos),
                    |scratch| <Module<BE> as GGSWBlindRotation<u8, BE>>::ggsw_blind_rotation_assign(&module, &mut res, &k_enc, false, 1, 2, 0, scratch),
                );
                let mut tv: ScalarZnx<Vec<u8>> = ScalarZnx::alloc(sh.n, 1);
                tv.raw_mut()[0] = 1;
                let mut res: GGSW<Vec<u8>> = GGSW::alloc_from_infos(&res_ggsw_infos);
                case(
                    "scalar_to_ggsw_blind_rotation",
                    format!("{shape} k_r={} dnum_r={dnum_r}", k_r_limbs * sh.b_res),
                    || <Module<BE> as GGSWBlindRotation<u8, BE>>::scalar_to_ggsw_blind_rotation_tmp_bytes(&module, &res_ggsw_infos, &ggsw_infos),
                    |scratch| <Module<BE> as GGSWBlindRotation<u8, BE>>::scalar_to_ggsw_blind_rotation(&module, &mut res, &tv, &k_enc, true, 0, 3, 0, scratch),
                );
            }

            // execute_bdd_circuit (+multi thread) on a hand-made circuit
            for state in [1usize, 2, 3] {
                let circuit = TestCircuit::new(5, state, 2, 8);
                for threads in [1usize, 2, 3] {
                    let mut out: Vec<GLWE<Vec<u8>>> = (0..6).map(|_| GLWE::alloc_from_infos(&glwe_infos)).collect();
                    case(
                        "execute_bdd_circuit_multi_thread",
                        format!("{shape} state={state} threads={threads}"),
                        || threads * module.execute_bdd_circuit_tmp_bytes(&glwe_infos, circuit.max_state_size(), &ggsw_infos),
                        |scratch| module.execute_bdd_circuit_multi_thread(threads, &mut out, &k_enc, &circuit, scratch),
                    );
                }
                let mut out: Vec<GLWE<Vec<u8>>> = (0..5).map(|_| GLWE::alloc_from_infos(&glwe_infos)).collect();
                case(
                    "execute_bdd_circuit",
                    format!("{shape} state={state}"),
                    || module.execute_bdd_circuit_tmp_bytes(&glwe_infos, circuit.max_state_size(), &ggsw_infos),
                    |scratch| module.execute_bdd_circuit(&mut out, &k_enc, &circuit, scratch),
                );
            }
        }
    }


    // -----------------------------------------------------------------------------------------
    // FheUint encrypt / decrypt, two-word circuits (add, sll, and, slt + multi-thread variants)
    // -----------------------------------------------------------------------------------------
    pub fn atk_map(
        module: &Module<BE>,
        sk: &GLWESecret<Vec<u8>>,
        infos: &GLWEAutomorphismKeyLayout,
        big: &mut ScratchOwned<BE>,
    ) -> HashMap<i64, GLWEAutomorphismKeyPrepared<DeviceBuf<BE>, BE>> {
        let mut source_xe = Source::new([5u8; 32]);
        let mut source_xa = Source::new([6u8; 32]);
        let mut map = HashMap::new();
        for p in trace_galois_elements(module.log_n(), 2 * module.n() as i64) {
            let mut key: GLWEAutomorphismKey<Vec<u8>> = GLWEAutomorphismKey::alloc_from_infos(infos);
            module.glwe_automorphism_key_encrypt_sk(
                &mut key,
                p,
                sk,
                &noise(infos.k.as_usize()),
                &mut source_xe,
                &mut source_xa,
                big.borrow(),
            );
            let mut prep: GLWEAutomorphismKeyPrepared<DeviceBuf<BE>, BE> = module.glwe_automorphism_key_prepared_alloc_from_infos(infos);
            module.glwe_automorphism_key_prepare(&mut prep, &key, big.borrow());
            map.insert(p, prep);
        }
        map
    }

    pub fn sweep_fhe_uint_and_circuits() {
        for n in [32usize, 64] {
            for rank in [1usize, 2] {
                let module: Module<BE> = Module::<BE>::new(n as u64);
                let mut big: ScratchOwned<BE> = ScratchOwned::alloc(BIG);
                let mut source_xs = Source::new([1u8; 32]);
                let mut source_xe = Source::new([2u8; 32]);
                let mut source_xa = Source::new([3u8; 32]);
                let mut sk: GLWESecret<Vec<u8>> = GLWESecret::alloc(n.into(), rank.into());
                sk.fill_ternary_prob(0.5, &mut source_xs);
                let mut sk_prep: GLWESecretPrepared<DeviceBuf<BE>, BE> = module.glwe_secret_prepared_alloc(rank.into());
                module.glwe_secret_prepare(&mut sk_prep, &sk);

                // FheUint encrypt / decrypt
                for base2k in [7usize, 13, 17] {
                    for limbs in [1usize, 2, 4] {
                        let glwe_infos = GLWELayout {
                            n: n.into(),
                            base2k: base2k.into(),
                            k: (limbs * base2k).into(),
                            rank: rank.into(),
                        };
                        let shape = format!("n={n} rank={rank} base2k={base2k} k={}", limbs * base2k);
                        let mut ct: FheUint<Vec<u8>, u32> = FheUint::<Vec<u8>, u32>::alloc_from_infos(&glwe_infos);
                        let q = ct.encrypt_sk_tmp_bytes::<_, BE>(&module);
                        case(
                            "FheUint::encrypt_sk",
                            shape.clone(),
                            || q,
                            |scratch| {
                                ct.encrypt_sk(
                                    &module,
                                    0xDEADBEEFu32,
                                    &sk_prep,
                                    &noise(limbs * base2k),
                                    &mut source_xe,
                                    &mut source_xa,
                                    scratch,
                                )
                            },
                        );
                        ct.encrypt_sk(
                            &module,
                            0xDEADBEEFu32,
                            &sk_prep,
                            &noise(limbs * base2k),
                            &mut source_xe,
                            &mut source_xa,
                            big.borrow(),
                        );
                        case(
                            "FheUint::decrypt",
                            shape.clone(),
                            || ct.decrypt_tmp_bytes::<_, BE>(&module),
                            |scratch| {
                                let _ = ct.decrypt(&module, &sk_prep, scratch);
                            },
                        );
                    }
                }

                // two-word circuits
                let base2k: usize = 13;
                for (i_ggsw, (k_res_limbs, k_ggsw_limbs, dnum, dsize)) in
                    [(1usize, 2usize, 2usize, 1usize), (2, 3, 1, 2), (3, 2, 1, 1)].into_iter().enumerate()
                {
                    for (i_atk, (b_atk, k_atk_limbs, dnum_atk, dsize_atk)) in
                        [(13usize, 3usize, 2usize, 1usize), (11, 4, 2, 2), (17, 2, 1, 1)].into_iter().enumerate()
                    {
                        // the circuits are large: full grid for n = 32, the diagonal for n = 64
                        if n != 32 && i_ggsw != i_atk {
                            continue;
                        }
                        let glwe_infos = GLWELayout {
                            n: n.into(),
                            base2k: base2k.into(),
                            k: (k_res_limbs * base2k).into(),
                            rank: rank.into(),
                        };
                        let ggsw_infos = GGSWLayout {
                            n: n.into(),
                            base2k: base2k.into(),
                            k: (k_ggsw_limbs * base2k).into(),
                            rank: rank.into(),
                            dnum: dnum.into(),
                            dsize: Dsize(dsize as u32),
                        };
                        let atk_infos = GLWEAutomorphismKeyLayout {
                            n: n.into(),
                            base2k: b_atk.into(),
                            k: (k_atk_limbs * b_atk).into(),
                            rank: rank.into(),
                            dnum: dnum_atk.into(),
                            dsize: Dsize(dsize_atk as u32),
                        };
                        let keys = atk_map(&module, &sk, &atk_infos, &mut big);
                        let mut a: FheUintPrepared<DeviceBuf<BE>, u32, BE> =
                            FheUintPrepared::<DeviceBuf<BE>, u32, BE>::alloc_from_infos(&module, &ggsw_infos);
                        let mut b: FheUintPrepared<DeviceBuf<BE>, u32, BE> =
                            FheUintPrepared::<DeviceBuf<BE>, u32, BE>::alloc_from_infos(&module, &ggsw_infos);
                        a.encrypt_sk(
                            &module,
                            0x1234_5678u32,
                            &sk_prep,
                            &noise(k_ggsw_limbs * base2k),
                            &mut source_xe,
                            &mut source_xa,
                            big.borrow(),
                        );
                        b.encrypt_sk(
                            &module,
                            0x0000_0007u32,
                            &sk_prep,
                            &noise(k_ggsw_limbs * base2k),
                            &mut source_xe,
                            &mut source_xa,
                            big.borrow(),
                        );
                        let shape = format!(
                            "n={n} rank={rank} base2k={base2k} k_res={} ggsw(k={} dnum={dnum} dsize={dsize}) atk(base2k={b_atk} k={} dnum={dnum_atk} dsize={dsize_atk})",
                            k_res_limbs * base2k,
                            k_ggsw_limbs * base2k,
                            k_atk_limbs * b_atk
                        );
                        two_word!("FheUint::add", add, add_multi_thread, add_tmp_bytes, add_multi_thread_tmp_bytes, module, glwe_infos, ggsw_infos, keys, a, b, shape);
                        if n == 32 && i_atk == 0 {
                            two_word!("FheUint::sll", sll, sll_multi_thread, sll_tmp_bytes, sll_multi_thread_tmp_bytes, module, glwe_infos, ggsw_infos, keys, a, b, shape);
                        }
                        two_word!("FheUint::and", and, and_multi_thread, and_tmp_bytes, and_multi_thread_tmp_bytes, module, glwe_infos, ggsw_infos, keys, a, b, shape);
                        two_word!("FheUint::slt", slt, slt_multi_thread, slt_tmp_bytes, slt_multi_thread_tmp_bytes, module, glwe_infos, ggsw_infos, keys, a, b, shape);
                    }
                }
            }
        }
    }

    // -----------------------------------------------------------------------------------------
    // BDD key (encrypt / prepare) and FheUintPrepared::prepare (+ multi-thread)
    // -----------------------------------------------------------------------------------------
    pub fn sweep_bdd_key_and_prepare() {
        let mut big: ScratchOwned<BE> = ScratchOwned::alloc(BIG);
        let mut source_xe = Source::new([2u8; 32]);
        let mut source_xa = Source::new([3u8; 32]);
        for sh in cbt_shapes() {
            // keep a representative subset of the circuit bootstrapping shapes
            if sh.dnum_res == 3 || sh.b_res == 11 || sh.block == 1 {
                continue;
            }
            for with_ks_glwe in [false, true] {
                for (b_lwe, k_lwe_limbs, dnum_lwe) in [(4usize, 4usize, 3usize), (13, 2, 1)] {
                    let ctx = cbt_ctx(sh.n, sh.rank, sh.block, sh.n_lwe);
                    let module = &ctx.module;
                    let ks_glwe_layout = if with_ks_glwe {
                        Some(GLWESwitchingKeyLayout {
                            n: sh.n.into(),
                            base2k: b_lwe.into(),
                            k: ((k_lwe_limbs + 1) * b_lwe).into(),
                            rank_in: sh.rank.into(),
                            rank_out: Rank(1),
                            dnum: dnum_lwe.into(),
                            dsize: Dsize(1),
                        })
                    } else {
                        None
                    };
                    let bdd_infos = BDDKeyLayout {
                        cbt_layout: sh.cbt_layout(),
                        ks_glwe_layout,
                        ks_lwe_layout: GLWEToLWEKeyLayout {
                            n: sh.n.into(),
                            base2k: b_lwe.into(),
                            k: (k_lwe_limbs * b_lwe).into(),
                            rank_in: if with_ks_glwe { Rank(1) } else { Rank(sh.rank as u32) },
                            dnum: dnum_lwe.into(),
                        },
                    };
                    let shape = format!("{sh:?} ks_glwe={with_ks_glwe} ks_lwe(base2k={b_lwe} k={} dnum={dnum_lwe})", k_lwe_limbs * b_lwe);
                    let enc_infos = BDDEncryptionInfos::from_default_sigma(&bdd_infos).unwrap();
                    let mut key: BDDKey<Vec<u8>, CGGI> = BDDKey::alloc_from_infos(&bdd_infos);
                    case(
                        "bdd_key_encrypt_sk",
                        shape.clone(),
                        || <Module<BE> as BDDKeyEncryptSk<CGGI, BE>>::bdd_key_encrypt_sk_tmp_bytes(module, &bdd_infos),
                        |scratch| key.encrypt_sk(module, &ctx.sk_lwe, &ctx.sk_glwe, &enc_infos, &mut source_xe, &mut source_xa, scratch),
                    );
                    key.encrypt_sk(
                        module,
                        &ctx.sk_lwe,
                        &ctx.sk_glwe,
                        &enc_infos,
                        &mut source_xe,
                        &mut source_xa,
                        big.borrow(),
                    );
                    let mut key_prep: BDDKeyPrepared<DeviceBuf<BE>, CGGI, BE> = BDDKeyPrepared::alloc_from_infos(module, &bdd_infos);
                    case(
                        "prepare_bdd_key",
                        shape.clone(),
                        || <Module<BE> as BDDKeyPreparedFactory<CGGI, BE>>::prepare_bdd_key_tmp_bytes(module, &bdd_infos),
                        |scratch| key_prep.prepare(module, &key, scratch),
                    );
                    key_prep.prepare(module, &key, big.borrow());

                    // FheUint -> FheUintPrepared
                    for (b_uint, k_uint_limbs) in [(13usize, 2usize), (9, 3)] {
                        let uint_infos = GLWELayout {
                            n: sh.n.into(),
                            base2k: b_uint.into(),
                            k: (k_uint_limbs * b_uint).into(),
                            rank: sh.rank.into(),
                        };
                        let mut ct: FheUint<Vec<u8>, u32> = FheUint::<Vec<u8>, u32>::alloc_from_infos(&uint_infos);
                        ct.encrypt_sk(
                            module,
                            0xDEADBEEFu32,
                            &ctx.sk_glwe_prep,
                            &noise(k_uint_limbs * b_uint),
                            &mut source_xe,
                            &mut source_xa,
                            big.borrow(),
                        );
                        let res_infos = sh.res_layout();
                        for threads in [1usize, 2, 3] {
                            let mut res: FheUintPrepared<DeviceBuf<BE>, u32, BE> =
                                FheUintPrepared::<DeviceBuf<BE>, u32, BE>::alloc_from_infos(module, &res_infos);
                            case(
                                "fhe_uint_prepare_custom_multi_thread",
                                format!("{shape} uint(base2k={b_uint} k={}) threads={threads}", k_uint_limbs * b_uint),
                                || {
                                    threads
                                        * <Module<BE> as FheUintPrepare<CGGI, BE>>::fhe_uint_prepare_tmp_bytes(
                                            module, sh.block, 1, &res_infos, &uint_infos, &bdd_infos,
                                        )
                                },
                                |scratch| res.prepare_custom_multi_thread(threads, module, &ct, 3, 5, &key_prep, scratch),
                            );
                        }
                    }
                }
            }
        }
    }

    #[test]
    fn app_scratch_sweep() {
        let _g = SERIAL.lock().unwrap_or_else(|e| e.into_inner());
        install_hook();
        let t = std::time::Instant::now();
        sweep_blind_rotation();
        println!("[{NAME}] blind rotation sweep: {:?}", t.elapsed());
        sweep_circuit_bootstrapping();
        println!("[{NAME}] + circuit bootstrapping sweep: {:?}", t.elapsed());
        sweep_cmux_family();
        println!("[{NAME}] + cmux / cswap sweep: {:?}", t.elapsed());
        sweep_blind_ops();
        println!("[{NAME}] + blind selection / retrieval / rotation / bdd circuit sweep: {:?}", t.elapsed());
        sweep_fhe_uint_and_circuits();
        println!("[{NAME}] + FheUint and two-word circuits sweep: {:?}", t.elapsed());
        sweep_bdd_key_and_prepare();
        println!("[{NAME}] + BDD key and FheUint prepare sweep: {:?}", t.elapsed());
        let _ = std::panic::take_hook();
        report_and_check(NAME);
    }
    };
}

mod fft64 {
    use super::*;
    type BE = FFT64Ref;
    const NAME: &str = "FFT64Ref";
    sweep_body!();
}

mod ntt120 {
    use super::*;
    type BE = NTT120Ref;
    const NAME: &str = "NTT120Ref";
    sweep_body!();
}
