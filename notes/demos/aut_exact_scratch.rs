use poulpy_core::{
    EncryptionLayout, GLWEAutomorphism, GLWEAutomorphismKeyEncryptSk, GLWEEncryptSk,
    layouts::{
        GLWE, GLWEAutomorphismKey, GLWEAutomorphismKeyLayout, GLWEAutomorphismKeyPreparedFactory, GLWELayout, GLWEPlaintext,
        GLWESecret, GLWESecretPreparedFactory,
        prepared::{GLWEAutomorphismKeyPrepared, GLWESecretPrepared},
    },
};
use poulpy_hal::{
    api::{ModuleNew, ScratchOwnedAlloc, ScratchOwnedBorrow},
    layouts::{Backend, DeviceBuf, Module, ScratchOwned},
    source::Source,
};

macro_rules! mkrun { ($fname:ident, $be:ty) => {
fn $fname(n: usize, in_base2k: usize, key_base2k: usize, out_base2k: usize, k_in: usize, rank: usize, dsize: usize, which: usize)
{
    let module: Module<$be> = Module::<$be>::new(n as u64);
    let k_ksk: usize = k_in + key_base2k * dsize;
    let dnum: usize = k_in.div_ceil(key_base2k * dsize);
    let ct_in_infos = EncryptionLayout::new_from_default_sigma(GLWELayout { n: n.into(), base2k: in_base2k.into(), k: k_in.into(), rank: rank.into() }).unwrap();
    let ct_out_infos: GLWELayout = GLWELayout { n: n.into(), base2k: out_base2k.into(), k: k_ksk.into(), rank: rank.into() };
    let autokey_infos = EncryptionLayout::new_from_default_sigma(GLWEAutomorphismKeyLayout { n: n.into(), base2k: key_base2k.into(), k: k_ksk.into(), rank: rank.into(), dnum: dnum.into(), dsize: dsize.into() }).unwrap();
    let mut autokey: GLWEAutomorphismKey<Vec<u8>> = GLWEAutomorphismKey::alloc_from_infos(&autokey_infos);
    let mut ct_in: GLWE<Vec<u8>> = GLWE::alloc_from_infos(&ct_in_infos);
    let mut ct_out: GLWE<Vec<u8>> = GLWE::alloc_from_infos(&ct_out_infos);
    let pt_in: GLWEPlaintext<Vec<u8>> = GLWEPlaintext::alloc_from_infos(&ct_in_infos);
    let mut source_xs: Source = Source::new([3u8; 32]);
    let mut source_xe: Source = Source::new([5u8; 32]);
    let mut source_xa: Source = Source::new([7u8; 32]);
    let mut scratch: ScratchOwned<$be> = ScratchOwned::alloc(module.glwe_automorphism_key_encrypt_sk_tmp_bytes(&autokey) | module.glwe_encrypt_sk_tmp_bytes(&ct_in) | (1 << 20));
    let mut sk: GLWESecret<Vec<u8>> = GLWESecret::alloc_from_infos(&ct_out);
    sk.fill_ternary_prob(0.5, &mut source_xs);
    let mut sk_prepared: GLWESecretPrepared<DeviceBuf<$be>, $be> = module.glwe_secret_prepared_alloc_from_infos(&sk);
    module.glwe_secret_prepare(&mut sk_prepared, &sk);
    module.glwe_automorphism_key_encrypt_sk(&mut autokey, -5, &sk, &autokey_infos, &mut source_xe, &mut source_xa, scratch.borrow());
    module.glwe_encrypt_sk(&mut ct_in, &pt_in, &sk_prepared, &ct_in_infos, &mut source_xe, &mut source_xa, scratch.borrow());
    let mut autokey_prepared: GLWEAutomorphismKeyPrepared<DeviceBuf<$be>, $be> = module.glwe_automorphism_key_prepared_alloc_from_infos(&autokey_infos);
    module.glwe_automorphism_key_prepare(&mut autokey_prepared, &autokey, scratch.borrow());
    // exact-size scratch
    let bytes = module.glwe_automorphism_tmp_bytes(&ct_out, &ct_in, &autokey);
    let mut exact: ScratchOwned<$be> = ScratchOwned::alloc(bytes);
    match which {
        0 => module.glwe_automorphism(&mut ct_out, &ct_in, &autokey_prepared, exact.borrow()),
        1 => module.glwe_automorphism_add(&mut ct_out, &ct_in, &autokey_prepared, exact.borrow()),
        2 => module.glwe_automorphism_sub(&mut ct_out, &ct_in, &autokey_prepared, exact.borrow()),
        _ => module.glwe_automorphism_sub_negate(&mut ct_out, &ct_in, &autokey_prepared, exact.borrow()),
    }
}
} }
mkrun!(run_ntt, poulpy_cpu_ref::NTT120Ref);
mkrun!(run_fft, poulpy_cpu_ref::FFT64Ref);
macro_rules! t { ($name:ident, $run:ident, $n:expr, $ib:expr, $kb:expr, $ob:expr, $k:expr, $rank:expr, $dsize:expr, $which:expr) => { #[test] fn $name() { $run($n, $ib, $kb, $ob, $k, $rank, $dsize, $which); } } }
t!(ntt_plain_cross_1limb, run_ntt, 16, 16, 17, 17, 16, 1, 1, 0);
t!(ntt_add_cross_1limb, run_ntt, 16, 16, 17, 17, 16, 1, 1, 1);
t!(ntt_sub_cross_1limb, run_ntt, 16, 16, 17, 17, 16, 1, 1, 2);
t!(ntt_subneg_cross_1limb, run_ntt, 16, 16, 17, 17, 16, 1, 1, 3);
t!(ntt_add_same_1limb, run_ntt, 16, 17, 17, 17, 17, 1, 1, 1);
t!(ntt_add_cross_2limb, run_ntt, 16, 16, 17, 17, 32, 1, 1, 1);
t!(fft_add_cross_1limb, run_fft, 16, 16, 17, 17, 16, 1, 1, 1);
t!(fft_add_same_1limb, run_fft, 16, 17, 17, 17, 17, 1, 1, 1);
t!(ntt_add_cross_rank2, run_ntt, 16, 16, 17, 17, 16, 2, 1, 1);
t!(ntt_add_cross_1limb_n64, run_ntt, 64, 16, 17, 17, 16, 1, 1, 1);
