// Metamorphic (oracle-free) check of the property
//
//   "the output of every operation is a function of its inputs only: it must not depend on the
//    bytes a scratch buffer (or the output buffer) held before the call".
//
// Place this file at: poulpy-cpu-ref/tests/scratch_dep.rs
// Run with:           cargo test -p poulpy-cpu-ref --test scratch_dep --offline -j 4 -- --test-threads 4
//
// Every test runs ONE operation several times on the very same inputs (ciphertexts, prepared keys):
//   run A: fresh (zeroed) output buffer, scratch arena pre-filled with garbage pattern A
//   run B: fresh (zeroed) output buffer, scratch arena pre-filled with garbage pattern B
//   run C: (non in-place operations only) output buffer pre-filled with garbage, scratch pattern A
// The scratch arena has exactly the size returned by the operation's `*_tmp_bytes` query.
// A == B  <=>  independent of the scratch history.
// A == C  <=>  independent of the previous content of the output buffer.
//
// One test per (operation, dsize in {1,2,3}); inside each test several layouts are exercised
// (rank 1 / rank 2, identical base2k everywhere / different base2k for input, key and output).

#![allow(clippy::too_many_arguments)]

use std::collections::HashMap;

use poulpy_core::{
    EncryptionLayout, GGLWEExternalProduct, GGLWEKeyswitch, GGLWEToGGSWKeyEncryptSk, GGSWAutomorphism, GGSWEncryptSk,
    GGSWExpandRows, GGSWExternalProduct, GGSWKeyswitch, GLWEAutomorphism, GLWEAutomorphismKeyAutomorphism,
    GLWEAutomorphismKeyEncryptSk, GLWEExternalProduct, GLWEKeyswitch, GLWEPacking, GLWESwitchingKeyEncryptSk, GLWETensorKeyEncryptSk,
    GLWETensoring, GLWETrace,
    layouts::{
        GGLWEInfos, GGLWEToGGSWKey, GGLWEToGGSWKeyLayout, GGLWEToGGSWKeyPrepared, GGLWEToGGSWKeyPreparedFactory, GGLWEToMut, GGLWEToRef,
        GGSW, GGSWInfos, GGSWLayout, GGSWPreparedFactory, GLWE, GLWEAutomorphismKey, GLWEAutomorphismKeyLayout,
        GLWEAutomorphismKeyPreparedFactory, GLWEInfos, GLWELayout, GLWESecret, GLWESecretPreparedFactory, GLWESwitchingKey,
        GLWESwitchingKeyLayout, GLWESwitchingKeyPreparedFactory, GLWETensor, GLWETensorKey, GLWETensorKeyLayout,
        GLWETensorKeyPrepared, GLWETensorKeyPreparedFactory, LWEInfos,
        prepared::{GGSWPrepared, GLWEAutomorphismKeyPrepared, GLWESecretPrepared, GLWESwitchingKeyPrepared},
    },
};
use poulpy_hal::{
    api::{ModuleNew, ScratchAvailable, ScratchOwnedAlloc, ScratchOwnedBorrow, TakeSlice},
    layouts::{DeviceBuf, Module, ScalarZnx, Scratch, ScratchOwned, ZnxView, ZnxViewMut},
    source::Source,
};

const N: usize = 64;
const SEED_A: u64 = 0x1234_5678_9abc_def1;
const SEED_B: u64 = 0x0fed_cba9_8765_4321;
const SETUP_SCRATCH: usize = 1 << 22;

/// One layout under test.
#[derive(Clone, Copy, Debug)]
struct Cfg {
    rank: usize,
    in_b2k: usize,
    key_b2k: usize,
    out_b2k: usize,
}

/// Layouts for operations `res <- op(a, key)`.
fn cfgs(b: usize) -> Vec<Cfg> {
    vec![
        Cfg { rank: 1, in_b2k: b, key_b2k: b, out_b2k: b },
        Cfg { rank: 2, in_b2k: b, key_b2k: b, out_b2k: b },
        Cfg { rank: 1, in_b2k: b - 1, key_b2k: b, out_b2k: b - 2 },
        Cfg { rank: 2, in_b2k: b - 1, key_b2k: b, out_b2k: b - 2 },
    ]
}

/// Layouts for in-place operations `res <- op(res, key)` and operations that need in_b2k == out_b2k.
fn cfgs_assign(b: usize) -> Vec<Cfg> {
    vec![
        Cfg { rank: 1, in_b2k: b, key_b2k: b, out_b2k: b },
        Cfg { rank: 2, in_b2k: b, key_b2k: b, out_b2k: b },
        Cfg { rank: 1, in_b2k: b - 1, key_b2k: b, out_b2k: b - 1 },
        Cfg { rank: 2, in_b2k: b - 1, key_b2k: b, out_b2k: b - 1 },
    ]
}

fn xorshift(x: &mut u64) -> u64 {
    *x ^= *x << 13;
    *x ^= *x >> 7;
    *x ^= *x << 17;
    *x
}

/// Garbage words for the FFT64 backend: finite, moderately sized f64 values (|v| < 2^32).
fn garbage_f64(x: &mut u64) -> u64 {
    let r = xorshift(x);
    (((r >> 11) as i64 - (1i64 << 52)) as f64 / (1u64 << 20) as f64).to_bits()
}

/// Garbage words for the NTT120 backend: residues below 2^30.
fn garbage_q30(x: &mut u64) -> u64 {
    xorshift(x) & 0x3fff_ffff
}

/// Pseudo-random limbs in [-2^(base2k-1), 2^(base2k-1)).
fn fill_limbs(raw: &mut [i64], base2k: usize, seed: u64) {
    let mut x = seed | 1;
    for v in raw.iter_mut() {
        *v = (xorshift(&mut x) as i64) >> (64 - base2k);
    }
}

#[derive(Debug, PartialEq, Eq)]
struct Outcome {
    scratch_independent: bool,
    output_independent: bool,
    /// Smallest tried multiple of the advertised `*_tmp_bytes` for which the operation did not panic
    /// (1 = the advertised size is sufficient).
    scratch_factor: usize,
    /// (number of differing i64 words between run A and run B, total number of words)
    diff_words: (usize, usize),
}

fn verdict(name: &str, dsize: usize, failures: Vec<String>) {
    assert!(
        failures.is_empty(),
        "{name} dsize={dsize}: result depends on stale data:\n  {}",
        failures.join("\n  ")
    );
}

macro_rules! per_dsize {
    ($($op:ident),* $(,)?) => {
        $(
            mod $op {
                #[test]
                fn dsize1() {
                    super::$op(1)
                }
                #[test]
                fn dsize2() {
                    super::$op(2)
                }
                #[test]
                fn dsize3() {
                    super::$op(3)
                }
            }
        )*
    };
}

macro_rules! scratch_dep_suite {
    ($modname:ident, $be:ty, $base2k:expr, $garbage:path) => {
        mod $modname {
            use super::*;

            type BE = $be;
            const B: usize = $base2k;

            fn module() -> Module<BE> {
                Module::<BE>::new(N as u64)
            }

            /// Fills the whole scratch arena with garbage derived from `seed`.
            fn fill_scratch(scratch: &mut ScratchOwned<BE>, seed: u64) {
                let s = scratch.borrow();
                let len: usize = s.available() / size_of::<u64>();
                let (slice, _) = s.take_slice::<u64>(len);
                let mut x: u64 = seed | 1;
                for v in slice.iter_mut() {
                    *v = $garbage(&mut x);
                }
            }

            /// Runs `f(prefill_output, scratch)` three times (see file header) and compares the results.
            ///
            /// The scratch arena has exactly `tmp_bytes` bytes. If the operation panics with that size
            /// (the `*_tmp_bytes` query under-reports), the experiment is repeated with 2x, 4x, 8x the size and
            /// the factor is reported in the outcome.
            fn runs<F>(tmp_bytes: usize, in_place: bool, mut f: F) -> Outcome
            where
                F: FnMut(bool, &mut Scratch<BE>) -> Vec<i64>,
            {
                for scratch_factor in [1usize, 2, 4, 8] {
                    let attempt = std::panic::catch_unwind(std::panic::AssertUnwindSafe(|| {
                        let mut scratch: ScratchOwned<BE> = ScratchOwned::alloc(tmp_bytes * scratch_factor);
                        fill_scratch(&mut scratch, SEED_A);
                        let a = f(false, scratch.borrow());
                        fill_scratch(&mut scratch, SEED_B);
                        let b = f(false, scratch.borrow());
                        let output_independent = if in_place {
                            true
                        } else {
                            fill_scratch(&mut scratch, SEED_A);
                            let c = f(true, scratch.borrow());
                            a == c
                        };
                        let diff: usize = a.iter().zip(b.iter()).filter(|(x, y)| x != y).count();
                        (a == b, output_independent, (diff, a.len()))
                    }));
                    if let Ok((scratch_independent, output_independent, diff_words)) = attempt {
                        return Outcome {
                            scratch_independent,
                            output_independent,
                            scratch_factor,
                            diff_words,
                        };
                    }
                }
                panic!("operation panics even with 8x the advertised scratch size ({tmp_bytes} bytes)");
            }

            fn record(failures: &mut Vec<String>, op: &str, dsize: usize, cfg: &Cfg, o: Outcome) {
                if !o.scratch_independent {
                    failures.push(format!(
                        "{cfg:?}: depends on previous SCRATCH content ({} of {} output words differ)",
                        o.diff_words.0, o.diff_words.1
                    ));
                }
                if !o.output_independent {
                    failures.push(format!("{cfg:?}: depends on previous OUTPUT buffer content"));
                }
                if o.scratch_factor != 1 {
                    println!(
                        "NOTE[{}] {op} dsize={dsize} {cfg:?}: panics with the advertised *_tmp_bytes, needed x{} scratch",
                        stringify!($modname),
                        o.scratch_factor
                    );
                }
            }

            // ---------------------------------------------------------------------------------
            // Setup helpers
            // ---------------------------------------------------------------------------------

            struct Sk {
                sk: GLWESecret<Vec<u8>>,
                prep: GLWESecretPrepared<DeviceBuf<BE>, BE>,
            }

            fn new_sk(module: &Module<BE>, rank: usize, seed: u8) -> Sk {
                let mut source_xs: Source = Source::new([seed; 32]);
                let mut sk: GLWESecret<Vec<u8>> = GLWESecret::alloc(N.into(), rank.into());
                sk.fill_ternary_prob(0.5, &mut source_xs);
                let mut prep: GLWESecretPrepared<DeviceBuf<BE>, BE> = module.glwe_secret_prepared_alloc(rank.into());
                module.glwe_secret_prepare(&mut prep, &sk);
                Sk { sk, prep }
            }

            /// A uniformly random GLWE (distributed as a fresh ciphertext).
            fn rand_glwe(infos: &GLWELayout, seed: u64) -> GLWE<Vec<u8>> {
                let mut ct: GLWE<Vec<u8>> = GLWE::alloc_from_infos(infos);
                let base2k: usize = ct.base2k().into();
                fill_limbs(ct.data_mut().raw_mut(), base2k, seed);
                ct
            }

            fn fresh_glwe(infos: &GLWELayout, prefill: bool) -> GLWE<Vec<u8>> {
                let mut ct: GLWE<Vec<u8>> = GLWE::alloc_from_infos(infos);
                if prefill {
                    let base2k: usize = ct.base2k().into();
                    fill_limbs(ct.data_mut().raw_mut(), base2k, 0xdead_beef_cafe_f00d);
                }
                ct
            }

            fn copy_glwe(a: &GLWE<Vec<u8>>, infos: &GLWELayout) -> GLWE<Vec<u8>> {
                let mut ct: GLWE<Vec<u8>> = GLWE::alloc_from_infos(infos);
                ct.data_mut().raw_mut().copy_from_slice(a.data().raw());
                ct
            }

            fn ksk_layout(cfg: &Cfg, dsize: usize, k_in: usize) -> GLWESwitchingKeyLayout {
                GLWESwitchingKeyLayout {
                    n: N.into(),
                    base2k: cfg.key_b2k.into(),
                    k: (k_in + cfg.key_b2k * dsize).into(),
                    dnum: k_in.div_ceil(cfg.key_b2k * dsize).into(),
                    dsize: dsize.into(),
                    rank_in: cfg.rank.into(),
                    rank_out: cfg.rank.into(),
                }
            }

            fn atk_layout(cfg: &Cfg, dsize: usize, k_in: usize) -> GLWEAutomorphismKeyLayout {
                GLWEAutomorphismKeyLayout {
                    n: N.into(),
                    base2k: cfg.key_b2k.into(),
                    k: (k_in + cfg.key_b2k * dsize).into(),
                    dnum: k_in.div_ceil(cfg.key_b2k * dsize).into(),
                    dsize: dsize.into(),
                    rank: cfg.rank.into(),
                }
            }

            fn glwe_layout(base2k: usize, k: usize, rank: usize) -> GLWELayout {
                GLWELayout {
                    n: N.into(),
                    base2k: base2k.into(),
                    k: k.into(),
                    rank: rank.into(),
                }
            }

            fn new_ksk(
                module: &Module<BE>,
                layout: &GLWESwitchingKeyLayout,
                sk_in: &Sk,
                sk_out: &Sk,
            ) -> GLWESwitchingKeyPrepared<DeviceBuf<BE>, BE> {
                let infos = EncryptionLayout::new_from_default_sigma(*layout).unwrap();
                let mut scratch: ScratchOwned<BE> = ScratchOwned::alloc(SETUP_SCRATCH);
                let mut source_xe: Source = Source::new([2u8; 32]);
                let mut source_xa: Source = Source::new([3u8; 32]);
                let mut ksk: GLWESwitchingKey<Vec<u8>> = GLWESwitchingKey::alloc_from_infos(&infos);
                module.glwe_switching_key_encrypt_sk(
                    &mut ksk,
                    &sk_in.sk,
                    &sk_out.sk,
                    &infos,
                    &mut source_xe,
                    &mut source_xa,
                    scratch.borrow(),
                );
                let mut prep: GLWESwitchingKeyPrepared<DeviceBuf<BE>, BE> = module.glwe_switching_key_prepared_alloc_from_infos(&ksk);
                module.glwe_switching_key_prepare(&mut prep, &ksk, scratch.borrow());
                prep
            }

            fn new_atk_raw(module: &Module<BE>, layout: &GLWEAutomorphismKeyLayout, p: i64, sk: &Sk, seed: u8) -> GLWEAutomorphismKey<Vec<u8>> {
                let infos = EncryptionLayout::new_from_default_sigma(*layout).unwrap();
                let mut scratch: ScratchOwned<BE> = ScratchOwned::alloc(SETUP_SCRATCH);
                let mut source_xe: Source = Source::new([seed; 32]);
                let mut source_xa: Source = Source::new([seed + 1; 32]);
                let mut atk: GLWEAutomorphismKey<Vec<u8>> = GLWEAutomorphismKey::alloc_from_infos(&infos);
                module.glwe_automorphism_key_encrypt_sk(&mut atk, p, &sk.sk, &infos, &mut source_xe, &mut source_xa, scratch.borrow());
                atk
            }

            fn new_atk(
                module: &Module<BE>,
                layout: &GLWEAutomorphismKeyLayout,
                p: i64,
                sk: &Sk,
            ) -> GLWEAutomorphismKeyPrepared<DeviceBuf<BE>, BE> {
                let atk = new_atk_raw(module, layout, p, sk, 4);
                let mut scratch: ScratchOwned<BE> = ScratchOwned::alloc(SETUP_SCRATCH);
                let mut prep: GLWEAutomorphismKeyPrepared<DeviceBuf<BE>, BE> =
                    module.glwe_automorphism_key_prepared_alloc_from_infos(&atk);
                module.glwe_automorphism_key_prepare(&mut prep, &atk, scratch.borrow());
                prep
            }

            fn new_ggsw_raw(module: &Module<BE>, layout: &GGSWLayout, sk: &Sk, seed: u8) -> GGSW<Vec<u8>> {
                let infos = EncryptionLayout::new_from_default_sigma(*layout).unwrap();
                let mut scratch: ScratchOwned<BE> = ScratchOwned::alloc(SETUP_SCRATCH);
                let mut source_xs: Source = Source::new([seed; 32]);
                let mut source_xe: Source = Source::new([seed + 1; 32]);
                let mut source_xa: Source = Source::new([seed + 2; 32]);
                let mut pt: ScalarZnx<Vec<u8>> = ScalarZnx::alloc(N, 1);
                pt.fill_ternary_hw(0, N, &mut source_xs);
                let mut ggsw: GGSW<Vec<u8>> = GGSW::alloc_from_infos(&infos);
                module.ggsw_encrypt_sk(&mut ggsw, &pt, &sk.prep, &infos, &mut source_xe, &mut source_xa, scratch.borrow());
                ggsw
            }

            fn new_ggsw(module: &Module<BE>, layout: &GGSWLayout, sk: &Sk) -> GGSWPrepared<DeviceBuf<BE>, BE> {
                let ggsw = new_ggsw_raw(module, layout, sk, 7);
                let mut scratch: ScratchOwned<BE> = ScratchOwned::alloc(SETUP_SCRATCH);
                let mut prep: GGSWPrepared<DeviceBuf<BE>, BE> = module.ggsw_prepared_alloc_from_infos(&ggsw);
                module.ggsw_prepare(&mut prep, &ggsw, scratch.borrow());
                prep
            }

            fn new_tsk(module: &Module<BE>, layout: &GGLWEToGGSWKeyLayout, sk: &Sk) -> GGLWEToGGSWKeyPrepared<DeviceBuf<BE>, BE> {
                let infos = EncryptionLayout::new_from_default_sigma(*layout).unwrap();
                let mut scratch: ScratchOwned<BE> = ScratchOwned::alloc(SETUP_SCRATCH);
                let mut source_xe: Source = Source::new([11u8; 32]);
                let mut source_xa: Source = Source::new([12u8; 32]);
                let mut tsk: GGLWEToGGSWKey<Vec<u8>> = GGLWEToGGSWKey::alloc_from_infos(&infos);
                module.gglwe_to_ggsw_key_encrypt_sk(&mut tsk, &sk.sk, &infos, &mut source_xe, &mut source_xa, scratch.borrow());
                let mut prep: GGLWEToGGSWKeyPrepared<DeviceBuf<BE>, BE> = module.gglwe_to_ggsw_key_prepared_alloc_from_infos(&tsk);
                module.gglwe_to_ggsw_key_prepare(&mut prep, &tsk, scratch.borrow());
                prep
            }

            fn ggsw_layout(base2k: usize, k: usize, dnum: usize, dsize: usize, rank: usize) -> GGSWLayout {
                GGSWLayout {
                    n: N.into(),
                    base2k: base2k.into(),
                    k: k.into(),
                    dnum: dnum.into(),
                    dsize: dsize.into(),
                    rank: rank.into(),
                }
            }

            fn dump_ggsw(g: &GGSW<Vec<u8>>) -> Vec<i64> {
                let mut out: Vec<i64> = Vec::new();
                for row in 0..g.dnum().as_usize() {
                    for col in 0..g.rank().as_usize() + 1 {
                        out.extend_from_slice(g.at(row, col).data().raw());
                    }
                }
                out
            }

            fn prefill_ggsw(g: &mut GGSW<Vec<u8>>) {
                let base2k: usize = g.base2k().into();
                for row in 0..g.dnum().as_usize() {
                    for col in 0..g.rank().as_usize() + 1 {
                        fill_limbs(g.at_mut(row, col).data_mut().raw_mut(), base2k, 0xfeed_f00d + (row * 16 + col) as u64);
                    }
                }
            }

            fn copy_ggsw(src: &GGSW<Vec<u8>>, layout: &GGSWLayout) -> GGSW<Vec<u8>> {
                let mut g: GGSW<Vec<u8>> = GGSW::alloc_from_infos(layout);
                for row in 0..g.dnum().as_usize() {
                    for col in 0..g.rank().as_usize() + 1 {
                        g.at_mut(row, col).data_mut().raw_mut().copy_from_slice(src.at(row, col).data().raw());
                    }
                }
                g
            }

            fn dump_gglwe<G: GGLWEToRef + GGLWEInfos>(g: &G) -> Vec<i64> {
                let r = g.to_ref();
                let mut out: Vec<i64> = Vec::new();
                for row in 0..r.dnum().as_usize() {
                    for col in 0..r.rank_in().as_usize() {
                        out.extend_from_slice(r.at(row, col).data().raw());
                    }
                }
                out
            }

            fn prefill_gglwe<G: GGLWEToMut + GGLWEInfos>(g: &mut G) {
                let base2k: usize = g.base2k().into();
                let mut r = g.to_mut();
                for row in 0..r.dnum().as_usize() {
                    for col in 0..r.rank_in().as_usize() {
                        fill_limbs(r.at_mut(row, col).data_mut().raw_mut(), base2k, 0xfeed_f00d + (row * 16 + col) as u64);
                    }
                }
            }

            // ---------------------------------------------------------------------------------
            // GLWE keyswitch
            // ---------------------------------------------------------------------------------

            fn glwe_keyswitch(dsize: usize) {
                let module = module();
                let mut failures = Vec::new();
                for cfg in cfgs(B) {
                    let k_in = 6 * cfg.in_b2k;
                    let ksk_l = ksk_layout(&cfg, dsize, k_in);
                    let in_l = glwe_layout(cfg.in_b2k, k_in, cfg.rank);
                    let out_l = glwe_layout(cfg.out_b2k, ksk_l.k.as_usize(), cfg.rank);
                    let ksk = new_ksk(&module, &ksk_l, &new_sk(&module, cfg.rank, 1), &new_sk(&module, cfg.rank, 2));
                    let a = rand_glwe(&in_l, 77);
                    let bytes = module.glwe_keyswitch_tmp_bytes(&out_l, &in_l, &ksk_l);
                    let o = runs(bytes, false, |prefill, scratch| {
                        let mut res = fresh_glwe(&out_l, prefill);
                        module.glwe_keyswitch(&mut res, &a, &ksk, scratch);
                        res.data().raw().to_vec()
                    });
                    record(&mut failures, "glwe_keyswitch", dsize, &cfg, o);
                }
                verdict("glwe_keyswitch", dsize, failures);
            }

            fn glwe_keyswitch_assign(dsize: usize) {
                let module = module();
                let mut failures = Vec::new();
                for cfg in cfgs_assign(B) {
                    let k_in = 6 * cfg.in_b2k;
                    let ksk_l = ksk_layout(&cfg, dsize, k_in);
                    let res_l = glwe_layout(cfg.out_b2k, ksk_l.k.as_usize(), cfg.rank);
                    let ksk = new_ksk(&module, &ksk_l, &new_sk(&module, cfg.rank, 1), &new_sk(&module, cfg.rank, 2));
                    let a = rand_glwe(&res_l, 77);
                    let bytes = module.glwe_keyswitch_tmp_bytes(&res_l, &res_l, &ksk_l);
                    let o = runs(bytes, true, |_, scratch| {
                        let mut res = copy_glwe(&a, &res_l);
                        module.glwe_keyswitch_assign(&mut res, &ksk, scratch);
                        res.data().raw().to_vec()
                    });
                    record(&mut failures, "glwe_keyswitch_assign", dsize, &cfg, o);
                }
                verdict("glwe_keyswitch_assign", dsize, failures);
            }

            // ---------------------------------------------------------------------------------
            // GLWE automorphism family
            // ---------------------------------------------------------------------------------

            #[derive(Clone, Copy, Debug)]
            enum AutoOp {
                Plain,
                Add,
                Sub,
                SubNegate,
            }

            fn glwe_automorphism_3op(name: &str, op: AutoOp, dsize: usize) {
                let module = module();
                let mut failures = Vec::new();
                for cfg in cfgs(B) {
                    let k_in = 6 * cfg.in_b2k;
                    let atk_l = atk_layout(&cfg, dsize, k_in);
                    let in_l = glwe_layout(cfg.in_b2k, k_in, cfg.rank);
                    let out_l = glwe_layout(cfg.out_b2k, atk_l.k.as_usize(), cfg.rank);
                    let atk = new_atk(&module, &atk_l, -5, &new_sk(&module, cfg.rank, 1));
                    let a = rand_glwe(&in_l, 78);
                    let bytes = module.glwe_automorphism_tmp_bytes(&out_l, &in_l, &atk_l);
                    let o = runs(bytes, false, |prefill, scratch| {
                        let mut res = fresh_glwe(&out_l, prefill);
                        match op {
                            AutoOp::Plain => module.glwe_automorphism(&mut res, &a, &atk, scratch),
                            AutoOp::Add => module.glwe_automorphism_add(&mut res, &a, &atk, scratch),
                            AutoOp::Sub => module.glwe_automorphism_sub(&mut res, &a, &atk, scratch),
                            AutoOp::SubNegate => module.glwe_automorphism_sub_negate(&mut res, &a, &atk, scratch),
                        }
                        res.data().raw().to_vec()
                    });
                    record(&mut failures, name, dsize, &cfg, o);
                }
                verdict(name, dsize, failures);
            }

            fn glwe_automorphism_2op(name: &str, op: AutoOp, dsize: usize) {
                let module = module();
                let mut failures = Vec::new();
                for cfg in cfgs_assign(B) {
                    let k_in = 6 * cfg.in_b2k;
                    let atk_l = atk_layout(&cfg, dsize, k_in);
                    let res_l = glwe_layout(cfg.out_b2k, atk_l.k.as_usize(), cfg.rank);
                    let atk = new_atk(&module, &atk_l, -5, &new_sk(&module, cfg.rank, 1));
                    let a = rand_glwe(&res_l, 79);
                    let bytes = module.glwe_automorphism_tmp_bytes(&res_l, &res_l, &atk_l);
                    let o = runs(bytes, true, |_, scratch| {
                        let mut res = copy_glwe(&a, &res_l);
                        match op {
                            AutoOp::Plain => module.glwe_automorphism_assign(&mut res, &atk, scratch),
                            AutoOp::Add => module.glwe_automorphism_add_assign(&mut res, &atk, scratch),
                            AutoOp::Sub => module.glwe_automorphism_sub_assign(&mut res, &atk, scratch),
                            AutoOp::SubNegate => module.glwe_automorphism_sub_negate_assign(&mut res, &atk, scratch),
                        }
                        res.data().raw().to_vec()
                    });
                    record(&mut failures, name, dsize, &cfg, o);
                }
                verdict(name, dsize, failures);
            }

            fn glwe_automorphism(dsize: usize) {
                glwe_automorphism_3op("glwe_automorphism", AutoOp::Plain, dsize)
            }
            fn glwe_automorphism_add(dsize: usize) {
                glwe_automorphism_3op("glwe_automorphism_add", AutoOp::Add, dsize)
            }
            fn glwe_automorphism_sub(dsize: usize) {
                glwe_automorphism_3op("glwe_automorphism_sub", AutoOp::Sub, dsize)
            }
            fn glwe_automorphism_sub_negate(dsize: usize) {
                glwe_automorphism_3op("glwe_automorphism_sub_negate", AutoOp::SubNegate, dsize)
            }
            fn glwe_automorphism_assign(dsize: usize) {
                glwe_automorphism_2op("glwe_automorphism_assign", AutoOp::Plain, dsize)
            }
            fn glwe_automorphism_add_assign(dsize: usize) {
                glwe_automorphism_2op("glwe_automorphism_add_assign", AutoOp::Add, dsize)
            }
            fn glwe_automorphism_sub_assign(dsize: usize) {
                glwe_automorphism_2op("glwe_automorphism_sub_assign", AutoOp::Sub, dsize)
            }
            fn glwe_automorphism_sub_negate_assign(dsize: usize) {
                glwe_automorphism_2op("glwe_automorphism_sub_negate_assign", AutoOp::SubNegate, dsize)
            }

            // ---------------------------------------------------------------------------------
            // GLWE trace (built on glwe_automorphism_add_assign)
            // ---------------------------------------------------------------------------------

            fn trace_keys(
                module: &Module<BE>,
                atk_l: &GLWEAutomorphismKeyLayout,
                sk: &Sk,
            ) -> HashMap<i64, GLWEAutomorphismKeyPrepared<DeviceBuf<BE>, BE>> {
                let mut keys = HashMap::new();
                for p in module.glwe_trace_galois_elements() {
                    keys.insert(p, new_atk(module, atk_l, p, sk));
                }
                keys
            }

            fn glwe_trace(dsize: usize) {
                let module = module();
                let mut failures = Vec::new();
                for cfg in cfgs(B) {
                    let k_in = 6 * cfg.in_b2k;
                    let atk_l = atk_layout(&cfg, dsize, k_in);
                    let in_l = glwe_layout(cfg.in_b2k, k_in, cfg.rank);
                    let out_l = glwe_layout(cfg.out_b2k, atk_l.k.as_usize(), cfg.rank);
                    let keys = trace_keys(&module, &atk_l, &new_sk(&module, cfg.rank, 1));
                    let a = rand_glwe(&in_l, 80);
                    let bytes = module.glwe_trace_tmp_bytes(&out_l, &in_l, &atk_l);
                    let o = runs(bytes, false, |prefill, scratch| {
                        let mut res = fresh_glwe(&out_l, prefill);
                        module.glwe_trace(&mut res, 0, &a, &keys, scratch);
                        res.data().raw().to_vec()
                    });
                    record(&mut failures, "glwe_trace", dsize, &cfg, o);
                }
                verdict("glwe_trace", dsize, failures);
            }

            fn glwe_trace_assign(dsize: usize) {
                let module = module();
                let mut failures = Vec::new();
                for cfg in cfgs_assign(B) {
                    let k_in = 6 * cfg.in_b2k;
                    let atk_l = atk_layout(&cfg, dsize, k_in);
                    let res_l = glwe_layout(cfg.out_b2k, atk_l.k.as_usize(), cfg.rank);
                    let keys = trace_keys(&module, &atk_l, &new_sk(&module, cfg.rank, 1));
                    let a = rand_glwe(&res_l, 81);
                    let bytes = module.glwe_trace_tmp_bytes(&res_l, &res_l, &atk_l);
                    let o = runs(bytes, true, |_, scratch| {
                        let mut res = copy_glwe(&a, &res_l);
                        module.glwe_trace_assign(&mut res, 0, &keys, scratch);
                        res.data().raw().to_vec()
                    });
                    record(&mut failures, "glwe_trace_assign", dsize, &cfg, o);
                }
                verdict("glwe_trace_assign", dsize, failures);
            }

            // ---------------------------------------------------------------------------------
            // GLWE packing (built on glwe_automorphism_add_assign / glwe_automorphism_sub_negate)
            // ---------------------------------------------------------------------------------

            fn glwe_pack(dsize: usize) {
                let module = module();
                let mut failures = Vec::new();
                for cfg in cfgs_assign(B) {
                    let k_in = 6 * cfg.in_b2k;
                    let atk_l = atk_layout(&cfg, dsize, k_in);
                    let ct_l = glwe_layout(cfg.out_b2k, atk_l.k.as_usize(), cfg.rank);
                    let sk = new_sk(&module, cfg.rank, 1);
                    let mut keys = HashMap::new();
                    for p in module.glwe_pack_galois_elements() {
                        keys.insert(p, new_atk(&module, &atk_l, p, &sk));
                    }
                    let inputs: Vec<GLWE<Vec<u8>>> = (0..N as u64).step_by(5).map(|i| rand_glwe(&ct_l, 90 + i)).collect();
                    let bytes = module.glwe_pack_tmp_bytes(&ct_l, &atk_l);
                    let o = runs(bytes, false, |prefill, scratch| {
                        // the inputs are consumed (modified in place) by glwe_pack: work on copies
                        let mut cts: Vec<GLWE<Vec<u8>>> = inputs.iter().map(|c| copy_glwe(c, &ct_l)).collect();
                        let mut map: HashMap<usize, &mut GLWE<Vec<u8>>> = HashMap::new();
                        for (i, ct) in cts.iter_mut().enumerate() {
                            map.insert(5 * i, ct);
                        }
                        let mut res = fresh_glwe(&ct_l, prefill);
                        module.glwe_pack(&mut res, map, 0, &keys, scratch);
                        res.data().raw().to_vec()
                    });
                    record(&mut failures, "glwe_pack", dsize, &cfg, o);
                }
                verdict("glwe_pack", dsize, failures);
            }

            // ---------------------------------------------------------------------------------
            // GLWE tensor relinearization
            // ---------------------------------------------------------------------------------

            fn glwe_tensor_relinearize(dsize: usize) {
                let module = module();
                let mut failures = Vec::new();
                for cfg in cfgs(B) {
                    let k_in = 6 * cfg.in_b2k;
                    let tsk_l = GLWETensorKeyLayout {
                        n: N.into(),
                        base2k: cfg.key_b2k.into(),
                        k: (k_in + cfg.key_b2k * dsize).into(),
                        rank: cfg.rank.into(),
                        dnum: k_in.div_ceil(cfg.key_b2k * dsize).into(),
                        dsize: dsize.into(),
                    };
                    let in_l = glwe_layout(cfg.in_b2k, k_in, cfg.rank);
                    let out_l = glwe_layout(cfg.out_b2k, tsk_l.k.as_usize(), cfg.rank);

                    let sk = new_sk(&module, cfg.rank, 1);
                    let tsk_infos = EncryptionLayout::new_from_default_sigma(tsk_l).unwrap();
                    let mut scratch: ScratchOwned<BE> = ScratchOwned::alloc(SETUP_SCRATCH);
                    let mut source_xe: Source = Source::new([2u8; 32]);
                    let mut source_xa: Source = Source::new([3u8; 32]);
                    let mut tsk: GLWETensorKey<Vec<u8>> = GLWETensorKey::alloc_from_infos(&tsk_infos);
                    module.glwe_tensor_key_encrypt_sk(&mut tsk, &sk.sk, &tsk_infos, &mut source_xe, &mut source_xa, scratch.borrow());
                    let mut tsk_prep: GLWETensorKeyPrepared<DeviceBuf<BE>, BE> = module.alloc_tensor_key_prepared_from_infos(&tsk_infos);
                    module.prepare_tensor_key(&mut tsk_prep, &tsk, scratch.borrow());

                    // A uniformly random tensor ciphertext.
                    let mut a: GLWETensor<Vec<u8>> = GLWETensor::alloc_from_infos(&in_l);
                    fill_limbs(a.data_mut().raw_mut(), cfg.in_b2k, 82);

                    let bytes = module.glwe_tensor_relinearize_tmp_bytes(&out_l, &a, &tsk_l);
                    let o = runs(bytes, false, |prefill, scratch| {
                        let mut res = fresh_glwe(&out_l, prefill);
                        module.glwe_tensor_relinearize(&mut res, &a, &tsk_prep, tsk_prep.size(), scratch);
                        res.data().raw().to_vec()
                    });
                    record(&mut failures, "glwe_tensor_relinearize", dsize, &cfg, o);
                }
                verdict("glwe_tensor_relinearize", dsize, failures);
            }

            // ---------------------------------------------------------------------------------
            // GLWE external product
            // ---------------------------------------------------------------------------------

            fn glwe_external_product(dsize: usize) {
                let module = module();
                let mut failures = Vec::new();
                for cfg in cfgs(B) {
                    let k_in = 6 * cfg.in_b2k;
                    let k_ggsw = k_in + cfg.key_b2k * dsize;
                    let ggsw_l = ggsw_layout(cfg.key_b2k, k_ggsw, k_in.div_ceil(cfg.key_b2k * dsize), dsize, cfg.rank);
                    let in_l = glwe_layout(cfg.in_b2k, k_in, cfg.rank);
                    let out_l = glwe_layout(cfg.out_b2k, k_ggsw, cfg.rank);
                    let ggsw = new_ggsw(&module, &ggsw_l, &new_sk(&module, cfg.rank, 1));
                    let a = rand_glwe(&in_l, 83);
                    let bytes = module.glwe_external_product_tmp_bytes(&out_l, &in_l, &ggsw_l);
                    let o = runs(bytes, false, |prefill, scratch| {
                        let mut res = fresh_glwe(&out_l, prefill);
                        module.glwe_external_product(&mut res, &a, &ggsw, scratch);
                        res.data().raw().to_vec()
                    });
                    record(&mut failures, "glwe_external_product", dsize, &cfg, o);
                }
                verdict("glwe_external_product", dsize, failures);
            }

            fn glwe_external_product_assign(dsize: usize) {
                let module = module();
                let mut failures = Vec::new();
                for cfg in cfgs_assign(B) {
                    let k_in = 6 * cfg.in_b2k;
                    let k_ggsw = k_in + cfg.key_b2k * dsize;
                    let ggsw_l = ggsw_layout(cfg.key_b2k, k_ggsw, k_in.div_ceil(cfg.key_b2k * dsize), dsize, cfg.rank);
                    let res_l = glwe_layout(cfg.out_b2k, k_ggsw, cfg.rank);
                    let ggsw = new_ggsw(&module, &ggsw_l, &new_sk(&module, cfg.rank, 1));
                    let a = rand_glwe(&res_l, 84);
                    let bytes = module.glwe_external_product_tmp_bytes(&res_l, &res_l, &ggsw_l);
                    let o = runs(bytes, true, |_, scratch| {
                        let mut res = copy_glwe(&a, &res_l);
                        module.glwe_external_product_assign(&mut res, &ggsw, scratch);
                        res.data().raw().to_vec()
                    });
                    record(&mut failures, "glwe_external_product_assign", dsize, &cfg, o);
                }
                verdict("glwe_external_product_assign", dsize, failures);
            }

            // ---------------------------------------------------------------------------------
            // GGSW keyswitch / automorphism / external product / from-GGLWE conversion
            // ---------------------------------------------------------------------------------

            fn tsk_layout(cfg: &Cfg, dsize: usize, k_in: usize) -> GGLWEToGGSWKeyLayout {
                GGLWEToGGSWKeyLayout {
                    n: N.into(),
                    base2k: cfg.key_b2k.into(),
                    k: (k_in + cfg.key_b2k * dsize).into(),
                    dnum: k_in.div_ceil(cfg.key_b2k * dsize).into(),
                    dsize: dsize.into(),
                    rank: cfg.rank.into(),
                }
            }

            fn ggsw_keyswitch(dsize: usize) {
                let module = module();
                let mut failures = Vec::new();
                for cfg in cfgs_assign(B) {
                    let k_in = 4 * cfg.in_b2k;
                    let ksk_l = ksk_layout(&cfg, dsize, k_in);
                    let tsk_l = tsk_layout(&cfg, dsize, k_in);
                    let in_l = ggsw_layout(cfg.in_b2k, k_in, k_in / cfg.in_b2k, 1, cfg.rank);
                    let out_l = ggsw_layout(cfg.out_b2k, ksk_l.k.as_usize(), k_in / cfg.in_b2k, 1, cfg.rank);
                    let sk_in = new_sk(&module, cfg.rank, 1);
                    let sk_out = new_sk(&module, cfg.rank, 2);
                    let ksk = new_ksk(&module, &ksk_l, &sk_in, &sk_out);
                    let tsk = new_tsk(&module, &tsk_l, &sk_out);
                    let a = new_ggsw_raw(&module, &in_l, &sk_in, 20);
                    let bytes = module.ggsw_keyswitch_tmp_bytes(&out_l, &in_l, &ksk_l, &tsk_l);
                    let o = runs(bytes, false, |prefill, scratch| {
                        let mut res: GGSW<Vec<u8>> = GGSW::alloc_from_infos(&out_l);
                        if prefill {
                            prefill_ggsw(&mut res);
                        }
                        module.ggsw_keyswitch(&mut res, &a, &ksk, &tsk, scratch);
                        dump_ggsw(&res)
                    });
                    record(&mut failures, "ggsw_keyswitch", dsize, &cfg, o);
                }
                verdict("ggsw_keyswitch", dsize, failures);
            }

            fn ggsw_keyswitch_assign(dsize: usize) {
                let module = module();
                let mut failures = Vec::new();
                for cfg in cfgs_assign(B) {
                    let k_in = 4 * cfg.in_b2k;
                    let ksk_l = ksk_layout(&cfg, dsize, k_in);
                    let tsk_l = tsk_layout(&cfg, dsize, k_in);
                    let res_l = ggsw_layout(cfg.out_b2k, k_in, k_in / cfg.in_b2k, 1, cfg.rank);
                    let sk_in = new_sk(&module, cfg.rank, 1);
                    let sk_out = new_sk(&module, cfg.rank, 2);
                    let ksk = new_ksk(&module, &ksk_l, &sk_in, &sk_out);
                    let tsk = new_tsk(&module, &tsk_l, &sk_out);
                    let a = new_ggsw_raw(&module, &res_l, &sk_in, 20);
                    let bytes = module.ggsw_keyswitch_tmp_bytes(&res_l, &res_l, &ksk_l, &tsk_l);
                    let o = runs(bytes, true, |_, scratch| {
                        let mut res = copy_ggsw(&a, &res_l);
                        module.ggsw_keyswitch_assign(&mut res, &ksk, &tsk, scratch);
                        dump_ggsw(&res)
                    });
                    record(&mut failures, "ggsw_keyswitch_assign", dsize, &cfg, o);
                }
                verdict("ggsw_keyswitch_assign", dsize, failures);
            }

            fn ggsw_automorphism(dsize: usize) {
                let module = module();
                let mut failures = Vec::new();
                for cfg in cfgs_assign(B) {
                    let k_in = 4 * cfg.in_b2k;
                    let atk_l = atk_layout(&cfg, dsize, k_in);
                    let tsk_l = tsk_layout(&cfg, dsize, k_in);
                    let in_l = ggsw_layout(cfg.in_b2k, k_in, k_in / cfg.in_b2k, 1, cfg.rank);
                    let out_l = ggsw_layout(cfg.out_b2k, atk_l.k.as_usize(), k_in / cfg.in_b2k, 1, cfg.rank);
                    let sk = new_sk(&module, cfg.rank, 1);
                    let atk = new_atk(&module, &atk_l, -5, &sk);
                    let tsk = new_tsk(&module, &tsk_l, &sk);
                    let a = new_ggsw_raw(&module, &in_l, &sk, 20);
                    let bytes = module.ggsw_automorphism_tmp_bytes(&out_l, &in_l, &atk_l, &tsk_l);
                    let o = runs(bytes, false, |prefill, scratch| {
                        let mut res: GGSW<Vec<u8>> = GGSW::alloc_from_infos(&out_l);
                        if prefill {
                            prefill_ggsw(&mut res);
                        }
                        module.ggsw_automorphism(&mut res, &a, &atk, &tsk, scratch);
                        dump_ggsw(&res)
                    });
                    record(&mut failures, "ggsw_automorphism", dsize, &cfg, o);
                }
                verdict("ggsw_automorphism", dsize, failures);
            }

            fn ggsw_automorphism_assign(dsize: usize) {
                let module = module();
                let mut failures = Vec::new();
                for cfg in cfgs_assign(B) {
                    let k_in = 4 * cfg.in_b2k;
                    let atk_l = atk_layout(&cfg, dsize, k_in);
                    let tsk_l = tsk_layout(&cfg, dsize, k_in);
                    let res_l = ggsw_layout(cfg.out_b2k, k_in, k_in / cfg.in_b2k, 1, cfg.rank);
                    let sk = new_sk(&module, cfg.rank, 1);
                    let atk = new_atk(&module, &atk_l, -5, &sk);
                    let tsk = new_tsk(&module, &tsk_l, &sk);
                    let a = new_ggsw_raw(&module, &res_l, &sk, 20);
                    let bytes = module.ggsw_automorphism_tmp_bytes(&res_l, &res_l, &atk_l, &tsk_l);
                    let o = runs(bytes, true, |_, scratch| {
                        let mut res = copy_ggsw(&a, &res_l);
                        module.ggsw_automorphism_assign(&mut res, &atk, &tsk, scratch);
                        dump_ggsw(&res)
                    });
                    record(&mut failures, "ggsw_automorphism_assign", dsize, &cfg, o);
                }
                verdict("ggsw_automorphism_assign", dsize, failures);
            }

            fn ggsw_external_product(dsize: usize) {
                let module = module();
                let mut failures = Vec::new();
                for cfg in cfgs_assign(B) {
                    let k_in = 4 * cfg.in_b2k;
                    let k_apply = k_in + cfg.key_b2k * dsize;
                    let apply_l = ggsw_layout(cfg.key_b2k, k_apply, k_in.div_ceil(cfg.key_b2k * dsize), dsize, cfg.rank);
                    let in_l = ggsw_layout(cfg.in_b2k, k_in, k_in / cfg.in_b2k, 1, cfg.rank);
                    let out_l = ggsw_layout(cfg.out_b2k, k_apply, k_in / cfg.in_b2k, 1, cfg.rank);
                    let sk = new_sk(&module, cfg.rank, 1);
                    let apply = new_ggsw(&module, &apply_l, &sk);
                    let a = new_ggsw_raw(&module, &in_l, &sk, 20);
                    let bytes = module.ggsw_external_product_tmp_bytes(&out_l, &in_l, &apply_l);
                    let o = runs(bytes, false, |prefill, scratch| {
                        let mut res: GGSW<Vec<u8>> = GGSW::alloc_from_infos(&out_l);
                        if prefill {
                            prefill_ggsw(&mut res);
                        }
                        module.ggsw_external_product(&mut res, &a, &apply, scratch);
                        dump_ggsw(&res)
                    });
                    record(&mut failures, "ggsw_external_product", dsize, &cfg, o);
                }
                verdict("ggsw_external_product", dsize, failures);
            }

            fn ggsw_external_product_assign(dsize: usize) {
                let module = module();
                let mut failures = Vec::new();
                for cfg in cfgs_assign(B) {
                    let k_in = 4 * cfg.in_b2k;
                    let k_apply = k_in + cfg.key_b2k * dsize;
                    let apply_l = ggsw_layout(cfg.key_b2k, k_apply, k_in.div_ceil(cfg.key_b2k * dsize), dsize, cfg.rank);
                    let res_l = ggsw_layout(cfg.out_b2k, k_in, k_in / cfg.in_b2k, 1, cfg.rank);
                    let sk = new_sk(&module, cfg.rank, 1);
                    let apply = new_ggsw(&module, &apply_l, &sk);
                    let a = new_ggsw_raw(&module, &res_l, &sk, 20);
                    let bytes = module.ggsw_external_product_tmp_bytes(&res_l, &res_l, &apply_l);
                    let o = runs(bytes, true, |_, scratch| {
                        let mut res = copy_ggsw(&a, &res_l);
                        module.ggsw_external_product_assign(&mut res, &apply, scratch);
                        dump_ggsw(&res)
                    });
                    record(&mut failures, "ggsw_external_product_assign", dsize, &cfg, o);
                }
                verdict("ggsw_external_product_assign", dsize, failures);
            }

            /// `ggsw_from_gglwe` (GGLWE -> GGSW row expansion through `gglwe_product_dft`).
            fn ggsw_from_gglwe(dsize: usize) {
                let module = module();
                let mut failures = Vec::new();
                for cfg in cfgs_assign(B) {
                    let k_in = 4 * cfg.in_b2k;
                    let tsk_l = tsk_layout(&cfg, dsize, k_in);
                    let in_l = ggsw_layout(cfg.in_b2k, k_in, k_in / cfg.in_b2k, 1, cfg.rank);
                    let out_l = ggsw_layout(cfg.out_b2k, tsk_l.k.as_usize(), k_in / cfg.in_b2k, 1, cfg.rank);
                    let sk = new_sk(&module, cfg.rank, 1);
                    let tsk = new_tsk(&module, &tsk_l, &sk);
                    // Only column 0 of each row of a GGSW is read: use it as the GGLWE-shaped input.
                    let a = new_ggsw_raw(&module, &in_l, &sk, 20);
                    let bytes = module.ggsw_expand_rows_tmp_bytes(&out_l, &tsk_l);
                    let o = runs(bytes, false, |prefill, scratch| {
                        let mut res: GGSW<Vec<u8>> = GGSW::alloc_from_infos(&out_l);
                        if prefill {
                            prefill_ggsw(&mut res);
                        }
                        for row in 0..res.dnum().as_usize() {
                            let src = a.at(row, 0);
                            let mut dst = res.at_mut(row, 0);
                            let len = src.data().raw().len();
                            dst.data_mut().raw_mut().fill(0);
                            dst.data_mut().raw_mut()[..len].copy_from_slice(src.data().raw());
                        }
                        module.ggsw_expand_row(&mut res, &tsk, scratch);
                        dump_ggsw(&res)
                    });
                    record(&mut failures, "ggsw_expand_row", dsize, &cfg, o);
                }
                verdict("ggsw_expand_row", dsize, failures);
            }

            // ---------------------------------------------------------------------------------
            // GGLWE keyswitch / external product, automorphism-key automorphism
            // ---------------------------------------------------------------------------------

            fn new_ksk_raw(module: &Module<BE>, layout: &GLWESwitchingKeyLayout, sk_in: &Sk, sk_out: &Sk) -> GLWESwitchingKey<Vec<u8>> {
                let infos = EncryptionLayout::new_from_default_sigma(*layout).unwrap();
                let mut scratch: ScratchOwned<BE> = ScratchOwned::alloc(SETUP_SCRATCH);
                let mut source_xe: Source = Source::new([30u8; 32]);
                let mut source_xa: Source = Source::new([31u8; 32]);
                let mut ksk: GLWESwitchingKey<Vec<u8>> = GLWESwitchingKey::alloc_from_infos(&infos);
                module.glwe_switching_key_encrypt_sk(
                    &mut ksk,
                    &sk_in.sk,
                    &sk_out.sk,
                    &infos,
                    &mut source_xe,
                    &mut source_xa,
                    scratch.borrow(),
                );
                ksk
            }

            fn ksk_in_layout(base2k: usize, k: usize, dnum: usize, rank: usize) -> GLWESwitchingKeyLayout {
                GLWESwitchingKeyLayout {
                    n: N.into(),
                    base2k: base2k.into(),
                    k: k.into(),
                    dnum: dnum.into(),
                    dsize: 1usize.into(),
                    rank_in: rank.into(),
                    rank_out: rank.into(),
                }
            }

            fn gglwe_keyswitch(dsize: usize) {
                let module = module();
                let mut failures = Vec::new();
                for cfg in cfgs_assign(B) {
                    let k_in = 4 * cfg.in_b2k;
                    let apply_l = ksk_layout(&cfg, dsize, k_in);
                    let in_l = ksk_in_layout(cfg.in_b2k, k_in, k_in / cfg.in_b2k, cfg.rank);
                    let out_l = ksk_in_layout(cfg.out_b2k, apply_l.k.as_usize(), k_in / cfg.in_b2k, cfg.rank);
                    let sk0 = new_sk(&module, cfg.rank, 1);
                    let sk1 = new_sk(&module, cfg.rank, 2);
                    let sk2 = new_sk(&module, cfg.rank, 3);
                    let a = new_ksk_raw(&module, &in_l, &sk0, &sk1);
                    let apply = new_ksk(&module, &apply_l, &sk1, &sk2);
                    let bytes = module.gglwe_keyswitch_tmp_bytes(&out_l, &in_l, &apply_l);
                    let o = runs(bytes, false, |prefill, scratch| {
                        let mut res: GLWESwitchingKey<Vec<u8>> = GLWESwitchingKey::alloc_from_infos(&out_l);
                        if prefill {
                            prefill_gglwe(&mut res);
                        }
                        module.gglwe_keyswitch(&mut res, &a, &apply, scratch);
                        dump_gglwe(&res)
                    });
                    record(&mut failures, "gglwe_keyswitch", dsize, &cfg, o);
                }
                verdict("gglwe_keyswitch", dsize, failures);
            }

            fn gglwe_keyswitch_assign(dsize: usize) {
                let module = module();
                let mut failures = Vec::new();
                for cfg in cfgs_assign(B) {
                    let k_in = 4 * cfg.in_b2k;
                    let apply_l = ksk_layout(&cfg, dsize, k_in);
                    let res_l = ksk_in_layout(cfg.out_b2k, k_in, k_in / cfg.in_b2k, cfg.rank);
                    let sk0 = new_sk(&module, cfg.rank, 1);
                    let sk1 = new_sk(&module, cfg.rank, 2);
                    let sk2 = new_sk(&module, cfg.rank, 3);
                    let apply = new_ksk(&module, &apply_l, &sk1, &sk2);
                    let bytes = module.gglwe_keyswitch_tmp_bytes(&res_l, &res_l, &apply_l);
                    let o = runs(bytes, true, |_, scratch| {
                        let mut res = new_ksk_raw(&module, &res_l, &sk0, &sk1);
                        module.gglwe_keyswitch_assign(&mut res, &apply, scratch);
                        dump_gglwe(&res)
                    });
                    record(&mut failures, "gglwe_keyswitch_assign", dsize, &cfg, o);
                }
                verdict("gglwe_keyswitch_assign", dsize, failures);
            }

            fn gglwe_external_product(dsize: usize) {
                let module = module();
                let mut failures = Vec::new();
                for cfg in cfgs_assign(B) {
                    let k_in = 4 * cfg.in_b2k;
                    let k_apply = k_in + cfg.key_b2k * dsize;
                    let apply_l = ggsw_layout(cfg.key_b2k, k_apply, k_in.div_ceil(cfg.key_b2k * dsize), dsize, cfg.rank);
                    let in_l = ksk_in_layout(cfg.in_b2k, k_in, k_in / cfg.in_b2k, cfg.rank);
                    let out_l = ksk_in_layout(cfg.out_b2k, k_apply, k_in / cfg.in_b2k, cfg.rank);
                    let sk0 = new_sk(&module, cfg.rank, 1);
                    let sk1 = new_sk(&module, cfg.rank, 2);
                    let a = new_ksk_raw(&module, &in_l, &sk0, &sk1);
                    let apply = new_ggsw(&module, &apply_l, &sk1);
                    let bytes = module.gglwe_external_product_tmp_bytes(&out_l, &in_l, &apply_l);
                    let o = runs(bytes, false, |prefill, scratch| {
                        let mut res: GLWESwitchingKey<Vec<u8>> = GLWESwitchingKey::alloc_from_infos(&out_l);
                        if prefill {
                            prefill_gglwe(&mut res);
                        }
                        module.gglwe_external_product(&mut res, &a, &apply, scratch);
                        dump_gglwe(&res)
                    });
                    record(&mut failures, "gglwe_external_product", dsize, &cfg, o);
                }
                verdict("gglwe_external_product", dsize, failures);
            }

            fn gglwe_external_product_assign(dsize: usize) {
                let module = module();
                let mut failures = Vec::new();
                for cfg in cfgs_assign(B) {
                    let k_in = 4 * cfg.in_b2k;
                    let k_apply = k_in + cfg.key_b2k * dsize;
                    let apply_l = ggsw_layout(cfg.key_b2k, k_apply, k_in.div_ceil(cfg.key_b2k * dsize), dsize, cfg.rank);
                    let res_l = ksk_in_layout(cfg.out_b2k, k_in, k_in / cfg.in_b2k, cfg.rank);
                    let sk0 = new_sk(&module, cfg.rank, 1);
                    let sk1 = new_sk(&module, cfg.rank, 2);
                    let apply = new_ggsw(&module, &apply_l, &sk1);
                    let bytes = module.gglwe_external_product_tmp_bytes(&res_l, &res_l, &apply_l);
                    let o = runs(bytes, true, |_, scratch| {
                        let mut res = new_ksk_raw(&module, &res_l, &sk0, &sk1);
                        module.gglwe_external_product_assign(&mut res, &apply, scratch);
                        dump_gglwe(&res)
                    });
                    record(&mut failures, "gglwe_external_product_assign", dsize, &cfg, o);
                }
                verdict("gglwe_external_product_assign", dsize, failures);
            }

            fn atk_in_layout(base2k: usize, k: usize, dnum: usize, rank: usize) -> GLWEAutomorphismKeyLayout {
                GLWEAutomorphismKeyLayout {
                    n: N.into(),
                    base2k: base2k.into(),
                    k: k.into(),
                    dnum: dnum.into(),
                    dsize: 1usize.into(),
                    rank: rank.into(),
                }
            }

            fn glwe_automorphism_key_automorphism(dsize: usize) {
                let module = module();
                let mut failures = Vec::new();
                for cfg in cfgs_assign(B) {
                    let k_in = 4 * cfg.in_b2k;
                    let apply_l = atk_layout(&cfg, dsize, k_in);
                    let in_l = atk_in_layout(cfg.in_b2k, k_in, k_in / cfg.in_b2k, cfg.rank);
                    let out_l = atk_in_layout(cfg.out_b2k, apply_l.k.as_usize(), k_in / cfg.in_b2k, cfg.rank);
                    let sk = new_sk(&module, cfg.rank, 1);
                    let a = new_atk_raw(&module, &in_l, -1, &sk, 40);
                    let apply = new_atk(&module, &apply_l, -5, &sk);
                    let bytes = module.glwe_automorphism_key_automorphism_tmp_bytes(&out_l, &in_l, &apply_l);
                    let o = runs(bytes, false, |prefill, scratch| {
                        let mut res: GLWEAutomorphismKey<Vec<u8>> = GLWEAutomorphismKey::alloc_from_infos(&out_l);
                        if prefill {
                            prefill_gglwe(&mut res);
                        }
                        module.glwe_automorphism_key_automorphism(&mut res, &a, &apply, scratch);
                        dump_gglwe(&res)
                    });
                    record(&mut failures, "glwe_automorphism_key_automorphism", dsize, &cfg, o);
                }
                verdict("glwe_automorphism_key_automorphism", dsize, failures);
            }

            fn glwe_automorphism_key_automorphism_assign(dsize: usize) {
                let module = module();
                let mut failures = Vec::new();
                for cfg in cfgs_assign(B) {
                    let k_in = 4 * cfg.in_b2k;
                    let apply_l = atk_layout(&cfg, dsize, k_in);
                    let res_l = atk_in_layout(cfg.out_b2k, k_in, k_in / cfg.in_b2k, cfg.rank);
                    let sk = new_sk(&module, cfg.rank, 1);
                    let apply = new_atk(&module, &apply_l, -5, &sk);
                    let bytes = module.glwe_automorphism_key_automorphism_tmp_bytes(&res_l, &res_l, &apply_l);
                    let o = runs(bytes, true, |_, scratch| {
                        let mut res = new_atk_raw(&module, &res_l, -1, &sk, 40);
                        module.glwe_automorphism_key_automorphism_assign(&mut res, &apply, scratch);
                        dump_gglwe(&res)
                    });
                    record(&mut failures, "glwe_automorphism_key_automorphism_assign", dsize, &cfg, o);
                }
                verdict("glwe_automorphism_key_automorphism_assign", dsize, failures);
            }

            // ---------------------------------------------------------------------------------
            // Test instantiation: one #[test] per (operation, dsize)
            // ---------------------------------------------------------------------------------

            per_dsize!(
                glwe_keyswitch,
                glwe_keyswitch_assign,
                glwe_automorphism,
                glwe_automorphism_assign,
                glwe_automorphism_add,
                glwe_automorphism_add_assign,
                glwe_automorphism_sub,
                glwe_automorphism_sub_assign,
                glwe_automorphism_sub_negate,
                glwe_automorphism_sub_negate_assign,
                glwe_trace,
                glwe_trace_assign,
                glwe_pack,
                glwe_tensor_relinearize,
                glwe_external_product,
                glwe_external_product_assign,
                ggsw_keyswitch,
                ggsw_keyswitch_assign,
                ggsw_automorphism,
                ggsw_automorphism_assign,
                ggsw_external_product,
                ggsw_external_product_assign,
                ggsw_from_gglwe,
                gglwe_keyswitch,
                gglwe_keyswitch_assign,
                gglwe_external_product,
                gglwe_external_product_assign,
                glwe_automorphism_key_automorphism,
                glwe_automorphism_key_automorphism_assign,
            );
        }
    };
}

scratch_dep_suite!(fft64, poulpy_cpu_ref::FFT64Ref, 17, garbage_f64);
scratch_dep_suite!(ntt120, poulpy_cpu_ref::NTT120Ref, 52, garbage_q30);
