// Companion of poulpy-cpu-ref/tests/scratch_dep.rs for the CMux / CSwap gates of poulpy-bin-fhe
// (they call `glwe_external_product_internal` on an accumulator taken from scratch).
//
// Run with: cargo test -p poulpy-bin-fhe --test scratch_dep_cmux --offline -j 4
//
// Same metamorphic check: identical inputs, two different garbage fills of the scratch arena
// (sized exactly by the `*_tmp_bytes` query), the outputs must be bit-identical.

use poulpy_bin_fhe::bdd_arithmetic::{Cmux, Cswap};
use poulpy_core::{
    EncryptionLayout, GGSWEncryptSk,
    layouts::{
        GGSW, GGSWLayout, GGSWPreparedFactory, GLWE, GLWELayout, GLWESecret, GLWESecretPreparedFactory, LWEInfos,
        prepared::{GGSWPrepared, GLWESecretPrepared},
    },
};
use poulpy_cpu_ref::FFT64Ref;
use poulpy_hal::{
    api::{ModuleNew, ScratchAvailable, ScratchOwnedAlloc, ScratchOwnedBorrow, TakeSlice},
    layouts::{DeviceBuf, Module, ScalarZnx, Scratch, ScratchOwned, ZnxView, ZnxViewMut},
    source::Source,
};

type BE = FFT64Ref;
const N: usize = 64;
const B: usize = 17;

fn xorshift(x: &mut u64) -> u64 {
    *x ^= *x << 13;
    *x ^= *x >> 7;
    *x ^= *x << 17;
    *x
}

fn fill_scratch(scratch: &mut ScratchOwned<BE>, seed: u64) {
    let s = scratch.borrow();
    let len: usize = s.available() / size_of::<f64>();
    let (slice, _) = s.take_slice::<f64>(len);
    let mut x: u64 = seed | 1;
    for v in slice.iter_mut() {
        *v = ((xorshift(&mut x) >> 11) as i64 - (1i64 << 52)) as f64 / (1u64 << 20) as f64; // |v| < 2^32
    }
}

fn rand_glwe(infos: &GLWELayout, seed: u64) -> GLWE<Vec<u8>> {
    let mut ct: GLWE<Vec<u8>> = GLWE::alloc_from_infos(infos);
    let base2k: usize = ct.base2k().into();
    let mut x = seed | 1;
    for v in ct.data_mut().raw_mut().iter_mut() {
        *v = (xorshift(&mut x) as i64) >> (64 - base2k);
    }
    ct
}

fn two_runs<F: FnMut(&mut Scratch<BE>) -> Vec<i64>>(tmp_bytes: usize, mut f: F) -> bool {
    let mut scratch: ScratchOwned<BE> = ScratchOwned::alloc(tmp_bytes);
    fill_scratch(&mut scratch, 0x1234_5678_9abc_def1);
    let a = f(scratch.borrow());
    fill_scratch(&mut scratch, 0x0fed_cba9_8765_4321);
    let b = f(scratch.borrow());
    a == b
}

struct Setup {
    module: Module<BE>,
    ggsw: GGSWPrepared<DeviceBuf<BE>, BE>,
    ggsw_l: GGSWLayout,
    glwe_l: GLWELayout,
}

fn setup(dsize: usize, rank: usize, glwe_b2k: usize) -> Setup {
    let module: Module<BE> = Module::<BE>::new(N as u64);
    let k_in = 6 * glwe_b2k;
    let k_ggsw = k_in + B * dsize;
    let ggsw_l = GGSWLayout {
        n: N.into(),
        base2k: B.into(),
        k: k_ggsw.into(),
        dnum: k_in.div_ceil(B * dsize).into(),
        dsize: dsize.into(),
        rank: rank.into(),
    };
    let glwe_l = GLWELayout {
        n: N.into(),
        base2k: glwe_b2k.into(),
        k: k_ggsw.into(),
        rank: rank.into(),
    };

    let mut source_xs: Source = Source::new([1u8; 32]);
    let mut source_xe: Source = Source::new([2u8; 32]);
    let mut source_xa: Source = Source::new([3u8; 32]);
    let mut sk: GLWESecret<Vec<u8>> = GLWESecret::alloc(N.into(), rank.into());
    sk.fill_ternary_prob(0.5, &mut source_xs);
    let mut sk_prep: GLWESecretPrepared<DeviceBuf<BE>, BE> = module.glwe_secret_prepared_alloc(rank.into());
    module.glwe_secret_prepare(&mut sk_prep, &sk);

    let infos = EncryptionLayout::new_from_default_sigma(ggsw_l).unwrap();
    let mut scratch: ScratchOwned<BE> = ScratchOwned::alloc(1 << 22);
    let mut pt: ScalarZnx<Vec<u8>> = ScalarZnx::alloc(N, 1);
    pt.raw_mut()[0] = 1; // selector bit = 1
    let mut ggsw_raw: GGSW<Vec<u8>> = GGSW::alloc_from_infos(&infos);
    module.ggsw_encrypt_sk(&mut ggsw_raw, &pt, &sk_prep, &infos, &mut source_xe, &mut source_xa, scratch.borrow());
    let mut ggsw: GGSWPrepared<DeviceBuf<BE>, BE> = module.ggsw_prepared_alloc_from_infos(&ggsw_raw);
    module.ggsw_prepare(&mut ggsw, &ggsw_raw, scratch.borrow());

    Setup {
        module,
        ggsw,
        ggsw_l,
        glwe_l,
    }
}

fn copy(a: &GLWE<Vec<u8>>, l: &GLWELayout) -> GLWE<Vec<u8>> {
    let mut ct: GLWE<Vec<u8>> = GLWE::alloc_from_infos(l);
    ct.data_mut().raw_mut().copy_from_slice(a.data().raw());
    ct
}

fn cmux(dsize: usize) {
    let mut failures = Vec::new();
    for rank in 1..3 {
        let s = setup(dsize, rank, B);
        let t = rand_glwe(&s.glwe_l, 5);
        let f = rand_glwe(&s.glwe_l, 6);
        let bytes = s.module.cmux_tmp_bytes(&s.glwe_l, &s.glwe_l, &s.ggsw_l);
        if !two_runs(bytes, |scratch| {
            let mut res: GLWE<Vec<u8>> = GLWE::alloc_from_infos(&s.glwe_l);
            s.module.cmux(&mut res, &t, &f, &s.ggsw, scratch);
            res.data().raw().to_vec()
        }) {
            failures.push(format!("cmux rank={rank}"));
        }
        if !two_runs(bytes, |scratch| {
            let mut res = copy(&t, &s.glwe_l);
            s.module.cmux_assign(&mut res, &f, &s.ggsw, scratch);
            res.data().raw().to_vec()
        }) {
            failures.push(format!("cmux_assign rank={rank}"));
        }
        // cmux_assign_neg additionally takes a temporary GLWE from scratch.
        let bytes_neg = bytes + GLWE::<Vec<u8>>::bytes_of_from_infos(&s.glwe_l);
        if !two_runs(bytes_neg, |scratch| {
            let mut res = copy(&t, &s.glwe_l);
            s.module.cmux_assign_neg(&mut res, &f, &s.ggsw, scratch);
            res.data().raw().to_vec()
        }) {
            failures.push(format!("cmux_assign_neg rank={rank}"));
        }
    }
    assert!(failures.is_empty(), "dsize={dsize}: depends on previous scratch content: {failures:?}");
}

fn cswap(dsize: usize) {
    let mut failures = Vec::new();
    for rank in 1..3 {
        // NOTE: the `res_base2k != s_base2k` branch of `cswap` cannot be exercised: it always panics in
        // `glwe_sub(&mut tmp_c, res_b, res_a)` (base2k mismatch, it should subtract tmp_b/tmp_a).
        for glwe_b2k in [B] {
            let s = setup(dsize, rank, glwe_b2k);
            let a = rand_glwe(&s.glwe_l, 5);
            let b = rand_glwe(&s.glwe_l, 6);
            let bytes = s.module.cswap_tmp_bytes(&s.glwe_l, &s.glwe_l, &s.ggsw_l);
            if !two_runs(bytes, |scratch| {
                let mut ra = copy(&a, &s.glwe_l);
                let mut rb = copy(&b, &s.glwe_l);
                s.module.cswap(&mut ra, &mut rb, &s.ggsw, scratch);
                let mut out = ra.data().raw().to_vec();
                out.extend_from_slice(rb.data().raw());
                out
            }) {
                failures.push(format!("cswap rank={rank} glwe_base2k={glwe_b2k}"));
            }
        }
    }
    assert!(failures.is_empty(), "dsize={dsize}: depends on previous scratch content: {failures:?}");
}

#[test]
fn cmux_dsize1() {
    cmux(1)
}
#[test]
fn cmux_dsize2() {
    cmux(2)
}
#[test]
fn cmux_dsize3() {
    cmux(3)
}
#[test]
fn cswap_dsize1() {
    cswap(1)
}
#[test]
fn cswap_dsize2() {
    cswap(2)
}
#[test]
fn cswap_dsize3() {
    cswap(3)
}
