//! Investigation (B): `mod_switch_2n` against an exact big-integer reference.
//!
//! For an LWE ciphertext whose coefficient has the exact integer value
//! `x = sum_i limb_i * 2^{(size-1-i)*base2k}` over the torus `2^{-K}`, `K = size*base2k`,
//! the exact switched value is `v = s * x * n / 2^K` with `n = 2N*ext`, `s = -1` for `Left` and
//! `s = +1` for `Right`, and the result must be an integer `have` with `have = round(v) mod n`.
//!
//! `mod_switch_2n` is allowed to read only the most significant limbs, as long as it reads at least
//! `m = ceil((log2(n)+1)/base2k)` of them (one bit more than the result, what the unmodified code reads):
//! the requirement checked is `|have - v| <= 1/2 + n * 2^{-m*base2k}` (mod n), i.e. correct rounding up
//! to the weight of the limbs that may be ignored (at most 1 in total). The table also gives how often the
//! result differs from the rounding of the full value, and the mean signed error (bias of the rounding).

use poulpy_bin_fhe::blind_rotation::{LookUpTableRotationDirection, mod_switch_2n};
use poulpy_core::layouts::{LWE, LWEToRef};
use poulpy_hal::layouts::ZnxViewMut;

struct Rng(u64);
impl Rng {
    fn next(&mut self) -> u64 {
        // splitmix64
        self.0 = self.0.wrapping_add(0x9E37_79B9_7F4A_7C15);
        let mut z = self.0;
        z = (z ^ (z >> 30)).wrapping_mul(0xBF58_476D_1CE4_E5B9);
        z = (z ^ (z >> 27)).wrapping_mul(0x94D0_49BB_1331_11EB);
        z ^ (z >> 31)
    }
    /// uniform in [-2^{b-1}, 2^{b-1})
    fn limb(&mut self, b: usize) -> i64 {
        ((self.next() >> (64 - b)) as i64) - (1i64 << (b - 1))
    }
}

/// round-half-up of `s * x * n / 2^k`, reduced mod n.
fn reference(x: i128, k: usize, n: usize, s: i128) -> i64 {
    let num: i128 = s * x * n as i128;
    let r: i128 = (num + (1i128 << (k - 1))) >> k;
    r.rem_euclid(n as i128) as i64
}

fn centered(d: i64, n: usize) -> i64 {
    let n = n as i64;
    let d = d.rem_euclid(n);
    if d >= n / 2 { d - n } else { d }
}

#[derive(Default, Clone)]
struct Stat {
    samples: usize,
    /// results farther from the exact value than 1/2 + weight of the ignorable limbs
    bad: usize,
    /// max |have - v| (mod n), in units of the result
    max_err: f64,
    /// sum of have - v (mod n, centered)
    sum_err: f64,
    /// results different from the rounding of the full value
    bad_full: usize,
    max_full: i64,
    /// (limbs, have, round(v)) of the failing input with the smallest limbs
    first_bad: Option<(Vec<i64>, i64, i64)>,
}

/// Runs `mod_switch_2n` over a batch of coefficients and accumulates the deviation statistics.
fn run(base2k: usize, n: usize, size: usize, dir: LookUpTableRotationDirection, coeffs: &[Vec<i64>], st: &mut Stat) {
    let n_lwe: usize = coeffs.len() - 1;
    let mut lwe: LWE<Vec<u8>> = LWE::alloc(n_lwe.into(), base2k.into(), (size * base2k).into());
    for limb in 0..size {
        let at: &mut [i64] = lwe.data_mut().at_mut(0, limb);
        assert_eq!(at.len(), n_lwe + 1);
        for (j, c) in coeffs.iter().enumerate() {
            at[j] = c[limb];
        }
    }
    let mut res: Vec<i64> = vec![0i64; n_lwe + 1];
    mod_switch_2n(n, &mut res, &lwe.to_ref(), dir);

    let s: i128 = match dir {
        LookUpTableRotationDirection::Left => -1,
        LookUpTableRotationDirection::Right => 1,
    };
    let log_n: usize = n.trailing_zeros() as usize;
    let k: usize = size * base2k;
    let m: usize = (log_n + 1).div_ceil(base2k).min(size);
    // 2^K * (1/2 + n * 2^{-m*base2k}) (no second term if every limb has to be read)
    let tol: i128 = (1i128 << (k - 1)) + if m < size { (n as i128) << ((size - m) * base2k) } else { 0 };
    let modulus: i128 = (n as i128) << k;

    for (c, have) in coeffs.iter().zip(res.iter()) {
        let x: i128 = c.iter().fold(0i128, |acc, l| (acc << base2k) + *l as i128);
        let want_full: i64 = reference(x, k, n, s);
        let have_mod: i64 = have.rem_euclid(n as i64);

        // 2^K * (have - v), centered mod n * 2^K
        let mut err: i128 = (((have_mod as i128) << k) - s * x * n as i128).rem_euclid(modulus);
        if err >= modulus / 2 {
            err -= modulus;
        }
        let err_f: f64 = err as f64 / (1u64 << k) as f64;

        st.samples += 1;
        st.sum_err += err_f;
        st.max_err = st.max_err.max(err_f.abs());
        if err.abs() > tol {
            st.bad += 1;
            let weight = |v: &Vec<i64>| v.iter().map(|x| x.abs()).sum::<i64>();
            if st.first_bad.as_ref().is_none_or(|(v, _, _)| weight(c) < weight(v)) {
                st.first_bad = Some((c.clone(), have_mod, want_full));
            }
        }
        let d_full: i64 = centered(have_mod - want_full, n);
        if d_full != 0 {
            st.bad_full += 1;
            st.max_full = st.max_full.max(d_full.abs());
        }
    }
}

fn sweep(base2k: usize, n: usize, extra_limbs: usize, dir: LookUpTableRotationDirection) -> Stat {
    let log_n: usize = n.trailing_zeros() as usize;
    let m: usize = (log_n + 1).div_ceil(base2k);
    let size: usize = m + extra_limbs;
    let mut st = Stat::default();
    let mut rng = Rng(0xC14 ^ ((base2k as u64) << 32) ^ ((n as u64) << 16) ^ extra_limbs as u64);

    // Exhaustive over the m most significant limbs when that is at most 2^16 values, random otherwise;
    // the extra limbs are random.
    let bits_used: usize = m * base2k;
    let mut batch: Vec<Vec<i64>> = Vec::new();
    if bits_used <= 16 {
        let half: i64 = 1 << (base2k - 1);
        for v in 0..(1u64 << bits_used) {
            let mut c: Vec<i64> = (0..m)
                .map(|i| (((v >> ((m - 1 - i) * base2k)) & ((1 << base2k) - 1)) as i64) - half)
                .collect();
            for _ in 0..extra_limbs {
                c.push(rng.limb(base2k));
            }
            batch.push(c);
        }
    } else {
        for _ in 0..(1 << 16) {
            batch.push((0..size).map(|_| rng.limb(base2k)).collect());
        }
    }
    for chunk in batch.chunks(64) {
        run(base2k, n, size, dir, chunk, &mut st);
    }
    st
}

fn table() -> (String, usize) {
    let mut out = String::new();
    let mut failing_cells: usize = 0;
    out.push_str(
        "base2k | n=2N*ext | log2(n)+1 | branch | dir   | extra | samples | out of tol. | max err | mean err | != round(full) (max) | smallest failing limbs: have vs round(v)\n",
    );
    for &n in &[32usize, 64, 128, 256] {
        let log2n = n.trailing_zeros() as usize + 1;
        for base2k in 2usize..=10 {
            for (dir, dname) in [
                (LookUpTableRotationDirection::Right, "Right"),
                (LookUpTableRotationDirection::Left, "Left"),
            ] {
                for extra in [0usize, 1, 3] {
                    let st = sweep(base2k, n, extra, dir);
                    // branch taken by the unmodified code
                    let branch = if base2k > log2n { "if  " } else { "else" };
                    let fb = match &st.first_bad {
                        Some((c, h, w)) => format!("{c:?}: {h} vs {w}"),
                        None => "-".to_string(),
                    };
                    let bias: f64 = st.sum_err / st.samples as f64;
                    // with limbs to spare the rounding must not be visibly biased (a single guard bit gives +1/4)
                    let biased: bool = extra >= 1 && bias.abs() > 0.2;
                    out.push_str(&format!(
                        "{base2k:6} | {n:8} | {log2n:9} | {branch}   | {dname:5} | {extra:5} | {:7} | {:11} | {:7.3} | {:+8.3} | {:8} ({:3})       | {fb}{}\n",
                        st.samples,
                        st.bad,
                        st.max_err,
                        bias,
                        st.bad_full,
                        st.max_full,
                        if biased { " BIASED" } else { "" }
                    ));
                    if st.bad != 0 || biased {
                        failing_cells += 1;
                    }
                }
            }
        }
    }
    (out, failing_cells)
}

#[test]
fn mod_switch_2n_matches_exact_reference() {
    let (t, failing) = table();
    println!("{t}");
    assert_eq!(
        failing, 0,
        "{failing} (base2k, n, dir, extra) cells deviate from the exact reference"
    );
}

/// Ciphertexts with fewer limbs than `ceil((log2(n)+1)/base2k)`: every limb is used and the result is exact.
#[test]
fn mod_switch_2n_short_ciphertext() {
    let mut bad: usize = 0;
    for (base2k, n, size) in [(2usize, 256usize, 2usize), (3, 256, 2), (4, 128, 1), (5, 256, 1)] {
        for dir in [LookUpTableRotationDirection::Right, LookUpTableRotationDirection::Left] {
            let outcome = std::panic::catch_unwind(|| {
                let mut st = Stat::default();
                let half: i64 = 1 << (base2k - 1);
                let coeffs: Vec<Vec<i64>> = (0..(1u64 << (size * base2k)))
                    .map(|v| {
                        (0..size)
                            .map(|i| (((v >> ((size - 1 - i) * base2k)) & ((1 << base2k) - 1)) as i64) - half)
                            .collect()
                    })
                    .collect();
                run(base2k, n, size, dir, &coeffs, &mut st);
                st
            });
            match outcome {
                Ok(st) => {
                    println!(
                        "short: base2k={base2k} n={n} size={size} {dir:?}: {} / {} differ (max |d| {}) {:?}",
                        st.bad_full, st.samples, st.max_full, st.first_bad
                    );
                    bad += (st.bad_full != 0) as usize;
                }
                Err(_) => {
                    println!("short: base2k={base2k} n={n} size={size} {dir:?}: PANIC");
                    bad += 1;
                }
            }
        }
    }
    assert_eq!(bad, 0);
}

/// End-to-end consequence: a standard blind rotation (N=256, ext=1) of an honest LWE ciphertext whose own
/// `base2k` is small (7 <= log2(2N)+1 = 10, so the multi-limb path of `mod_switch_2n` is taken) must return f(x).
#[test]
fn blind_rotation_with_small_lwe_base2k() {
    use poulpy_bin_fhe::blind_rotation::{
        BlindRotationKey, BlindRotationKeyEncryptSk, BlindRotationKeyLayout, BlindRotationKeyPrepared, CGGI, LookUpTableLayout,
        LookupTable,
    };
    use poulpy_core::{
        EncryptionLayout, GLWEDecrypt, LWEEncryptSk,
        layouts::{
            GLWE, GLWELayout, GLWEPlaintext, GLWESecret, GLWESecretPreparedFactory, LWELayout, LWEPlaintext, LWESecret,
            prepared::GLWESecretPrepared,
        },
    };
    use poulpy_cpu_ref::FFT64Ref;
    use poulpy_hal::{
        api::{ModuleNew, ScratchOwnedAlloc, ScratchOwnedBorrow},
        layouts::{DeviceBuf, Module, ScratchOwned},
        source::Source,
    };

    let n_glwe: usize = 256;
    let n_lwe: usize = 64;
    let module: Module<FFT64Ref> = Module::<FFT64Ref>::new(n_glwe as u64);
    let module = &module;
    let base2k: usize = 19;
    let log_msg: usize = 4;
    let message_modulus: usize = 1 << log_msg;

    let mut source_xs: Source = Source::new([2u8; 32]);
    let mut source_xe: Source = Source::new([2u8; 32]);
    let mut source_xa: Source = Source::new([1u8; 32]);

    let brk_infos = EncryptionLayout::new_from_default_sigma(BlindRotationKeyLayout {
        n_glwe: n_glwe.into(),
        n_lwe: n_lwe.into(),
        base2k: base2k.into(),
        k: (3 * base2k).into(),
        dnum: 2usize.into(),
        rank: 1usize.into(),
    })
    .unwrap();
    let glwe_infos = EncryptionLayout::new_from_default_sigma(GLWELayout {
        n: n_glwe.into(),
        base2k: base2k.into(),
        k: (2 * base2k).into(),
        rank: 1usize.into(),
    })
    .unwrap();

    let mut scratch: ScratchOwned<FFT64Ref> =
        ScratchOwned::<FFT64Ref>::alloc(BlindRotationKey::encrypt_sk_tmp_bytes(module, &brk_infos));
    let mut sk_glwe: GLWESecret<Vec<u8>> = GLWESecret::alloc_from_infos(&glwe_infos);
    sk_glwe.fill_ternary_prob(0.5, &mut source_xs);
    let mut sk_glwe_dft: GLWESecretPrepared<DeviceBuf<FFT64Ref>, FFT64Ref> =
        module.glwe_secret_prepared_alloc_from_infos(&glwe_infos);
    module.glwe_secret_prepare(&mut sk_glwe_dft, &sk_glwe);
    let mut sk_lwe: LWESecret<Vec<u8>> = LWESecret::alloc(n_lwe.into());
    sk_lwe.fill_binary_block(1, &mut source_xs);

    let mut scratch_br: ScratchOwned<FFT64Ref> = ScratchOwned::<FFT64Ref>::alloc(BlindRotationKeyPrepared::execute_tmp_bytes(
        module,
        1,
        1,
        &glwe_infos,
        &brk_infos,
    ));
    let mut brk: BlindRotationKey<Vec<u8>, CGGI> = BlindRotationKey::<Vec<u8>, CGGI>::alloc(&brk_infos);
    module.blind_rotation_key_encrypt_sk(
        &mut brk,
        &sk_glwe_dft,
        &sk_lwe,
        &brk_infos,
        &mut source_xe,
        &mut source_xa,
        scratch.borrow(),
    );
    let mut brk_prepared: BlindRotationKeyPrepared<DeviceBuf<FFT64Ref>, CGGI, FFT64Ref> =
        BlindRotationKeyPrepared::alloc(module, &brk);
    brk_prepared.prepare(module, &brk, scratch_br.borrow());

    let f = |x: i64| -> i64 { 2 * x + 1 };
    let f_vec: Vec<i64> = (0..message_modulus as i64).map(f).collect();
    let mut lut: LookupTable = LookupTable::alloc(&LookUpTableLayout {
        n: n_glwe.into(),
        extension_factor: 1,
        k: base2k.into(),
        base2k: base2k.into(),
    });
    lut.set(module, &f_vec, log_msg + 1);

    let mut failures: Vec<String> = Vec::new();
    // 19: control (single-limb path); 10 = log2(2N)+1, 7, 5, 3: multi-limb path
    for lwe_base2k in [19usize, 10, 7, 5, 3] {
        let lwe_infos = EncryptionLayout::new_from_default_sigma(LWELayout {
            n: n_lwe.into(),
            k: (lwe_base2k * 24usize.div_ceil(lwe_base2k)).into(),
            base2k: lwe_base2k.into(),
        })
        .unwrap();
        for x in 0..message_modulus as i64 {
            let mut lwe: LWE<Vec<u8>> = LWE::alloc_from_infos(&lwe_infos);
            let mut pt_lwe: LWEPlaintext<Vec<u8>> = LWEPlaintext::alloc_from_infos(&lwe_infos);
            pt_lwe.encode_i64(x, (log_msg + 1).into());
            module.lwe_encrypt_sk(
                &mut lwe,
                &pt_lwe,
                &sk_lwe,
                &lwe_infos,
                &mut source_xe,
                &mut source_xa,
                scratch.borrow(),
            );
            let mut res: GLWE<Vec<u8>> = GLWE::alloc_from_infos(&glwe_infos);
            brk_prepared.execute(module, &mut res, &lwe, &lut, scratch_br.borrow());
            let mut pt_have: GLWEPlaintext<Vec<u8>> = GLWEPlaintext::alloc_from_infos(&glwe_infos);
            module.glwe_decrypt(&res, &mut pt_have, &sk_glwe_dft, scratch.borrow());
            let have: i64 = pt_have
                .decode_coeff_i64((log_msg + 1).into(), 0)
                .rem_euclid(2 * message_modulus as i64);
            if have != f(x) {
                failures.push(format!("lwe_base2k={lwe_base2k} x={x}: have {have} want {}", f(x)));
            }
        }
    }
    for l in &failures {
        println!("e2e: {l}");
    }
    assert!(
        failures.is_empty(),
        "{} of 80 blind rotations returned the wrong table entry",
        failures.len()
    );
}
